// compiled WITHOUT -fsanitize=thread: invisible to TSan
#define _GNU_SOURCE
#include <pthread.h>
#include <stdint.h>
#include <stdlib.h>
#include <stdio.h>
#include <unistd.h>
#include <sys/syscall.h>
#include <linux/futex.h>
#define MAXT 16
static volatile int turn = 0;      // which sim-thread id may run
static volatile int nthreads = 1;  // registered threads (0 = main)
static volatile int alive[MAXT] = {1};
static volatile int blocked_on[MAXT]; // 0 = runnable, else mutex addr hash
static __thread int my_id = 0;
static uint64_t rng = 88172645463325252ull;
static uint64_t nextr(void){ rng ^= rng<<13; rng ^= rng>>7; rng ^= rng<<17; return rng; }
static void fwait(volatile int *addr, int val){ syscall(SYS_futex, addr, FUTEX_WAIT, val, NULL, NULL, 0); }
static void fwake(volatile int *addr){ syscall(SYS_futex, addr, FUTEX_WAKE, 64, NULL, NULL, 0); }
void sim_seed(uint64_t s){ rng = s*2654435761u + 1; }
static void wait_turn(void){ int t; while ((t = __atomic_load_n(&turn, __ATOMIC_RELAXED)) != my_id) fwait(&turn, t); }
static void pick_next(void){
  int cand[MAXT], n=0;
  for (int i=0;i<nthreads;i++) if (alive[i] && !blocked_on[i]) cand[n++]=i;
  if (!n) { fprintf(stderr,"DEADLOCK\n"); _exit(3); }
  int nx = cand[nextr()%n];
  __atomic_store_n(&turn, nx, __ATOMIC_RELAXED); fwake(&turn);
}
void sim_yield(void){ pick_next(); wait_turn(); }
struct start { void*(*fn)(void*); void*arg; int id; };
static void *tramp(void *p){ struct start s = *(struct start*)p; free(p); my_id = s.id; wait_turn(); void *r = s.fn(s.arg); alive[my_id]=0; pick_next(); return r; }
int __real_pthread_create(pthread_t*, const pthread_attr_t*, void*(*)(void*), void*);
int __wrap_pthread_create(pthread_t*t, const pthread_attr_t*a, void*(*fn)(void*), void*arg){
  struct start *s = malloc(sizeof *s); s->fn=fn; s->arg=arg; s->id=nthreads; alive[s->id]=1; nthreads++;
  int r = __real_pthread_create(t,a,tramp,s); sim_yield(); return r; }
int __real_pthread_join(pthread_t, void**);
static pthread_t tids[MAXT];
int __wrap_pthread_join(pthread_t t, void**rv){
  // wait (in sim) until all others not alive is too strong; simply yield until real join would not block: poll with tryjoin
  for(;;){ int r = pthread_tryjoin_np(t, rv); if (r==0) return 0; sim_yield(); }
}
int __real_pthread_mutex_lock(pthread_mutex_t*); int __real_pthread_mutex_unlock(pthread_mutex_t*); 
int __wrap_pthread_mutex_lock(pthread_mutex_t*m){ sim_yield(); while (pthread_mutex_trylock(m)!=0) sim_yield(); return 0; }
int __wrap_pthread_mutex_unlock(pthread_mutex_t*m){ int r=__real_pthread_mutex_unlock(m); sim_yield(); return r; }
#include <sys/types.h>
ssize_t __real_pread64(int, void*, size_t, off_t);
static unsigned long sched_digest = 1469598103934665603UL; static long npoints;
ssize_t __wrap_pread64(int fd, void*b, size_t n, off_t o){ sim_yield(); return __real_pread64(fd,b,n,o); }
void sim_report(void){ fprintf(stderr,"threads=%d\n", nthreads); }
