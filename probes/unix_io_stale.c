#include <stdio.h>
#include <string.h>
#include <stdlib.h>
#include "ext2fs/ext2fs.h"
int main(){ io_channel ch; char b[1024*8], r[1024]; errcode_t e;
 system("dd if=/dev/zero of=/dev/shm/s.img bs=1k count=64 2>/dev/null");
 e = unix_io_manager->open("/dev/shm/s.img", IO_FLAG_RW, &ch); if(e){printf("open %ld\n",(long)e);return 1;}
 io_channel_set_blksize(ch,1024);
 io_channel_read_blk64(ch,10,1,r); printf("initial blk10[0]=%d\n", r[0]);
 memset(b,'A',sizeof b); e=io_channel_write_blk64(ch,8,6,b); printf("direct write 6 blocks @8 -> %ld\n",(long)e);
 io_channel_read_blk64(ch,10,1,r); printf("after direct write: blk10[0]=%d (expect %d)\n", r[0],'A');
 // write_byte
 io_channel_read_blk64(ch,20,1,r); memset(b,'B',100); e=io_channel_write_byte(ch, 20*1024+10, 100, b); io_channel_read_blk64(ch,20,1,r); printf("after write_byte: blk20[10]=%d (expect %d) e=%ld\n", r[10],'B',(long)e);
 // zeroout over clean cached + dirty cached
 io_channel_read_blk64(ch,9,1,r); memset(b,'C',1024); io_channel_write_blk64(ch,30,1,b); e=io_channel_zeroout(ch,9,1); e=io_channel_zeroout(ch,30,1); io_channel_read_blk64(ch,9,1,r); printf("after zeroout clean: blk9[0]=%d (expect 0) e=%ld\n", r[0],(long)e); io_channel_read_blk64(ch,30,1,r); printf("after zeroout dirty: blk30[0]=%d (expect 0)\n", r[0]);
 io_channel_flush(ch); io_channel_close(ch);
 FILE*f=fopen("/dev/shm/s.img","rb"); fseek(f,30*1024,0); printf("on disk blk30[0]=%d (expect 0)\n", fgetc(f)); return 0; }
