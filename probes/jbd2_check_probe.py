import sys,pickle
img=sys.argv[1]; exp=pickle.load(open(sys.argv[2],'rb')); f=open(img,'rb'); ok=True
for b,d in sorted(exp.items()):
    f.seek(b*1024); got=f.read(1024); print(b, 'OK' if got==bytes(d) else 'MISMATCH got tag %02x'%got[8]); ok&=(got==bytes(d))
f.seek(5004*1024); print('5004 untouched:', f.read(1024)==b'\0'*1024)
