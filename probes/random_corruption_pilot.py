import os, random, subprocess, sys, shutil
B='/var/tmp/e2x/b'
env=dict(os.environ, ASAN_OPTIONS='detect_leaks=0:exitcode=77:abort_on_error=0', UBSAN_OPTIONS='print_stacktrace=1:halt_on_error=0', MKE2FS_CONFIG='/dev/null', E2FSCK_CONFIG='/dev/null', E2FSPROGS_SKIP_PROGRESS='1', TZ='GMT0')
base='/dev/shm/pilot_base.img'
if not os.path.exists(base):
    subprocess.run([B+'/misc/mke2fs','-q','-F','-O','has_journal,extent,huge_file,flex_bg,metadata_csum,64bit,dir_nlink,extra_isize,inline_data,^resize_inode','-I','256','-b','1024','-N','256','-d','/repo/lib/et',base,'4096'],env=env,check=True,stderr=subprocess.DEVNULL)
data=open(base,'rb').read()
# metadata region guess: first 300 blocks
N=int(sys.argv[1]); seed0=int(sys.argv[2])
bad=[];san=[];stats={}
for i in range(N):
    r=random.Random(seed0*100003+i)
    img=bytearray(data)
    k=r.choice([1,1,1,2,3])
    patches=[]
    for _ in range(k):
        off=r.randrange(1024, 300*1024)
        mode=r.choice(['flip','byte','zero4'])
        if mode=='flip': img[off]^=1<<r.randrange(8)
        elif mode=='byte': img[off]=r.randrange(256)
        else: img[off:off+4]=b'\0\0\0\0'
        patches.append((off,mode))
    p='/dev/shm/pilot_%d.img'%os.getpid()
    open(p,'wb').write(img)
    a=subprocess.run([B+'/e2fsck/e2fsck','-fy',p],env=env,capture_output=True,timeout=60)
    if a.returncode==77 or a.returncode<0 or b'runtime error' in a.stderr: san.append((i,patches,a.returncode,a.stderr[-300:]))
    stats[a.returncode]=stats.get(a.returncode,0)+1
    if a.returncode & (4|8|16|32|128) or a.returncode<0 or a.returncode==77: continue
    b=subprocess.run([B+'/e2fsck/e2fsck','-fn',p],env=env,capture_output=True,timeout=60)
    if b.returncode!=0:
        bad.append((i,patches,a.returncode,b.returncode,b.stdout[-400:]))
print('stats',stats); print('nonconv',len(bad)); 
for x in bad[:6]: print(x)
print('san',len(san))
for x in san[:5]: print(x)
