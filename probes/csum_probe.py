import struct, sys
def mk(poly):
    t=[]
    for i in range(256):
        c=i
        for _ in range(8): c=(c>>1)^(poly if c&1 else 0)
        t.append(c)
    return t
T=mk(0x82F63B78)
def crc32c(crc,data):
    for b in data: crc=T[(crc^b)&0xff]^(crc>>8)
    return crc&0xffffffff
T16=mk(0xA001)
def crc16(crc,data):
    for b in data: crc=T16[(crc^b)&0xff]^(crc>>8)
    return crc&0xffff
f=open(sys.argv[1],'rb'); img=f.read()
sb=img[1024:2048]
u32=lambda b,o: struct.unpack_from('<I',b,o)[0]; u16=lambda b,o: struct.unpack_from('<H',b,o)[0]
assert u16(sb,0x38)==0xEF53
bs=1024<<u32(sb,0x18); bpg=u32(sb,0x20); ipg=u32(sb,0x28); isz=u16(sb,0x58); first=u32(sb,0x14)
incompat=u32(sb,0x60); rocompat=u32(sb,0x64); desc_size=u16(sb,0xFE) if incompat&0x80 else 32
uuid=sb[0x68:0x78]; blocks=u32(sb,4); groups=(blocks-first+bpg-1)//bpg
print('bs',bs,'groups',groups,'desc',desc_size,'isz',isz)
# 1 superblock
print('sb csum', hex(u32(sb,0x3FC)), hex(crc32c(0xffffffff, sb[:0x3FC])))
seed = u32(sb,0x270) if incompat&0x2000 else crc32c(0xffffffff, uuid)
blk=lambda n: img[n*bs:(n+1)*bs]
gdt=img[(first+1)*bs:(first+1)*bs+groups*desc_size]
def gd(g): return gdt[g*desc_size:(g+1)*desc_size]
ok=0
for g in range(groups):
    d=gd(g)
    c=crc32c(seed, struct.pack('<I',g)); c=crc32c(c, d[:0x1E]); c=crc32c(c,b'\0\0'); c=crc32c(c,d[0x20:]) if desc_size>32 else c
    ok+= (c&0xffff)==u16(d,0x1E)
print('gdt csum ok', ok,'/',groups)
def loc(d,lo,hi): return u32(d,lo)|((u32(d,hi)<<32) if desc_size>=64 else 0)
okb=oki=0;nb=ni=0
for g in range(groups):
    d=gd(g); flags=u16(d,0x12)
    bb=loc(d,0,0x20); ib=loc(d,4,0x24)
    if not flags&2:  # BLOCK_UNINIT
        c=crc32c(seed, blk(bb)[:bpg//8]); got=u16(d,0x18)|(u16(d,0x38)<<16 if desc_size>=64 else 0); nb+=1; okb+= (c==got if desc_size>=64 else (c&0xffff)==got)
    if not flags&1:
        c=crc32c(seed, blk(ib)[:ipg//8]); got=u16(d,0x1A)|(u16(d,0x3A)<<16 if desc_size>=64 else 0); ni+=1; oki+= (c==got if desc_size>=64 else (c&0xffff)==got)
print('block bitmap csum ok',okb,'/',nb,' inode bitmap csum ok',oki,'/',ni)
def inode_raw(ino):
    g=(ino-1)//ipg; idx=(ino-1)%ipg; it=loc(gd(g),8,0x28); off=it*bs+idx*isz; return bytearray(img[off:off+isz])
def inode_csum(ino):
    raw=inode_raw(ino); gen=u32(raw,0x64)
    s=crc32c(seed,struct.pack('<I',ino)); s=crc32c(s,struct.pack('<I',gen))
    lo=u16(raw,0x7C); extra=u16(raw,0x80) if isz>128 else 0
    hi=u16(raw,0x82) if (isz>128 and extra>=4) else None
    raw2=bytearray(raw); raw2[0x7C:0x7E]=b'\0\0'
    if hi is not None: raw2[0x82:0x84]=b'\0\0'
    c=crc32c(s,bytes(raw2))
    got=lo|((hi<<16) if hi is not None else 0)
    return (c if hi is not None else c&0xffff), got, s, raw
for ino in (2,8,12,14,15):
    c,got,s,raw=inode_csum(ino); print('inode',ino,'csum',hex(got),hex(c),'OK' if c==got else 'BAD')
# dir leaf block of root (inode 2): first extent in i_block
def first_extent(raw):
    ib=raw[0x28:0x28+60]; assert u16(ib,0)==0xF30A; depth=u16(ib,6)
    e=ib[12:24]
    if depth==0: return ('leaf', u32(e,0), u16(e,4), u32(e,8)|(u16(e,6)<<32))
    return ('idx', u32(e,0), 0, u32(e,4)|(u16(e,8)<<32))
c,got,s2,raw2=inode_csum(2); k=first_extent(raw2); db=blk(k[3])
tail=db[bs-12:]; assert u32(tail,0)==0 and u16(tail,4)==12 and tail[6]==0 and tail[7]==0xDE
print('root dir leaf csum', hex(u32(tail,8)), hex(crc32c(s2, db[:bs-12])))
# extent block of inode 12 (depth 1)
c,got,s12,raw12=inode_csum(12); k=first_extent(raw12); eb=blk(k[3]); assert u16(eb,0)==0xF30A; emax=u16(eb,4); toff=12+12*emax
print('extent block csum', hex(u32(eb,toff)), hex(crc32c(s12, eb[:toff])))
# htree root of inode 15: block 0 ; dx_root: fake dirents . and .. then info(8) then limit/count at 0x20
c,got,s15,raw15=inode_csum(15); k=first_extent(raw15); hb=blk(k[3])
count_off=0x20; limit=u16(hb,count_off); count=u16(hb,count_off+2)
size=count_off+count*8; t=hb[count_off+limit*8:count_off+limit*8+8]
cc=crc32c(s15, hb[:size]); cc=crc32c(cc, t[:4]); cc=crc32c(cc, b'\0\0\0\0')
print('dx root csum', hex(u32(t,4)), hex(cc), 'limit',limit,'count',count)
# xattr block of inode 14
c,got,s14,raw14=inode_csum(14); acl=u32(raw14,0x68)|(u16(raw14,0x76)<<32); xb=bytearray(blk(acl)); assert u32(xb,0)==0xEA020000
stored=u32(xb,0x10); xb[0x10:0x14]=b'\0\0\0\0'
print('xattr block csum', hex(stored), hex(crc32c(crc32c(seed, struct.pack('<Q',acl)), bytes(xb))))
# MMP
mmpb=u32(sb,0x168)|0
mmpb= struct.unpack_from('<Q',sb,0x168)[0]; mb=blk(mmpb); print('mmp magic',hex(u32(mb,0)),'csum',hex(u32(mb,0x3FC)),hex(crc32c(seed,mb[:0x3FC])))
