#include <stdio.h>
#include <stdlib.h>
#include <string.h>
#include "ext2fs/ext2fs.h"
void sim_seed(unsigned long);
int main(int argc,char**argv){ ext2_filsys fs; errcode_t e; sim_seed(atol(argv[2]));
 e = ext2fs_open(argv[1], EXT2_FLAG_64BITS|EXT2_FLAG_THREADS, 0, 0, unix_io_manager, &fs); if(e){printf("open %ld\n",(long)e);return 1;}
 if (argc>4) fs->default_bitmap_type = EXT2FS_BMAP64_RBTREE;
 e = ext2fs_rw_bitmaps(fs, EXT2FS_BITMAPS_BLOCK|EXT2FS_BITMAPS_INODE, atoi(argv[3])); printf("rw_bitmaps -> %ld\n",(long)e);
 if(!e){ unsigned long h=1469598103934665603UL; blk64_t b; for(b=fs->super->s_first_data_block;b<ext2fs_blocks_count(fs->super);b++){ h^=ext2fs_test_block_bitmap2(fs->block_map,b); h*=1099511628211UL;} ext2_ino_t i; for(i=1;i<=fs->super->s_inodes_count;i++){h^=ext2fs_test_inode_bitmap2(fs->inode_map,i); h*=1099511628211UL;} printf("digest %lx flags %x\n",h,fs->flags & (EXT2_FLAG_BBITMAP_TAIL_PROBLEM|EXT2_FLAG_IBITMAP_TAIL_PROBLEM)); }
 ext2fs_close(fs); return 0; }
