import struct, sys, os, random
def mk_table():
    t=[]
    for i in range(256):
        c=i
        for _ in range(8): c=(c>>1)^(0x82F63B78 if c&1 else 0)
        t.append(c)
    return t
T=mk_table()
def crc32c(crc,data):
    for b in data: crc=T[(crc^b)&0xff]^(crc>>8)
    return crc&0xffffffff
MAGIC=0xC03B3998
img=sys.argv[1]; mode=sys.argv[2]  # v3 | v2 | none
BS=1024; JPHYS=210; JLEN=1024
f=open(img,'r+b')
def rd(blk): f.seek(blk*BS); return bytearray(f.read(BS))
def wr(blk,data): assert len(data)==BS; f.seek(blk*BS); f.write(data)
jsb=rd(JPHYS)
assert struct.unpack('>I',jsb[0:4])[0]==MAGIC
uuid=bytes(jsb[0x30:0x40])
incompat=0x1|0x2   # REVOKE|64BIT
if mode=='v3': incompat|=0x10
if mode=='v2': incompat|=0x08
seed=crc32c(0xffffffff,uuid)
FIRST=1
start=int(sys.argv[3]) if len(sys.argv)>3 else 1   # log start offset (to force wrap use 1015)
seq0=7
def tagbytes():
    if mode=='v3': return 16
    return 12+(2 if mode=='v2' else 0)
pos=[start]
def nxt():
    p=pos[0]; pos[0]+=1
    if pos[0]>=JLEN: pos[0]-= (JLEN-FIRST)
    return p
def jwrite(data): wr(JPHYS+nxt(), bytes(data))
def hdr(bt,seq): return struct.pack('>III',MAGIC,bt,seq)
def descriptor(seq, items):
    # items: list of (fsblock, data)
    d=bytearray(BS); d[0:12]=hdr(1,seq); off=12; datas=[]
    for i,(blk,data) in enumerate(items):
        flags=0
        data=bytearray(data)
        if struct.unpack('>I',data[0:4])[0]==MAGIC: flags|=1; data[0:4]=b'\0\0\0\0'
        if i>0: flags|=2
        if i==len(items)-1: flags|=8
        c=crc32c(crc32c(seed,struct.pack('>I',seq)),bytes(data))
        if mode=='v3': tag=struct.pack('>IIII',blk&0xffffffff,flags,blk>>32,c)
        elif mode=='v2': tag=struct.pack('>IHHI',blk&0xffffffff,c&0xffff,flags,blk>>32)+b'\0\0'
        else: tag=struct.pack('>IHHI',blk&0xffffffff,0,flags,blk>>32)
        d[off:off+len(tag)]=tag; off+=tagbytes()
        if i==0: d[off:off+16]=uuid; off+=16
        datas.append(data)
    if mode!='none':
        d[BS-4:BS]=b'\0\0\0\0'; d[BS-4:BS]=struct.pack('>I',crc32c(seed,bytes(d)))
    jwrite(d)
    for x in datas: jwrite(x)
def revoke(seq, blks):
    d=bytearray(BS); d[0:12]=hdr(5,seq); off=16
    for b in blks: d[off:off+8]=struct.pack('>Q',b); off+=8
    d[12:16]=struct.pack('>I',off)
    if mode!='none': d[BS-4:BS]=struct.pack('>I',crc32c(seed,bytes(d)))
    jwrite(d)
def commit(seq,t=1000):
    d=bytearray(BS); d[0:12]=hdr(2,seq)
    d[0x30:0x38]=struct.pack('>Q',t+seq)
    if mode!='none':
        d[16:20]=struct.pack('>I',crc32c(seed,bytes(d)))
    jwrite(d)
R=random.Random(5)
def rnd(tagb): return bytes([tagb])*16+bytes(R.randrange(256) for _ in range(BS-16))
exp={}
A=rnd(0xA1); B=rnd(0xB2); C=struct.pack('>I',MAGIC)+rnd(0xC3)[4:]; D=rnd(0xD4); E=rnd(0xE5); Fz=rnd(0xF6)
# txn 7: 5000=A 5001=B 5002=C(escaped)
descriptor(seq0,[(5000,A),(5001,B),(5002,C)]); commit(seq0)
# txn 8: revoke 5001 ; 5003=D ; 5000=E (overrides A)
revoke(seq0+1,[5001]); descriptor(seq0+1,[(5003,D),(5000,E)]); commit(seq0+1)
# txn 9: 5001=Fz again (after revoke in 8 -> must be replayed), then uncommitted txn 10
descriptor(seq0+2,[(5001,Fz)]); commit(seq0+2)
descriptor(seq0+3,[(5004,A)])   # no commit
exp={5000:E,5001:Fz,5002:C,5003:D}
# journal superblock
jsb[0x18:0x1c]=struct.pack('>I',seq0); jsb[0x1c:0x20]=struct.pack('>I',start)
jsb[0x28:0x2c]=struct.pack('>I',incompat)
if mode!='none':
    jsb[0x50]=4
    jsb[0xfc:0x100]=b'\0\0\0\0'; jsb[0xfc:0x100]=struct.pack('>I',crc32c(0xffffffff,bytes(jsb)))
wr(JPHYS,bytes(jsb))
f.close()
import pickle; pickle.dump(exp,open(img+'.exp','wb'))
