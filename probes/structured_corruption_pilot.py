import os, random, subprocess, sys, re, collections
from concurrent.futures import ProcessPoolExecutor
B='/var/tmp/e2x/b'
env=dict(os.environ, ASAN_OPTIONS='detect_leaks=0:exitcode=77', UBSAN_OPTIONS='halt_on_error=0', MKE2FS_CONFIG='/dev/null', E2FSCK_CONFIG='/dev/null', E2FSPROGS_SKIP_PROGRESS='1', TZ='GMT0')
base='/dev/shm/c.img'
INOF=['mode','size','links_count','blocks','flags','block[0]','block[1]','block[2]','block[3]','block[5]','file_acl','dtime','extra_isize','generation','uid','size_high']
BGF=['block_bitmap','inode_bitmap','inode_table','free_blocks_count','free_inodes_count','used_dirs_count','flags','itable_unused']
SBF=['inodes_count','blocks_count','free_blocks_count','free_inodes_count','first_data_block','log_block_size','blocks_per_group','inodes_per_group','first_ino','inode_size','feature_compat','feature_incompat','feature_ro_compat','journal_inum','last_orphan','desc_size','first_meta_bg','reserved_gdt_blocks','log_groups_per_flex','min_extra_isize']
VALS=[0,1,2,0xffffffff,0x7fffffff,12,13,15,255,256,1024,4096,65535,65536,0x80000,0x4000,0x41ed,0x81a4,0xa1ff,5000,16383,16384,16385]
def one(i):
    r=random.Random(7000003+i)
    p='/dev/shm/p2_%d.img'%i
    subprocess.run(['cp',base,p])
    cmds=[]
    for _ in range(r.choice([1,1,1,2])):
        k=r.random()
        if k<0.6: cmds.append('sif <%d> %s %d'%(r.choice([2,7,8,11,12,13,14,15,16,17,20,100,200,300]), r.choice(INOF), r.choice(VALS)))
        elif k<0.8: cmds.append('set_bg %d %s %d'%(r.randrange(2), r.choice(BGF), r.choice(VALS)))
        else: cmds.append('ssv %s %d'%(r.choice(SBF), r.choice(VALS)))
    for c in cmds: subprocess.run([B+'/debugfs/debugfs','-w','-R',c,p],env=env,capture_output=True,timeout=30,stdin=subprocess.DEVNULL)
    try:
        a=subprocess.run([B+'/e2fsck/e2fsck','-fy',p],env=env,capture_output=True,timeout=20,stdin=subprocess.DEVNULL)
    except subprocess.TimeoutExpired:
        os.unlink(p); return (i,cmds,'TIMEOUT',None,'')
    res=(i,cmds,a.returncode,None,'')
    if a.returncode==77 or a.returncode<0 or b'runtime error' in a.stderr:
        res=(i,cmds,a.returncode,'SAN',a.stderr[-400:].decode('latin1'))
    elif not (a.returncode & (4|8|16|32|128)):
        b=subprocess.run([B+'/e2fsck/e2fsck','-fn',p],env=env,capture_output=True,timeout=20,stdin=subprocess.DEVNULL)
        if b.returncode!=0:
            msg=[l for l in b.stdout.decode('latin1').splitlines() if l and not l.startswith('Pass') and 'e2fsck' not in l][:4]
            res=(i,cmds,a.returncode,b.returncode,' | '.join(msg))
    os.unlink(p); return res
if __name__=='__main__':
    N=int(sys.argv[1])
    with ProcessPoolExecutor(16) as ex: rs=list(ex.map(one,range(N),chunksize=8))
    st=collections.Counter(r[2] for r in rs); print('fy status',dict(st))
    bad=[r for r in rs if r[3] not in (None,)]
    print('nonconvergent/san/timeouts:',len(bad), ' timeouts', sum(1 for r in rs if r[2]=='TIMEOUT'))
    for r in bad[:25]: print(r)
