#define _GNU_SOURCE
#include <stdio.h>
#include <stdlib.h>
#include <unistd.h>
#include <string.h>
#include <sys/types.h>
#include <time.h>
static int on(void){ static int v=-1; if(v<0) v = getenv("SHIMLOG")?1:0; return v; }
#include <stdlib.h>
ssize_t __real_pwrite64(int, const void*, size_t, off_t);
ssize_t __wrap_pwrite64(int fd, const void*b, size_t n, off_t o){ if(on()) fprintf(stderr,"[ev] W fd=%d blk4k=%ld off=%ld n=%zu\n",fd,(long)o/4096,(long)o,n); return __real_pwrite64(fd,b,n,o);}
int __real_fsync(int); int __wrap_fsync(int fd){ if(on()) fprintf(stderr,"[ev] F fd=%d\n",fd); return __real_fsync(fd);}
ssize_t __real_write(int,const void*,size_t); ssize_t __wrap_write(int fd,const void*b,size_t n){ if(on()&&fd>2) fprintf(stderr,"[ev] w fd=%d pos=%ld n=%zu\n",fd,(long)lseek(fd,0,SEEK_CUR),n); return __real_write(fd,b,n);}
long __real_sysconf(int); long __wrap_sysconf(int n){ long r=__real_sysconf(n); if(n==_SC_NPROCESSORS_CONF) return 1; return r;}
