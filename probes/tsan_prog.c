#include <pthread.h>
#include <stdio.h>
#include <stdlib.h>
void sim_seed(unsigned long); void sim_yield(void);
static long shared, locked; static pthread_mutex_t mu = PTHREAD_MUTEX_INITIALIZER; static int do_race;
static void *w(void *a){ for(int i=0;i<3;i++){ pthread_mutex_lock(&mu); locked++; pthread_mutex_unlock(&mu); if(do_race) shared++; } return 0; }
int main(int c,char**v){ sim_seed(atol(v[1])); do_race=atoi(v[2]); pthread_t t[3]; for(int i=0;i<3;i++) pthread_create(&t[i],0,w,0); for(int i=0;i<3;i++) pthread_join(t[i],0); printf("locked=%ld shared=%ld\n",locked,shared); }
