#!/usr/bin/env python3
"""Regenerate /verif/MANIFEST.json from the registry in checks/registry.py.

Run after registering or withdrawing a check.  The manifest is data; the registry
is the single place where a check's level, technique and notes are written down.
"""
import json, os, sys
HERE = os.path.dirname(os.path.abspath(__file__))
ROOT = os.path.dirname(HERE)
sys.path.insert(0, ROOT)
from checks.registry import CHECKS, NOT_APPLICABLE, HOOK_COMMITS  # noqa: E402

ALL = ["C%02d" % i for i in range(1, 21)]


def main():
    checks = []
    for pid in ALL:
        c = CHECKS.get(pid)
        if not c:
            continue
        checks.append({
            "property_id": pid,
            "quick_cmd": "./check %s --tier quick" % pid,
            "thorough_cmd": "./check %s --tier thorough" % pid,
            "evidence_file": "evidence/%s.json" % pid,
            "replay_cmd_template": "./check %s --replay {path}" % pid,
            "engine": "detsim",
            "level_claimed": {
                "category": c["level"],
                "text": c["text"],
                "design_ref": c.get("design_ref", "DESIGN.md section 3, " + pid),
            },
            "level_note": c["note"],
            "technique": c["technique"],
        })
    na = []
    for pid in ALL:
        if pid in CHECKS:
            continue
        reason = NOT_APPLICABLE.get(pid)
        if not reason:
            reason = ("not claimed in this commit: the simulated check for this property is "
                      "not yet registered (it has not passed the determinism / quiet-baseline / "
                      "sensitivity gates of DESIGN.md section 5)")
        na.append({"property_id": pid, "reason": reason})
    m = {
        "version": 1,
        "setup_cmd": "./build.sh",
        "hooks": {
            "guard": "E2FSPROGS_VERIF",
            "enable": ("build.sh copies /repo's working tree to $VERIF_BUILD (default "
                       "/var/tmp/e2fs-verif-build), configures it out of tree with "
                       "CFLAGS='-DE2FSPROGS_VERIF -fsanitize=address,bounds' and links every tool "
                       "with sim/shim/simshim.o through -Wl,--wrap=<libc symbol>"),
            "baseline_off_cmd": "make -C /repo -j16 >/dev/null && make -C /repo -j8 check",
            "source_commits": HOOK_COMMITS,
            "add_only": True,
        },
        "engines": [{
            "name": "detsim",
            "path": "sim/",
            "serves_properties": sorted(CHECKS.keys()),
            "kind_free_text": ("deterministic simulation with fault injection: link-time libc shim "
                               "(simulated disk, clock, randomness, CPU count, thread scheduler), "
                               "seeded Python orchestrator, crash-state reconstruction, plan shrinking "
                               "and replay, independent reference models under ref/"),
        }],
        "checks": checks,
        "not_applicable": na,
        "notes": ("Every check: ./check <id> [--tier quick|thorough] [--seed N] [--replay FILE]. "
                  "VERIF_SEED / VERIF_TIER are honoured.  Exit 0 held, 1 VIOLATION, 2 harness error."),
    }
    with open(os.path.join(ROOT, "MANIFEST.json"), "w") as f:
        json.dump(m, f, indent=1)
        f.write("\n")
    print("MANIFEST.json: %d checks, %d not claimed" % (len(checks), len(na)))


if __name__ == "__main__":
    main()
