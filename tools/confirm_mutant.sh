#!/bin/bash
# tools/confirm_mutant.sh <worktree> <MUTdir> <seeded id> <property>
# Confirms a seeded change independently in its scratch worktree: builds with the patch, runs the
# existing test suite and the demonstration (must fail), reverts, rebuilds, runs the demonstration
# (must pass).  On success copies patch.diff, demo.sh, README.md to /verif/seeded/<id>/ with meta.json.
set -u
wt=$1; mut=$2; id=$3; prop=$4
out=/verif/seeded/$id
log=/var/tmp/vlog/confirm-$id.log
mkdir -p /var/tmp/vlog
cd "$wt" || exit 2
git checkout -q -- . 2>/dev/null
[ -f Makefile ] || ./configure >/dev/null 2>&1
make -j8 >/dev/null 2>&1
chmod +x "$mut/demo.sh"
bash "$mut/demo.sh" "$wt" >"$log.clean" 2>&1; rc_clean=$?
git apply "$mut/patch.diff" || { echo "$id: patch does not apply"; exit 2; }
make -j8 >"$log.build" 2>&1; rc_build=$?
( cd tests && make -j12 check 2>&1 | tail -3 ) >"$log.tests" 2>&1
tests_line=$(grep "tests succeeded" "$log.tests" | tr '\t' ' ')
failed=$(grep "^Tests failed" "$log.tests")
bash "$mut/demo.sh" "$wt" >"$log.mut" 2>&1; rc_mut=$?
git checkout -q -- .
make -j8 >/dev/null 2>&1
ok=no
if [ $rc_build = 0 ] && [ $rc_clean = 0 ] && [ $rc_mut != 0 ] && [ "$failed" = "Tests failed: m_assume_storage_prezeroed " ]; then ok=yes; fi
echo "$id: build=$rc_build demo_clean=$rc_clean demo_mut=$rc_mut tests='$tests_line' failed='$failed' => $ok"
if [ $ok = yes ]; then
	mkdir -p "$out"
	cp "$mut/patch.diff" "$mut/demo.sh" "$out/"
	cp "$mut/README.md" "$out/README.md" 2>/dev/null
	python3 - "$out" "$prop" "$rc_clean" "$rc_mut" "$tests_line" "$failed" <<'PY'
import json, sys
out, prop, rc_clean, rc_mut, tests, failed = sys.argv[1:7]
json.dump({"property": prop, "source": "independent sub-agent given only the property text and a scratch worktree",
           "confirmed": {"builds": True, "existing_tests_with_patch": tests.strip() + "; " + failed.strip() + " (same as the unmodified tree)",
                         "demo_exit_unmodified": int(rc_clean), "demo_exit_with_patch": int(rc_mut),
                         "how": "tools/confirm_mutant.sh: scratch worktree, ./configure && make, make -C tests check, demo.sh with and without the patch"},
           "needs_to_manifest": "see README.md", "caught_by": []}, open(out + "/meta.json", "w"), indent=1)
PY
fi
