#!/bin/bash
# tools/mutant.sh <patch.diff> <tier> <check id> [more ids...]
# Apply a seeded change to /repo's working tree, run the named checks against it (no evidence is
# written), and undo the change again.  Refuses to run when /repo has uncommitted changes to tracked files.
set -u
HERE=$(cd "$(dirname "$0")/.." && pwd)
patch=$1; tier=$2; shift 2
if [ -n "$(git -C /repo status --porcelain --untracked-files=no)" ]; then
	echo "mutant.sh: /repo has uncommitted changes; commit or undo them first" >&2
	exit 2
fi
git -C /repo apply "$patch" || { echo "mutant.sh: patch does not apply" >&2; exit 2; }
trap 'git -C /repo checkout -- . ; "$HERE/build.sh" >/dev/null 2>&1' EXIT
rc=0
for id in "$@"; do
	echo "=== $id ($tier) with $(basename "$(dirname "$patch")")/$(basename "$patch")"
	( cd "$HERE" && ./check "$id" --tier "$tier" --no-evidence ${MUT_ARGS:-} ) 2>&1 | grep -E "VIOLATION|HARNESS-ERROR|class:|runs=" | awk -v m=${MUT_LINES:-6} '/runs=/{print; next} n<m{print; n++}' | cut -c1-${MUT_COLS:-300}
	r=${PIPESTATUS[0]}
	[ "$r" != 0 ] && rc=$r
done
exit $rc
