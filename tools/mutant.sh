#!/bin/bash
# tools/mutant.sh <patch.diff> <tier> <check id> [more ids...]
# Run checks against a seeded change without touching /repo: the change is applied to a scratch
# worktree of /repo's HEAD (/tmp/mutrepo-<slot>) which the checks build from (VERIF_REPO / VERIF_BUILD),
# so that the registered checks and the sweeps that use /repo and the default build area are not
# disturbed.  The worktree is removed afterwards.  No evidence is written.
set -u
HERE=$(cd "$(dirname "$0")/.." && pwd)
patch=$1; tier=$2; shift 2
slot=${MUT_SLOT:-0}
wt=/tmp/mutrepo-$slot
bd=/var/tmp/e2fs-mut-build-$slot
git -C /repo worktree remove --force "$wt" >/dev/null 2>&1
rm -rf "$wt"
git -C /repo worktree add --detach "$wt" HEAD >/dev/null 2>&1 || { echo "mutant.sh: cannot create worktree" >&2; exit 2; }
cleanup() { git -C /repo worktree remove --force "$wt" >/dev/null 2>&1; rm -rf "$wt"; }
trap cleanup EXIT
git -C "$wt" apply "$patch" || { echo "mutant.sh: patch does not apply to /repo HEAD" >&2; exit 2; }
rc=0
for id in "$@"; do
	echo "=== $id ($tier) with $(basename "$(dirname "$patch")")/$(basename "$patch")"
	( cd "$HERE" && VERIF_REPO="$wt" VERIF_BUILD="$bd" ./check "$id" --tier "$tier" --no-evidence ${MUT_ARGS:-} ) 2>&1 \
	  | grep -E "VIOLATION|HARNESS-ERROR|class:|runs=" | awk -v m=${MUT_LINES:-6} '/runs=/{print; next} n<m{print; n++}' | cut -c1-${MUT_COLS:-300}
	r=${PIPESTATUS[0]}
	[ "$r" != 0 ] && rc=$r
done
exit $rc
