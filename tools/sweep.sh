#!/bin/bash
# tools/sweep.sh <id> <runs> <wall> <seed...>   -- quiet-baseline sweep on the unchanged tree (no evidence written)
HERE=$(cd "$(dirname "$0")/.." && pwd)
id=$1; runs=$2; wall=$3; shift 3
for s in "$@"; do
	( cd "$HERE" && ./check "$id" --tier quick --runs "$runs" --wall "$wall" --seed "$s" --jobs ${SWEEP_JOBS:-6} --no-evidence ) 2>&1 \
	  | grep -E "^VIOLATION|class:|detail:|HARNESS-ERROR|runs=" | cut -c1-600 | sed "s/^/[$id seed $s] /"
done
