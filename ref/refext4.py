#!/usr/bin/env python3
"""refext4 - an independent ext2/ext3/ext4 on-disk format reader and consistency checker.

Pure Python 3.11, standard library only.  Nothing here imports, links or executes
e2fsprogs.  The parser is written from the on-disk format description (kernel
Documentation/filesystems/ext4 and the structure layouts); only field offsets were
taken from the headers.

Optional accelerator: librefcrc.so next to this file (see refcrc.c), loaded with
ctypes; when it is absent table-driven pure Python CRCs are used.
"""
import os
import struct
import hashlib
import ctypes
from collections import namedtuple

__all__ = ['FormatError', 'RefFS', 'Inode', 'Complaint', 'TreeEntry', 'dirhash',
           'crc32c', 'crc16', 'crc32_be']


class FormatError(Exception):
    """Impossible on-disk structure met by a low-level accessor."""


# --------------------------------------------------------------------------- CRCs

def _mk_table(poly):
    t = []
    for i in range(256):
        c = i
        for _ in range(8):
            c = (c >> 1) ^ (poly if c & 1 else 0)
        t.append(c)
    return t


def _mk_table_be(poly):
    t = []
    for i in range(256):
        c = i << 24
        for _ in range(8):
            c = ((c << 1) ^ (poly if c & 0x80000000 else 0)) & 0xffffffff
        t.append(c)
    return t


_T32C = _mk_table(0x82F63B78)
_T16 = _mk_table(0xA001)
_T32BE = _mk_table_be(0x04C11DB7)


def _py_crc32c(crc, data):
    t = _T32C
    for b in bytes(data):
        crc = t[(crc ^ b) & 0xff] ^ (crc >> 8)
    return crc & 0xffffffff


def _py_crc16(crc, data):
    t = _T16
    for b in bytes(data):
        crc = t[(crc ^ b) & 0xff] ^ (crc >> 8)
    return crc & 0xffff


def _py_crc32_be(crc, data):
    t = _T32BE
    for b in bytes(data):
        crc = t[((crc >> 24) ^ b) & 0xff] ^ ((crc << 8) & 0xffffffff)
    return crc & 0xffffffff


_lib = None


def _load_lib():
    global _lib
    p = os.path.join(os.path.dirname(os.path.abspath(__file__)), 'librefcrc.so')
    if os.environ.get('REFEXT4_NO_SO') or not os.path.exists(p):
        return
    try:
        lib = ctypes.CDLL(p)
        lib.ref_crc32c.restype = ctypes.c_uint32
        lib.ref_crc32c.argtypes = [ctypes.c_uint32, ctypes.c_char_p, ctypes.c_size_t]
        lib.ref_crc16.restype = ctypes.c_uint16
        lib.ref_crc16.argtypes = [ctypes.c_uint16, ctypes.c_char_p, ctypes.c_size_t]
        lib.ref_crc32_be.restype = ctypes.c_uint32
        lib.ref_crc32_be.argtypes = [ctypes.c_uint32, ctypes.c_char_p, ctypes.c_size_t]
        # self-test against the pure Python versions before trusting it
        probe = bytes(range(256)) * 3 + b'refext4'
        if (lib.ref_crc32c(0xffffffff, probe, len(probe)) != _py_crc32c(0xffffffff, probe) or
                lib.ref_crc16(0xffff, probe, len(probe)) != _py_crc16(0xffff, probe) or
                lib.ref_crc32_be(0x1234, probe, len(probe)) != _py_crc32_be(0x1234, probe)):
            return
        _lib = lib
    except (OSError, AttributeError):
        _lib = None


_load_lib()

if _lib is not None:
    def crc32c(crc, data):
        if not isinstance(data, bytes):
            data = bytes(data)
        return _lib.ref_crc32c(crc & 0xffffffff, data, len(data))

    def crc16(crc, data):
        if not isinstance(data, bytes):
            data = bytes(data)
        return _lib.ref_crc16(crc & 0xffff, data, len(data))

    def crc32_be(crc, data):
        if not isinstance(data, bytes):
            data = bytes(data)
        return _lib.ref_crc32_be(crc & 0xffffffff, data, len(data))
else:
    crc32c = _py_crc32c
    crc16 = _py_crc16
    crc32_be = _py_crc32_be

HAVE_SO = _lib is not None

# --------------------------------------------------------------------------- directory hashes

_M32 = 0xffffffff
HASH_LEGACY, HASH_HALF_MD4, HASH_TEA = 0, 1, 2
HASH_LEGACY_UNSIGNED, HASH_HALF_MD4_UNSIGNED, HASH_TEA_UNSIGNED, HASH_SIPHASH = 3, 4, 5, 6


def _str2hashbuf(msg, num, unsigned_char):
    """Pack up to num*4 bytes of msg into num 32-bit words, padded with a length pattern."""
    ln = len(msg)
    pad = (ln | (ln << 8)) & _M32
    pad = (pad | (pad << 16)) & _M32
    val = pad
    if ln > num * 4:
        ln = num * 4
    out = []
    for i in range(ln):
        c = msg[i]
        if not unsigned_char and c >= 128:
            c -= 256
        if i % 4 == 0:
            val = pad
        val = (c + (val << 8)) & _M32
        if i % 4 == 3:
            out.append(val)
            val = pad
            num -= 1
    num -= 1
    if num >= 0:
        out.append(val)
    while True:
        num -= 1
        if num < 0:
            break
        out.append(pad)
    return out


def _tea(buf, inp):
    b0, b1 = buf[0], buf[1]
    a, b, c, d = inp
    s = 0
    for _ in range(16):
        s = (s + 0x9E3779B9) & _M32
        b0 = (b0 + ((((b1 << 4) + a) & _M32) ^ ((b1 + s) & _M32) ^ (((b1 >> 5) + b) & _M32))) & _M32
        b1 = (b1 + ((((b0 << 4) + c) & _M32) ^ ((b0 + s) & _M32) ^ (((b0 >> 5) + d) & _M32))) & _M32
    buf[0] = (buf[0] + b0) & _M32
    buf[1] = (buf[1] + b1) & _M32


def _rol(x, s):
    return ((x << s) | (x >> (32 - s))) & _M32


def _half_md4(buf, inp):
    a, b, c, d = buf

    def F(x, y, z):
        return z ^ (x & (y ^ z))

    def G(x, y, z):
        return ((x & y) + ((x ^ y) & z)) & _M32

    def H(x, y, z):
        return x ^ y ^ z
    K2, K3 = 0x5A827999, 0x6ED9EBA1
    r1 = ((0, 3), (1, 7), (2, 11), (3, 19), (4, 3), (5, 7), (6, 11), (7, 19))
    r2 = ((1, 3), (3, 5), (5, 9), (7, 13), (0, 3), (2, 5), (4, 9), (6, 13))
    r3 = ((3, 3), (7, 9), (2, 11), (6, 15), (1, 3), (5, 9), (0, 11), (4, 15))
    for f, k, rr in ((F, 0, r1), (G, K2, r2), (H, K3, r3)):
        for i, (x, s) in enumerate(rr):
            # the register roles rotate a,d,c,b
            if i % 4 == 0:
                a = _rol((a + f(b, c, d) + inp[x] + k) & _M32, s)
            elif i % 4 == 1:
                d = _rol((d + f(a, b, c) + inp[x] + k) & _M32, s)
            elif i % 4 == 2:
                c = _rol((c + f(d, a, b) + inp[x] + k) & _M32, s)
            else:
                b = _rol((b + f(c, d, a) + inp[x] + k) & _M32, s)
    buf[0] = (buf[0] + a) & _M32
    buf[1] = (buf[1] + b) & _M32
    buf[2] = (buf[2] + c) & _M32
    buf[3] = (buf[3] + d) & _M32


def _legacy_hash(name, unsigned_char):
    h0, h1 = 0x12a3fe2d, 0x37abe8f9
    for c in name:
        if not unsigned_char and c >= 128:
            c -= 256
        h = (h1 + (h0 ^ ((c * 7152373) & _M32))) & _M32
        if h & 0x80000000:
            h = (h - 0x7fffffff) & _M32
        h1 = h0
        h0 = h
    return (h0 << 1) & _M32


def dirhash(name, hash_version, seed=(0, 0, 0, 0), unsigned_char=False):
    """Return (major, minor) htree hash of a directory entry name.

    hash_version 0/1/2 = legacy / half_md4 / tea; 3/4/5 are the same with unsigned chars.
    """
    if hash_version in (3, 4, 5):
        hash_version -= 3
        unsigned_char = True
    buf = [0x67452301, 0xefcdab89, 0x98badcfe, 0x10325476]
    if any(seed):
        buf = [s & _M32 for s in seed]
    minor = 0
    if hash_version == HASH_LEGACY:
        h = _legacy_hash(name, unsigned_char)
    elif hash_version == HASH_HALF_MD4:
        p = name
        while len(p) > 0:
            _half_md4(buf, _str2hashbuf(p, 8, unsigned_char))
            p = p[32:]
        h, minor = buf[1], buf[2]
    elif hash_version == HASH_TEA:
        p = name
        while len(p) > 0:
            _tea(buf, _str2hashbuf(p, 4, unsigned_char))
            p = p[16:]
        h, minor = buf[0], buf[1]
    else:
        raise FormatError('unsupported directory hash version %d' % hash_version)
    h &= ~1 & _M32
    if h == 0xfffffffe:
        h = 0xfffffffc
    return h, minor


# --------------------------------------------------------------------------- constants

EXT2_MAGIC = 0xEF53
EXT_MAGIC = 0xF30A
XATTR_MAGIC = 0xEA020000
MMP_MAGIC = 0x004D4D50
JBD2_MAGIC = 0xC03B3998
ORPHAN_BLOCK_MAGIC = 0x0b10ca04

BG_INODE_UNINIT, BG_BLOCK_UNINIT, BG_INODE_ZEROED = 1, 2, 4

FL_INDEX = 0x1000
FL_HUGE_FILE = 0x40000
FL_EXTENTS = 0x80000
FL_EA_INODE = 0x200000
FL_INLINE_DATA = 0x10000000
FL_ENCRYPT = 0x800
FL_CASEFOLD = 0x40000000

S_IFMT = 0o170000
S_IFSOCK, S_IFLNK, S_IFREG, S_IFBLK, S_IFDIR, S_IFCHR, S_IFIFO = (
    0o140000, 0o120000, 0o100000, 0o060000, 0o040000, 0o020000, 0o010000)

_FEATURES = {
    # compat
    'dir_prealloc': ('c', 0x1), 'imagic_inodes': ('c', 0x2), 'has_journal': ('c', 0x4),
    'ext_attr': ('c', 0x8), 'resize_inode': ('c', 0x10), 'dir_index': ('c', 0x20),
    'lazy_bg': ('c', 0x40), 'exclude_bitmap': ('c', 0x100), 'sparse_super2': ('c', 0x200),
    'fast_commit': ('c', 0x400), 'stable_inodes': ('c', 0x800), 'orphan_file': ('c', 0x1000),
    # ro_compat
    'sparse_super': ('r', 0x1), 'large_file': ('r', 0x2), 'huge_file': ('r', 0x8),
    'uninit_bg': ('r', 0x10), 'gdt_csum': ('r', 0x10), 'dir_nlink': ('r', 0x20),
    'extra_isize': ('r', 0x40), 'has_snapshot': ('r', 0x80), 'quota': ('r', 0x100),
    'bigalloc': ('r', 0x200), 'metadata_csum': ('r', 0x400), 'replica': ('r', 0x800),
    'read-only': ('r', 0x1000), 'readonly': ('r', 0x1000), 'project': ('r', 0x2000),
    'shared_blocks': ('r', 0x4000), 'verity': ('r', 0x8000), 'orphan_present': ('r', 0x10000),
    # incompat
    'compression': ('i', 0x1), 'filetype': ('i', 0x2), 'needs_recovery': ('i', 0x4),
    'journal_dev': ('i', 0x8), 'meta_bg': ('i', 0x10), 'extent': ('i', 0x40),
    'extents': ('i', 0x40), '64bit': ('i', 0x80), 'mmp': ('i', 0x100), 'flex_bg': ('i', 0x200),
    'ea_inode': ('i', 0x400), 'dirdata': ('i', 0x1000), 'csum_seed': ('i', 0x2000),
    'metadata_csum_seed': ('i', 0x2000), 'large_dir': ('i', 0x4000), 'largedir': ('i', 0x4000),
    'inline_data': ('i', 0x8000), 'encrypt': ('i', 0x10000), 'casefold': ('i', 0x20000),
}

# (name, offset, struct format) - little endian
_SB_FIELDS = [
    ('s_inodes_count', 0x00, 'I'), ('s_blocks_count_lo', 0x04, 'I'), ('s_r_blocks_count_lo', 0x08, 'I'),
    ('s_free_blocks_count_lo', 0x0C, 'I'), ('s_free_inodes_count', 0x10, 'I'),
    ('s_first_data_block', 0x14, 'I'), ('s_log_block_size', 0x18, 'I'), ('s_log_cluster_size', 0x1C, 'I'),
    ('s_blocks_per_group', 0x20, 'I'), ('s_clusters_per_group', 0x24, 'I'), ('s_inodes_per_group', 0x28, 'I'),
    ('s_mtime', 0x2C, 'I'), ('s_wtime', 0x30, 'I'), ('s_mnt_count', 0x34, 'H'), ('s_max_mnt_count', 0x36, 'h'),
    ('s_magic', 0x38, 'H'), ('s_state', 0x3A, 'H'), ('s_errors', 0x3C, 'H'), ('s_minor_rev_level', 0x3E, 'H'),
    ('s_lastcheck', 0x40, 'I'), ('s_checkinterval', 0x44, 'I'), ('s_creator_os', 0x48, 'I'),
    ('s_rev_level', 0x4C, 'I'), ('s_def_resuid', 0x50, 'H'), ('s_def_resgid', 0x52, 'H'),
    ('s_first_ino', 0x54, 'I'), ('s_inode_size', 0x58, 'H'), ('s_block_group_nr', 0x5A, 'H'),
    ('s_feature_compat', 0x5C, 'I'), ('s_feature_incompat', 0x60, 'I'), ('s_feature_ro_compat', 0x64, 'I'),
    ('s_uuid', 0x68, '16s'), ('s_volume_name', 0x78, '16s'), ('s_last_mounted', 0x88, '64s'),
    ('s_algorithm_usage_bitmap', 0xC8, 'I'), ('s_prealloc_blocks', 0xCC, 'B'),
    ('s_prealloc_dir_blocks', 0xCD, 'B'), ('s_reserved_gdt_blocks', 0xCE, 'H'),
    ('s_journal_uuid', 0xD0, '16s'), ('s_journal_inum', 0xE0, 'I'), ('s_journal_dev', 0xE4, 'I'),
    ('s_last_orphan', 0xE8, 'I'), ('s_hash_seed', 0xEC, '4I'), ('s_def_hash_version', 0xFC, 'B'),
    ('s_jnl_backup_type', 0xFD, 'B'), ('s_desc_size', 0xFE, 'H'), ('s_default_mount_opts', 0x100, 'I'),
    ('s_first_meta_bg', 0x104, 'I'), ('s_mkfs_time', 0x108, 'I'), ('s_jnl_blocks', 0x10C, '17I'),
    ('s_blocks_count_hi', 0x150, 'I'), ('s_r_blocks_count_hi', 0x154, 'I'), ('s_free_blocks_hi', 0x158, 'I'),
    ('s_min_extra_isize', 0x15C, 'H'), ('s_want_extra_isize', 0x15E, 'H'), ('s_flags', 0x160, 'I'),
    ('s_raid_stride', 0x164, 'H'), ('s_mmp_update_interval', 0x166, 'H'), ('s_mmp_block', 0x168, 'Q'),
    ('s_raid_stripe_width', 0x170, 'I'), ('s_log_groups_per_flex', 0x174, 'B'), ('s_checksum_type', 0x175, 'B'),
    ('s_encryption_level', 0x176, 'B'), ('s_kbytes_written', 0x178, 'Q'), ('s_snapshot_inum', 0x180, 'I'),
    ('s_snapshot_id', 0x184, 'I'), ('s_snapshot_r_blocks_count', 0x188, 'Q'), ('s_snapshot_list', 0x190, 'I'),
    ('s_error_count', 0x194, 'I'), ('s_first_error_time', 0x198, 'I'), ('s_first_error_ino', 0x19C, 'I'),
    ('s_first_error_block', 0x1A0, 'Q'), ('s_first_error_func', 0x1A8, '32s'), ('s_first_error_line', 0x1C8, 'I'),
    ('s_last_error_time', 0x1CC, 'I'), ('s_last_error_ino', 0x1D0, 'I'), ('s_last_error_line', 0x1D4, 'I'),
    ('s_last_error_block', 0x1D8, 'Q'), ('s_last_error_func', 0x1E0, '32s'), ('s_mount_opts', 0x200, '64s'),
    ('s_usr_quota_inum', 0x240, 'I'), ('s_grp_quota_inum', 0x244, 'I'), ('s_overhead_clusters', 0x248, 'I'),
    ('s_backup_bgs', 0x24C, '2I'), ('s_encrypt_algos', 0x254, '4s'), ('s_encrypt_pw_salt', 0x258, '16s'),
    ('s_lpf_ino', 0x268, 'I'), ('s_prj_quota_inum', 0x26C, 'I'), ('s_checksum_seed', 0x270, 'I'),
    ('s_wtime_hi', 0x274, 'B'), ('s_mtime_hi', 0x275, 'B'), ('s_mkfs_time_hi', 0x276, 'B'),
    ('s_lastcheck_hi', 0x277, 'B'), ('s_first_error_time_hi', 0x278, 'B'), ('s_last_error_time_hi', 0x279, 'B'),
    ('s_first_error_errcode', 0x27A, 'B'), ('s_last_error_errcode', 0x27B, 'B'),
    ('s_encoding', 0x27C, 'H'), ('s_encoding_flags', 0x27E, 'H'), ('s_orphan_file_inum', 0x280, 'I'),
    ('s_checksum', 0x3FC, 'I'),
]

_XATTR_PREFIX = {0: b'', 1: b'user.', 2: b'system.posix_acl_access', 3: b'system.posix_acl_default',
                 4: b'trusted.', 6: b'security.', 7: b'system.', 8: b'system.richacl'}


class Complaint:
    __slots__ = ('rule', 'detail', 'obj')

    def __init__(self, rule, detail, obj=None):
        self.rule = rule
        self.detail = detail
        self.obj = obj

    def __repr__(self):
        return 'Complaint(%s, %s, %r)' % (self.rule, self.obj, self.detail)

    __str__ = __repr__


TreeEntry = namedtuple('TreeEntry', 'path ino inode file_type parent')


class Inode:
    __slots__ = ('ino', 'raw', 'mode', 'uid', 'gid', 'size', 'atime', 'ctime', 'mtime', 'crtime',
                 'atime_extra', 'ctime_extra', 'mtime_extra', 'crtime_extra', 'dtime', 'links_count',
                 'blocks', 'blocks_raw', 'flags', 'generation', 'file_acl', 'extra_isize', 'checksum',
                 'projid', 'i_block', 'version', 'in_unused', 'offset')

    def __repr__(self):
        return '<Inode %d mode %o size %d links %d flags %#x>' % (
            self.ino, self.mode, self.size, self.links_count, self.flags)

    @property
    def fmt(self):
        return self.mode & S_IFMT


# --------------------------------------------------------------------------- the filesystem

_u16 = struct.Struct('<H').unpack_from
_u32 = struct.Struct('<I').unpack_from
_INODE_HEAD = struct.Struct('<HHIIIIIHHII')        # up to i_flags (0x00..0x24)
_INODE_TAIL = struct.Struct('<IIIIHHHHHH')          # 0x64..0x80


def _is_pow(n, base):
    if n < 1:
        return False
    while n % base == 0:
        n //= base
    return n == 1


class RefFS:
    MAX_EXTENT_DEPTH = 5

    def __init__(self, path=None, data=None, offset=0):
        if data is None:
            if path is None:
                raise ValueError('path or data required')
            with open(path, 'rb') as f:
                data = f.read()
        if offset:
            data = data[offset:]
        if not isinstance(data, bytes):
            data = bytes(data)
        self.data = data
        self.path = path
        self._cache = {}
        self._parse_super()

    # ---------------------------------------------------------------- superblock
    def _parse_super(self):
        d = self.data
        if len(d) < 2048:
            raise FormatError('image too small for a superblock')
        raw = d[1024:2048]
        sb = {}
        for name, off, fmt in _SB_FIELDS:
            v = struct.unpack_from('<' + fmt, raw, off)
            sb[name] = v[0] if len(v) == 1 else tuple(v)
        self.sb_raw = raw
        self.sb = sb
        if sb['s_magic'] != EXT2_MAGIC:
            raise FormatError('bad superblock magic %#x' % sb['s_magic'])
        self._fc, self._fi, self._fr = sb['s_feature_compat'], sb['s_feature_incompat'], sb['s_feature_ro_compat']
        if sb['s_rev_level'] == 0:
            sb['s_first_ino'] = 11
            sb['s_inode_size'] = 128
        is64 = bool(self._fi & 0x80)
        sb['s_blocks_count'] = sb['s_blocks_count_lo'] | ((sb['s_blocks_count_hi'] << 32) if is64 else 0)
        sb['s_r_blocks_count'] = sb['s_r_blocks_count_lo'] | ((sb['s_r_blocks_count_hi'] << 32) if is64 else 0)
        sb['s_free_blocks_count'] = sb['s_free_blocks_count_lo'] | ((sb['s_free_blocks_hi'] << 32) if is64 else 0)
        if sb['s_log_block_size'] > 6:
            raise FormatError('s_log_block_size %d out of range' % sb['s_log_block_size'])
        self.block_size = 1024 << sb['s_log_block_size']
        self.blocks_count = sb['s_blocks_count']
        self.first_data_block = sb['s_first_data_block']
        self.blocks_per_group = sb['s_blocks_per_group']
        self.inodes_per_group = sb['s_inodes_per_group']
        self.inode_size = sb['s_inode_size']
        self.first_ino = sb['s_first_ino']
        self.inodes_count = sb['s_inodes_count']
        if self.has('bigalloc'):
            if sb['s_log_cluster_size'] < sb['s_log_block_size'] or sb['s_log_cluster_size'] > 20:
                raise FormatError('s_log_cluster_size %d out of range' % sb['s_log_cluster_size'])
            self.cluster_bits = sb['s_log_cluster_size'] - sb['s_log_block_size']
            self.clusters_per_group = sb['s_clusters_per_group']
        else:
            self.cluster_bits = 0
            self.clusters_per_group = self.blocks_per_group
        self.cluster_ratio = 1 << self.cluster_bits
        bs = self.block_size
        if self.blocks_per_group == 0 or self.blocks_per_group > bs * 8 * self.cluster_ratio:
            raise FormatError('s_blocks_per_group %d impossible' % self.blocks_per_group)
        if self.inodes_per_group == 0 or self.inodes_per_group > bs * 8:
            raise FormatError('s_inodes_per_group %d impossible' % self.inodes_per_group)
        if self.inode_size < 128 or self.inode_size > bs or self.inode_size & (self.inode_size - 1):
            raise FormatError('s_inode_size %d impossible' % self.inode_size)
        if self.has('bigalloc') and self.clusters_per_group != self.blocks_per_group >> self.cluster_bits:
            raise FormatError('s_clusters_per_group inconsistent with s_blocks_per_group')
        if self.first_data_block >= self.blocks_count:
            raise FormatError('s_first_data_block beyond s_blocks_count')
        if self.blocks_count * bs > len(d):
            # image shorter than the file system: reads beyond the end raise FormatError lazily
            self.truncated = True
        else:
            self.truncated = False
        self.group_count = (self.blocks_count - self.first_data_block + self.blocks_per_group - 1) // self.blocks_per_group
        if self.group_count == 0 or self.group_count > (1 << 22):
            raise FormatError('group count %d impossible' % self.group_count)
        if self.inodes_count != self.group_count * self.inodes_per_group:
            raise FormatError('s_inodes_count %d != groups %d * s_inodes_per_group %d' % (
                self.inodes_count, self.group_count, self.inodes_per_group))
        if is64:
            self.desc_size = sb['s_desc_size']
            if self.desc_size < 32 or self.desc_size > bs or self.desc_size & (self.desc_size - 1):
                raise FormatError('s_desc_size %d impossible' % self.desc_size)
        else:
            self.desc_size = 32
        self.desc_per_block = bs // self.desc_size
        self.desc_blocks = (self.group_count + self.desc_per_block - 1) // self.desc_per_block
        self.itable_blocks = (self.inodes_per_group * self.inode_size + bs - 1) // bs
        self.csum = self.has('metadata_csum')
        if self.has('csum_seed'):
            self.csum_seed = sb['s_checksum_seed']
        else:
            self.csum_seed = crc32c(0xffffffff, sb['s_uuid'])
        self.addr_per_block = bs // 4

    def has(self, name):
        try:
            kind, bit = _FEATURES[name]
        except KeyError:
            raise KeyError('unknown feature name %r' % name)
        word = {'c': self._fc, 'i': self._fi, 'r': self._fr}[kind]
        return bool(word & bit)

    # ---------------------------------------------------------------- raw access
    def read_block(self, blk):
        if blk < 0 or blk >= self.blocks_count:
            raise FormatError('block %d out of range (blocks_count %d)' % (blk, self.blocks_count))
        bs = self.block_size
        off = blk * bs
        if off + bs > len(self.data):
            raise FormatError('block %d beyond the end of the image' % blk)
        return self.data[off:off + bs]

    def group_first_block(self, g):
        return self.first_data_block + g * self.blocks_per_group

    def group_blocks(self, g):
        """Number of blocks in group g (the last one may be short)."""
        if g == self.group_count - 1:
            return self.blocks_count - self.group_first_block(g)
        return self.blocks_per_group

    def group_of_block(self, blk):
        return (blk - self.first_data_block) // self.blocks_per_group

    # ---------------------------------------------------------------- backup layout
    def backup_groups(self):
        c = self._cache.get('backup_groups')
        if c is not None:
            return c
        n = self.group_count
        if self.has('sparse_super2'):
            s = {0}
            for g in self.sb['s_backup_bgs']:
                if g and g < n:
                    s.add(g)
        elif self.has('sparse_super'):
            s = {0}
            if n > 1:
                s.add(1)
            for base in (3, 5, 7):
                p = base
                while p < n:
                    s.add(p)
                    p *= base
        else:
            s = set(range(n))
        c = sorted(s)
        self._cache['backup_groups'] = c
        self._cache['backup_set'] = s
        return c

    def group_has_super(self, g):
        if 'backup_set' not in self._cache:
            self.backup_groups()
        return g in self._cache['backup_set']

    def _sb_block_of_group(self, g):
        """Block that holds the (backup) superblock of group g, or None."""
        if not self.group_has_super(g):
            return None
        if g == 0:
            return 1 if self.block_size == 1024 else 0
        return self.group_first_block(g)

    def _old_desc_blocks(self):
        if self.has('meta_bg'):
            return min(self.sb['s_first_meta_bg'], self.desc_blocks)
        return self.desc_blocks

    def _desc_block_loc(self, i):
        """Primary location of descriptor block index i."""
        if not self.has('meta_bg') or i < self.sb['s_first_meta_bg']:
            base = 1 if self.block_size == 1024 else 0     # the block holding the primary superblock
            return base + 1 + i
        g = i * self.desc_per_block
        has_super = 1 if self.group_has_super(g) else 0
        if self.block_size == 1024 and i == 0 and self.first_data_block == 0:
            has_super += 1
        return self.group_first_block(g) + has_super

    def gdt_blocks(self):
        return [self._desc_block_loc(i) for i in range(self.desc_blocks)]

    def group_desc(self, g):
        if g < 0 or g >= self.group_count:
            raise FormatError('group %d out of range' % g)
        gc = self._cache.setdefault('gd', {})
        r = gc.get(g)
        if r is not None:
            return r
        i, j = divmod(g, self.desc_per_block)
        blk = self._desc_block_loc(i)
        if blk >= self.blocks_count:
            raise FormatError('descriptor block %d of group %d out of range' % (blk, g))
        off = blk * self.block_size + j * self.desc_size
        ds = self.desc_size
        raw = self.data[off:off + ds]
        if len(raw) < ds:
            raise FormatError('descriptor of group %d beyond the end of the image' % g)
        (bb, ib, it, fb, fi, ud, fl, excl, bbc, ibc, unused, csum) = struct.unpack_from('<IIIHHHHIHHHH', raw, 0)
        if ds >= 64 and self.has('64bit'):
            (bbh, ibh, ith, fbh, fih, udh, unh, exclh, bbch, ibch) = struct.unpack_from('<IIIHHHHIHH', raw, 0x20)
            bb |= bbh << 32
            ib |= ibh << 32
            it |= ith << 32
            fb |= fbh << 16
            fi |= fih << 16
            ud |= udh << 16
            unused |= unh << 16
            bbc |= bbch << 16
            ibc |= ibch << 16
            excl |= exclh << 32
        r = dict(bg_block_bitmap=bb, bg_inode_bitmap=ib, bg_inode_table=it, bg_free_blocks_count=fb,
                 bg_free_inodes_count=fi, bg_used_dirs_count=ud, bg_flags=fl, bg_exclude_bitmap=excl,
                 bg_block_bitmap_csum=bbc, bg_inode_bitmap_csum=ibc, bg_itable_unused=unused,
                 bg_checksum=csum, raw=raw, offset=off, group=g)
        gc[g] = r
        return r

    def _uses_bg_flags(self):
        return self.csum or self.has('uninit_bg')

    def group_flags(self, g):
        """bg_flags, but 0 when the file system has no group descriptor checksums (flags are meaningless then)."""
        if not self._uses_bg_flags():
            return 0
        return self.group_desc(g)['bg_flags']

    def block_bitmap(self, g):
        return self.read_block(self.group_desc(g)['bg_block_bitmap'])

    def inode_bitmap(self, g):
        return self.read_block(self.group_desc(g)['bg_inode_bitmap'])

    # ---------------------------------------------------------------- fixed metadata
    def fixed_metadata(self):
        """dict blk -> (kind, group) of the statically placed metadata.

        Kinds: 'sb', 'gdt', 'reserved_gdt', 'backup_sb', 'backup_gdt', 'backup_reserved_gdt',
        'block_bitmap', 'inode_bitmap', 'inode_table', 'mmp', 'pad' (block 0 in front of a 1k superblock).
        Locations that are out of range are left out (and reported by check()).
        """
        c = self._cache.get('fixed')
        if c is not None:
            return c
        fm = {}
        bad = []
        n = self.group_count
        bc = self.blocks_count
        old = self._old_desc_blocks()
        rsv = 0 if self.has('meta_bg') else self.sb['s_reserved_gdt_blocks']
        for g in self.backup_groups():
            sbb = self._sb_block_of_group(g)
            kind = '' if g == 0 else 'backup_'
            if sbb < bc:
                fm[sbb] = (kind + 'sb', g)
            if g == 0 and sbb == 1 and self.first_data_block == 0:
                fm[0] = ('pad', 0)
            for k in range(old):
                b = sbb + 1 + k
                if b < bc:
                    fm[b] = (kind + 'gdt', g)
            for k in range(rsv):
                b = sbb + 1 + old + k
                if b < bc:
                    fm[b] = (kind + 'reserved_gdt', g)
        if self.has('meta_bg'):
            dpb = self.desc_per_block
            for i in range(self.sb['s_first_meta_bg'], self.desc_blocks):
                first = i * dpb
                for which, g in (('gdt', first), ('backup_gdt', first + 1), ('backup_gdt', first + dpb - 1)):
                    if g >= n:
                        continue
                    if which == 'gdt':
                        b = self._desc_block_loc(i)
                    else:
                        b = self.group_first_block(g) + (1 if self.group_has_super(g) else 0)
                    if b < bc:
                        fm[b] = (which, g)
        for g in range(n):
            try:
                gd = self.group_desc(g)
            except FormatError as e:
                bad.append((g, str(e)))
                continue
            for key, kind in (('bg_block_bitmap', 'block_bitmap'), ('bg_inode_bitmap', 'inode_bitmap')):
                b = gd[key]
                if self.first_data_block <= b < bc:
                    if b in fm:
                        bad.append((g, '%s block %d collides with %s of group %d' % (kind, b, fm[b][0], fm[b][1])))
                    else:
                        fm[b] = (kind, g)
                else:
                    bad.append((g, '%s location %d out of range' % (kind, b)))
            it = gd['bg_inode_table']
            if self.first_data_block <= it and it + self.itable_blocks <= bc:
                for b in range(it, it + self.itable_blocks):
                    if b in fm:
                        bad.append((g, 'inode table block %d collides with %s of group %d' % (b, fm[b][0], fm[b][1])))
                        break
                    fm[b] = ('inode_table', g)
            else:
                bad.append((g, 'inode table location %d out of range' % it))
        if self.has('mmp'):
            b = self.sb['s_mmp_block']
            if self.first_data_block <= b < bc and b not in fm:
                fm[b] = ('mmp', self.group_of_block(b))
            else:
                bad.append((0, 'MMP block %d out of range or colliding' % b))
        self._cache['fixed'] = fm
        self._cache['fixed_bad'] = bad
        return fm

    # ---------------------------------------------------------------- inodes
    def inode_loc(self, ino):
        if ino < 1 or ino > self.inodes_count:
            raise FormatError('inode number %d out of range (1..%d)' % (ino, self.inodes_count))
        g, idx = divmod(ino - 1, self.inodes_per_group)
        it = self.group_desc(g)['bg_inode_table']
        if it < self.first_data_block or it + self.itable_blocks > self.blocks_count:
            raise FormatError('inode table of group %d at %d out of range' % (g, it))
        off = it * self.block_size + idx * self.inode_size
        if off + self.inode_size > len(self.data):
            raise FormatError('inode %d beyond the end of the image' % ino)
        return off

    def read_inode(self, ino):
        ic = self._cache.setdefault('inodes', {})
        i = ic.get(ino)
        if i is None:
            i = self._parse_inode(ino, self.inode_loc(ino))
            ic[ino] = i
        return i

    def _parse_inode(self, ino, off):
        isz = self.inode_size
        raw = self.data[off:off + isz]
        i = Inode()
        i.ino = ino
        i.raw = raw
        i.offset = off
        i.in_unused = False
        (mode, uid, size, atime, ctime, mtime, dtime, gid, links, blocks, flags) = _INODE_HEAD.unpack_from(raw, 0)
        (gen, acl, size_hi, faddr, blocks_hi, acl_hi, uid_hi, gid_hi, csum_lo, _r) = _INODE_TAIL.unpack_from(raw, 0x64)
        i.version = _u32(raw, 0x24)[0]
        i.mode = mode
        i.uid = uid | (uid_hi << 16)
        i.gid = gid | (gid_hi << 16)
        fmt = mode & S_IFMT
        # i_size_high is i_dir_acl on old file systems; the kernel combines it for every type now
        i.size = size | (size_hi << 32)
        i.atime, i.ctime, i.mtime, i.dtime = atime, ctime, mtime, dtime
        i.links_count = links
        i.flags = flags
        i.generation = gen
        i.file_acl = acl | ((acl_hi << 32) if self.has('64bit') else 0)
        b = blocks
        if self.has('huge_file'):
            b |= blocks_hi << 32
            if flags & FL_HUGE_FILE:
                b *= self.block_size // 512
        i.blocks_raw = blocks | (blocks_hi << 32)
        i.blocks = b
        i.i_block = raw[0x28:0x64]
        i.extra_isize = 0
        i.checksum = csum_lo
        i.atime_extra = i.ctime_extra = i.mtime_extra = i.crtime_extra = 0
        i.crtime = 0
        i.projid = 0
        if isz > 128:
            ex = _u16(raw, 0x80)[0]
            i.extra_isize = ex
            if ex <= isz - 128:
                if ex >= 4:
                    i.checksum |= _u16(raw, 0x82)[0] << 16
                if ex >= 8:
                    i.ctime_extra = _u32(raw, 0x84)[0]
                if ex >= 12:
                    i.mtime_extra = _u32(raw, 0x88)[0]
                if ex >= 16:
                    i.atime_extra = _u32(raw, 0x8C)[0]
                if ex >= 20:
                    i.crtime = _u32(raw, 0x90)[0]
                if ex >= 24:
                    i.crtime_extra = _u32(raw, 0x94)[0]
                if ex >= 32:
                    i.projid = _u32(raw, 0x9C)[0]
        return i

    def iter_inodes(self):
        ipg = self.inodes_per_group
        for g in range(self.group_count):
            try:
                gd = self.group_desc(g)
                fl = self.group_flags(g)
                if fl & BG_INODE_UNINIT:
                    continue
                base = self.inode_loc(g * ipg + 1)
            except FormatError:
                continue
            unused = gd['bg_itable_unused'] if self._uses_bg_flags() else 0
            lim = ipg - unused if 0 <= unused <= ipg else ipg
            isz = self.inode_size
            for idx in range(ipg):
                ino = g * ipg + idx + 1
                off = base + idx * isz
                if off + isz > len(self.data):
                    break
                i = self._parse_inode(ino, off)
                i.in_unused = idx >= lim
                yield ino, i

    def root(self):
        return self.read_inode(2)

    @staticmethod
    def is_dir(i):
        return i.mode & S_IFMT == S_IFDIR

    @staticmethod
    def is_reg(i):
        return i.mode & S_IFMT == S_IFREG

    @staticmethod
    def is_lnk(i):
        return i.mode & S_IFMT == S_IFLNK

    @staticmethod
    def is_dev(i):
        return i.mode & S_IFMT in (S_IFCHR, S_IFBLK)

    @staticmethod
    def is_special(i):
        return i.mode & S_IFMT in (S_IFCHR, S_IFBLK, S_IFIFO, S_IFSOCK)

    def has_inline_data(self, i):
        return bool(i.flags & FL_INLINE_DATA) and self.has('inline_data')

    def is_fast_symlink(self, i):
        if i.mode & S_IFMT != S_IFLNK or self.has_inline_data(i):
            return False
        if i.size >= 60:
            return False
        if i.flags & FL_EXTENTS:
            return _u16(i.i_block, 0)[0] != EXT_MAGIC
        return True

    def has_block_map(self, i):
        """True when i_block holds an extent tree or block pointers."""
        fmt = i.mode & S_IFMT
        if fmt not in (S_IFREG, S_IFDIR, S_IFLNK) and not (fmt == 0 and i.ino < self.first_ino):
            return False
        if self.has_inline_data(i):
            return False
        if fmt == S_IFLNK and self.is_fast_symlink(i):
            return False
        return True

    def dev_numbers(self, i):
        old, new = struct.unpack_from('<II', i.i_block, 0)
        if old:
            return (old >> 8) & 0xff, old & 0xff
        return (new & 0xfff00) >> 8, (new & 0xff) | ((new >> 12) & 0xfff00)

    def inode_seed(self, i):
        s = crc32c(self.csum_seed, struct.pack('<I', i.ino))
        return crc32c(s, struct.pack('<I', i.generation))

    # ---------------------------------------------------------------- block maps
    def _check_pblk(self, pblk, n, what):
        if pblk < self.first_data_block or pblk + n > self.blocks_count or n <= 0:
            raise FormatError('%s: physical range %d+%d outside [%d, %d)' % (
                what, pblk, n, self.first_data_block, self.blocks_count))

    def extents(self, inode):
        """Return ([(lblk, pblk, len, uninit)], [tree block numbers]) for extent- and block-mapped inodes."""
        if not self.has_block_map(inode):
            return [], []
        if inode.flags & FL_EXTENTS:
            return self._extent_tree(inode)
        return self._block_map(inode)

    def _extent_tree(self, inode):
        out = []
        tree = []
        seen = set()
        what = 'inode %d' % inode.ino
        state = {'next': 0}      # first logical block not yet covered

        def node(buf, depth_expected, is_root, lo_key, blkno):
            magic, entries, emax, depth, _gen = struct.unpack_from('<HHHHI', buf, 0)
            where = '%s extent %s' % (what, 'root' if is_root else 'block %d' % blkno)
            if magic != EXT_MAGIC:
                raise FormatError('%s: bad magic %#x' % (where, magic))
            cap = (len(buf) - 12) // 12
            if emax > cap or emax == 0:
                raise FormatError('%s: eh_max %d impossible (capacity %d)' % (where, emax, cap))
            if entries > emax:
                raise FormatError('%s: eh_entries %d > eh_max %d' % (where, entries, emax))
            if depth_expected is None:
                if depth > self.MAX_EXTENT_DEPTH:
                    raise FormatError('%s: eh_depth %d > %d' % (where, depth, self.MAX_EXTENT_DEPTH))
            elif depth != depth_expected:
                raise FormatError('%s: eh_depth %d, expected %d' % (where, depth, depth_expected))
            if entries == 0 and not is_root:
                raise FormatError('%s: empty non-root node' % where)
            if depth == 0:
                for k in range(entries):
                    lblk, ln, hi, lo = struct.unpack_from('<IHHI', buf, 12 + 12 * k)
                    pblk = lo | (hi << 32)
                    uninit = ln > 32768
                    if uninit:
                        ln -= 32768
                    if ln == 0:
                        raise FormatError('%s: entry %d has ee_len 0' % (where, k))
                    if k == 0 and lo_key is not None and lblk < lo_key:
                        raise FormatError('%s: first key %d lower than parent index key %d' % (where, lblk, lo_key))
                    if lblk < state['next']:
                        raise FormatError('%s: entry %d (lblk %d) out of order or overlapping (expected >= %d)' % (
                            where, k, lblk, state['next']))
                    if lblk + ln > 0x100000000:
                        raise FormatError('%s: entry %d logical range wraps' % (where, k))
                    self._check_pblk(pblk, ln, '%s entry %d' % (where, k))
                    state['next'] = lblk + ln
                    out.append((lblk, pblk, ln, uninit))
            else:
                prev = None
                for k in range(entries):
                    lblk, lo, hi, _u = struct.unpack_from('<IIHH', buf, 12 + 12 * k)
                    pblk = lo | (hi << 32)
                    if prev is not None and lblk <= prev:
                        raise FormatError('%s: index %d (lblk %d) out of order' % (where, k, lblk))
                    if k == 0 and lo_key is not None and lblk < lo_key:
                        raise FormatError('%s: first key %d lower than parent index key %d' % (where, lblk, lo_key))
                    if lblk < state['next']:
                        raise FormatError('%s: index %d (lblk %d) overlaps previous subtree (ends %d)' % (
                            where, k, lblk, state['next']))
                    prev = lblk
                    self._check_pblk(pblk, 1, '%s index %d' % (where, k))
                    if pblk in seen:
                        raise FormatError('%s: tree block %d referenced twice' % (where, pblk))
                    seen.add(pblk)
                    tree.append(pblk)
                    node(self.read_block(pblk), depth - 1, False, lblk, pblk)

        node(inode.i_block, None, True, None, 0)
        return out, tree

    def _block_map(self, inode):
        what = 'inode %d' % inode.ino
        apb = self.addr_per_block
        bc = self.blocks_count
        fdb = self.first_data_block
        ptrs = struct.unpack_from('<15I', inode.i_block, 0)
        runs = []          # (lblk, pblk, len)
        tree = []
        seen = set()
        fmt = '<%dI' % apb

        def add(lblk, pblk):
            if pblk < fdb or pblk >= bc:
                raise FormatError('%s: block pointer %d (lblk %d) outside [%d, %d)' % (what, pblk, lblk, fdb, bc))
            if runs:
                l0, p0, n0 = runs[-1]
                if l0 + n0 == lblk and p0 + n0 == pblk:
                    runs[-1] = (l0, p0, n0 + 1)
                    return
            runs.append((lblk, pblk, 1))

        def walk(blk, level, lbase):
            if blk < fdb or blk >= bc:
                raise FormatError('%s: level-%d indirect block %d outside [%d, %d)' % (what, level, blk, fdb, bc))
            if blk in seen:
                raise FormatError('%s: indirect block %d referenced twice' % (what, blk))
            seen.add(blk)
            tree.append(blk)
            buf = self.read_block(blk)
            if not any(buf):
                return
            ents = struct.unpack(fmt, buf)
            span = apb ** (level - 1)
            if level == 1:
                for k, p in enumerate(ents):
                    if p:
                        add(lbase + k, p)
            else:
                for k, p in enumerate(ents):
                    if p:
                        walk(p, level - 1, lbase + k * span)

        for k in range(12):
            if ptrs[k]:
                add(k, ptrs[k])
        base = 12
        for level in (1, 2, 3):
            p = ptrs[11 + level]
            if p:
                walk(p, level, base)
            base += apb ** level
        return [(l, p, n, False) for (l, p, n) in runs], tree

    def hole_map(self, inode):
        """Mapped-and-initialised ranges [(lblk, len)], adjacent ranges merged."""
        if self.has_inline_data(inode) or not self.has_block_map(inode):
            return []
        ext, _t = self.extents(inode)
        out = []
        for l, p, n, u in ext:
            if u:
                continue
            if out and out[-1][0] + out[-1][1] == l:
                out[-1] = (out[-1][0], out[-1][1] + n)
            else:
                out.append((l, n))
        return out

    def file_chunks(self, inode, limit=None):
        """Yield the content of the inode as byte chunks that add up to exactly i_size bytes."""
        size = inode.size
        if limit is not None and size > limit:
            raise FormatError('inode %d: size %d above the read limit %d' % (inode.ino, size, limit))
        if self.has_inline_data(inode):
            d = self._inline_data(inode)
            d = d[:size]
            yield d
            if len(d) < size:
                yield bytes(size - len(d))
            return
        if inode.mode & S_IFMT == S_IFLNK and self.is_fast_symlink(inode):
            yield inode.i_block[:size]
            return
        if not self.has_block_map(inode):
            if size:
                yield bytes(size)
            return
        ext, _t = self.extents(inode)
        bs = self.block_size
        pos = 0
        data = self.data
        ZCH = 1 << 20
        for l, p, n, u in ext:
            start = l * bs
            if start >= size:
                break
            gap = start - pos
            while gap > 0:
                k = min(gap, ZCH)
                yield bytes(k)
                gap -= k
            pos = start
            end = min(start + n * bs, size)
            if u:
                k = end - start
                while k > 0:
                    kk = min(k, ZCH)
                    yield bytes(kk)
                    k -= kk
            else:
                off = p * bs
                if off + (end - start) > len(data):
                    raise FormatError('inode %d: data beyond the end of the image' % inode.ino)
                yield data[off:off + (end - start)]
            pos = end
        gap = size - pos
        while gap > 0:
            k = min(gap, ZCH)
            yield bytes(k)
            gap -= k

    def read_file(self, inode, limit=1 << 30):
        return b''.join(self.file_chunks(inode, limit))

    def readlink(self, inode):
        if inode.mode & S_IFMT != S_IFLNK:
            raise FormatError('inode %d is not a symlink' % inode.ino)
        if inode.size > self.block_size * 4:
            raise FormatError('inode %d: symlink size %d too large' % (inode.ino, inode.size))
        return self.read_file(inode)

    def _inline_data(self, inode):
        """i_block followed by the value of system.data (without trimming to i_size)."""
        d = inode.i_block
        try:
            xa = self._xattr_entries(inode)
        except FormatError:
            raise
        for e in xa:
            if e['index'] == 7 and e['name'] == b'data':
                return d + self._xattr_value(inode, e)
        raise FormatError('inode %d: inline data flag without system.data attribute' % inode.ino)
