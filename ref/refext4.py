#!/usr/bin/env python3
"""refext4 - an independent ext2/ext3/ext4 on-disk format reader and consistency checker.

Pure Python 3.11, standard library only.  Nothing here imports, links or executes
e2fsprogs.  The parser is written from the on-disk format description (kernel
Documentation/filesystems/ext4 and the structure layouts); only field offsets were
taken from the headers.

Optional accelerator: librefcrc.so next to this file (see refcrc.c), loaded with
ctypes and self-tested against the pure Python CRCs; when it is absent (or the
environment has REFEXT4_NO_SO set) table-driven pure Python CRCs are used.

check() judges exactly these invariants (rule names as they appear in Complaint.rule):

 R1.range              a block referenced by an in-use inode lies outside [s_first_data_block, s_blocks_count)
 R1.overlap_metadata   ... or on a superblock / descriptor / reserved GDT / bitmap / inode table / MMP block
                       (inode 7 may own reserved GDT blocks, inode 1 may list anything)
 R1.multiply_claimed   two owners for one block (cluster with bigalloc); xattr blocks may be shared; the
                       shared_blocks feature switches the rule off
 R1.xattr_refcount     h_refcount differs from the number of inodes referencing the block
 R1.metadata_location  a bitmap / inode table / MMP location out of range or colliding
 R2.block_bitmap, R2.inode_bitmap, R2.block_uninit, R2.inode_uninit, R2.free_blocks_count,
 R2.free_inodes_count, R2.used_dirs_count, R2.bitmap_padding (last group, up to clusters_per_group only)
 R3.links, R3.unreachable, R3.dot, R3.dotdot, R3.entry_range, R3.entry_unused, R3.dir_hardlink, R3.root
 R4.extent (also used for indirect-block loops), R4.dirent, R4.dir_tail, R4.dir_size, R4.i_blocks,
 R4.htree, R4.htree_hash, R4.htree_unreferenced, R4.xattr, R4.inode, R4.inline_dir, R4.journal, R4.mmp,
 R4.orphan_file, R4.group_desc, R4.fatal (the walk could not be carried out at all)
 R5.superblock, R5.group_desc, R5.block_bitmap, R5.inode_bitmap, R5.inode, R5.extent_block, R5.dir_leaf,
 R5.htree_node, R5.xattr_block, R5.mmp, R5.journal_sb, R5.orphan_file

"In use" is defined without the inode bitmap: an inode is in use when a directory entry reachable from the
root names it (and its i_links_count and i_mode are non-zero), or it is a reserved inode (< s_first_ino), the
journal, a quota file, the orphan file, or an EA inode referenced from an attribute.  Slots with a non-zero
i_links_count, non-zero mode and zero dtime that nobody names are reported as R3.unreachable and still
counted as owners of their blocks.

Deliberately NOT judged: s_free_blocks_count / s_free_inodes_count, bg_itable_unused, backup superblocks
and descriptors, the dirent file_type byte, duplicate names, name contents, i_size of regular files,
timestamps, i_flags sanity, xattr entry/block hashes, xattr value overlap, quota file contents, journal
contents (nothing is replayed: an image with needs_recovery is judged as it lies on disk), the orphan list,
name hashes in casefolded / encrypted directories or with the siphash version (index structure is still checked).
"""
import os
import struct
import hashlib
import ctypes
from collections import namedtuple

__all__ = ['FormatError', 'RefFS', 'Inode', 'Complaint', 'TreeEntry', 'dirhash',
           'crc32c', 'crc16', 'crc32_be']


class FormatError(Exception):
    """Impossible on-disk structure met by a low-level accessor."""

    def __init__(self, msg, kind=None):
        Exception.__init__(self, msg)
        self.kind = kind          # 'range' for out-of-bounds block references


# --------------------------------------------------------------------------- CRCs

def _mk_table(poly):
    t = []
    for i in range(256):
        c = i
        for _ in range(8):
            c = (c >> 1) ^ (poly if c & 1 else 0)
        t.append(c)
    return t


def _mk_table_be(poly):
    t = []
    for i in range(256):
        c = i << 24
        for _ in range(8):
            c = ((c << 1) ^ (poly if c & 0x80000000 else 0)) & 0xffffffff
        t.append(c)
    return t


_T32C = _mk_table(0x82F63B78)
_T16 = _mk_table(0xA001)
_T32BE = _mk_table_be(0x04C11DB7)


def _py_crc32c(crc, data):
    t = _T32C
    for b in bytes(data):
        crc = t[(crc ^ b) & 0xff] ^ (crc >> 8)
    return crc & 0xffffffff


def _py_crc16(crc, data):
    t = _T16
    for b in bytes(data):
        crc = t[(crc ^ b) & 0xff] ^ (crc >> 8)
    return crc & 0xffff


def _py_crc32_be(crc, data):
    t = _T32BE
    for b in bytes(data):
        crc = t[((crc >> 24) ^ b) & 0xff] ^ ((crc << 8) & 0xffffffff)
    return crc & 0xffffffff


_lib = None


def _load_lib():
    global _lib
    p = os.path.join(os.path.dirname(os.path.abspath(__file__)), 'librefcrc.so')
    if os.environ.get('REFEXT4_NO_SO') or not os.path.exists(p):
        return
    try:
        lib = ctypes.CDLL(p)
        lib.ref_crc32c.restype = ctypes.c_uint32
        lib.ref_crc32c.argtypes = [ctypes.c_uint32, ctypes.c_char_p, ctypes.c_size_t]
        lib.ref_crc16.restype = ctypes.c_uint16
        lib.ref_crc16.argtypes = [ctypes.c_uint16, ctypes.c_char_p, ctypes.c_size_t]
        lib.ref_crc32_be.restype = ctypes.c_uint32
        lib.ref_crc32_be.argtypes = [ctypes.c_uint32, ctypes.c_char_p, ctypes.c_size_t]
        # self-test against the pure Python versions before trusting it
        probe = bytes(range(256)) * 3 + b'refext4'
        if (lib.ref_crc32c(0xffffffff, probe, len(probe)) != _py_crc32c(0xffffffff, probe) or
                lib.ref_crc16(0xffff, probe, len(probe)) != _py_crc16(0xffff, probe) or
                lib.ref_crc32_be(0x1234, probe, len(probe)) != _py_crc32_be(0x1234, probe)):
            return
        _lib = lib
    except (OSError, AttributeError):
        _lib = None


_load_lib()

if _lib is not None:
    def crc32c(crc, data):
        if not isinstance(data, bytes):
            data = bytes(data)
        return _lib.ref_crc32c(crc & 0xffffffff, data, len(data))

    def crc16(crc, data):
        if not isinstance(data, bytes):
            data = bytes(data)
        return _lib.ref_crc16(crc & 0xffff, data, len(data))

    def crc32_be(crc, data):
        if not isinstance(data, bytes):
            data = bytes(data)
        return _lib.ref_crc32_be(crc & 0xffffffff, data, len(data))
else:
    crc32c = _py_crc32c
    crc16 = _py_crc16
    crc32_be = _py_crc32_be

HAVE_SO = _lib is not None

# --------------------------------------------------------------------------- directory hashes

_M32 = 0xffffffff
HASH_LEGACY, HASH_HALF_MD4, HASH_TEA = 0, 1, 2
HASH_LEGACY_UNSIGNED, HASH_HALF_MD4_UNSIGNED, HASH_TEA_UNSIGNED, HASH_SIPHASH = 3, 4, 5, 6


def _str2hashbuf_slow(msg, num, unsigned_char):
    """Reference formulation: bytes are added one by one as (possibly signed) chars."""
    ln = len(msg)
    pad = (ln | (ln << 8)) & _M32
    pad = (pad | (pad << 16)) & _M32
    val = pad
    if ln > num * 4:
        ln = num * 4
    out = []
    for i in range(ln):
        c = msg[i]
        if not unsigned_char and c >= 128:
            c -= 256
        if i % 4 == 0:
            val = pad
        val = (c + (val << 8)) & _M32
        if i % 4 == 3:
            out.append(val)
            val = pad
            num -= 1
    num -= 1
    if num >= 0:
        out.append(val)
    while True:
        num -= 1
        if num < 0:
            break
        out.append(pad)
    return out


def _str2hashbuf(msg, num, unsigned_char):
    """Pack up to num*4 bytes of msg into num 32-bit words, padded with a length pattern."""
    ln = len(msg)
    pad = (ln | (ln << 8)) & _M32
    pad = (pad | (pad << 16)) & _M32
    if ln > num * 4:
        ln = num * 4
        msg = msg[:ln]
    if not unsigned_char and not msg.isascii():
        return _str2hashbuf_slow(msg, num, unsigned_char)
    # all chars non-negative: whole words are simply big-endian
    full, rem = divmod(ln, 4)
    out = list(struct.unpack_from('>%dI' % full, msg, 0))
    if len(out) < num:
        if rem:
            out.append(((pad << (8 * rem)) | int.from_bytes(msg[full * 4:], 'big')) & _M32)
        else:
            out.append(pad)
        while len(out) < num:
            out.append(pad)
    return out


def _tea(buf, inp):
    b0, b1 = buf[0], buf[1]
    a, b, c, d = inp
    s = 0
    M = _M32
    for _ in range(16):
        s += 0x9E3779B9
        # masking once per line is enough: xor and + commute with reduction mod 2**32
        b0 = (b0 + (((b1 << 4) + a) ^ (b1 + s) ^ ((b1 >> 5) + b))) & M
        b1 = (b1 + (((b0 << 4) + c) ^ (b0 + s) ^ ((b0 >> 5) + d))) & M
    buf[0] = (buf[0] + b0) & M
    buf[1] = (buf[1] + b1) & M


def _half_md4(buf, inp):
    a, b, c, d = buf
    M = _M32
    i0, i1, i2, i3, i4, i5, i6, i7 = inp
    # round 1: F(x,y,z) = z ^ (x & (y ^ z)), shifts 3 7 11 19
    for (x0, x1, x2, x3) in ((i0, i1, i2, i3), (i4, i5, i6, i7)):
        t = (a + (d ^ (b & (c ^ d))) + x0) & M
        a = ((t << 3) | (t >> 29)) & M
        t = (d + (c ^ (a & (b ^ c))) + x1) & M
        d = ((t << 7) | (t >> 25)) & M
        t = (c + (b ^ (d & (a ^ b))) + x2) & M
        c = ((t << 11) | (t >> 21)) & M
        t = (b + (a ^ (c & (d ^ a))) + x3) & M
        b = ((t << 19) | (t >> 13)) & M
    # round 2: G(x,y,z) = (x & y) + ((x ^ y) & z), constant sqrt(2), shifts 3 5 9 13
    K = 0x5A827999
    for (x0, x1, x2, x3) in ((i1, i3, i5, i7), (i0, i2, i4, i6)):
        t = (a + (b & c) + ((b ^ c) & d) + x0 + K) & M
        a = ((t << 3) | (t >> 29)) & M
        t = (d + (a & b) + ((a ^ b) & c) + x1 + K) & M
        d = ((t << 5) | (t >> 27)) & M
        t = (c + (d & a) + ((d ^ a) & b) + x2 + K) & M
        c = ((t << 9) | (t >> 23)) & M
        t = (b + (c & d) + ((c ^ d) & a) + x3 + K) & M
        b = ((t << 13) | (t >> 19)) & M
    # round 3: H(x,y,z) = x ^ y ^ z, constant sqrt(3), shifts 3 9 11 15
    K = 0x6ED9EBA1
    for (x0, x1, x2, x3) in ((i3, i7, i2, i6), (i1, i5, i0, i4)):
        t = (a + (b ^ c ^ d) + x0 + K) & M
        a = ((t << 3) | (t >> 29)) & M
        t = (d + (a ^ b ^ c) + x1 + K) & M
        d = ((t << 9) | (t >> 23)) & M
        t = (c + (d ^ a ^ b) + x2 + K) & M
        c = ((t << 11) | (t >> 21)) & M
        t = (b + (c ^ d ^ a) + x3 + K) & M
        b = ((t << 15) | (t >> 17)) & M
    buf[0] = (buf[0] + a) & M
    buf[1] = (buf[1] + b) & M
    buf[2] = (buf[2] + c) & M
    buf[3] = (buf[3] + d) & M


def _legacy_hash(name, unsigned_char):
    h0, h1 = 0x12a3fe2d, 0x37abe8f9
    for c in name:
        if not unsigned_char and c >= 128:
            c -= 256
        h = (h1 + (h0 ^ ((c * 7152373) & _M32))) & _M32
        if h & 0x80000000:
            h = (h - 0x7fffffff) & _M32
        h1 = h0
        h0 = h
    return (h0 << 1) & _M32


def dirhash(name, hash_version, seed=(0, 0, 0, 0), unsigned_char=False):
    """Return (major, minor) htree hash of a directory entry name.

    hash_version 0/1/2 = legacy / half_md4 / tea; 3/4/5 are the same with unsigned chars.
    """
    if hash_version in (3, 4, 5):
        hash_version -= 3
        unsigned_char = True
    buf = [0x67452301, 0xefcdab89, 0x98badcfe, 0x10325476]
    if any(seed):
        buf = [s & _M32 for s in seed]
    minor = 0
    if hash_version == HASH_LEGACY:
        h = _legacy_hash(name, unsigned_char)
    elif hash_version == HASH_HALF_MD4:
        p = name
        while len(p) > 0:
            _half_md4(buf, _str2hashbuf(p, 8, unsigned_char))
            p = p[32:]
        h, minor = buf[1], buf[2]
    elif hash_version == HASH_TEA:
        p = name
        while len(p) > 0:
            _tea(buf, _str2hashbuf(p, 4, unsigned_char))
            p = p[16:]
        h, minor = buf[0], buf[1]
    else:
        raise FormatError('unsupported directory hash version %d' % hash_version)
    h &= ~1 & _M32
    if h == 0xfffffffe:
        h = 0xfffffffc
    return h, minor


# --------------------------------------------------------------------------- constants

EXT2_MAGIC = 0xEF53
EXT_MAGIC = 0xF30A
XATTR_MAGIC = 0xEA020000
MMP_MAGIC = 0x004D4D50
JBD2_MAGIC = 0xC03B3998
ORPHAN_BLOCK_MAGIC = 0x0b10ca04

BG_INODE_UNINIT, BG_BLOCK_UNINIT, BG_INODE_ZEROED = 1, 2, 4

FL_INDEX = 0x1000
FL_HUGE_FILE = 0x40000
FL_EXTENTS = 0x80000
FL_EA_INODE = 0x200000
FL_INLINE_DATA = 0x10000000
FL_ENCRYPT = 0x800
FL_CASEFOLD = 0x40000000

S_IFMT = 0o170000
S_IFSOCK, S_IFLNK, S_IFREG, S_IFBLK, S_IFDIR, S_IFCHR, S_IFIFO = (
    0o140000, 0o120000, 0o100000, 0o060000, 0o040000, 0o020000, 0o010000)

_FEATURES = {
    # compat
    'dir_prealloc': ('c', 0x1), 'imagic_inodes': ('c', 0x2), 'has_journal': ('c', 0x4),
    'ext_attr': ('c', 0x8), 'resize_inode': ('c', 0x10), 'dir_index': ('c', 0x20),
    'lazy_bg': ('c', 0x40), 'exclude_bitmap': ('c', 0x100), 'sparse_super2': ('c', 0x200),
    'fast_commit': ('c', 0x400), 'stable_inodes': ('c', 0x800), 'orphan_file': ('c', 0x1000),
    # ro_compat
    'sparse_super': ('r', 0x1), 'large_file': ('r', 0x2), 'huge_file': ('r', 0x8),
    'uninit_bg': ('r', 0x10), 'gdt_csum': ('r', 0x10), 'dir_nlink': ('r', 0x20),
    'extra_isize': ('r', 0x40), 'has_snapshot': ('r', 0x80), 'quota': ('r', 0x100),
    'bigalloc': ('r', 0x200), 'metadata_csum': ('r', 0x400), 'replica': ('r', 0x800),
    'read-only': ('r', 0x1000), 'readonly': ('r', 0x1000), 'project': ('r', 0x2000),
    'shared_blocks': ('r', 0x4000), 'verity': ('r', 0x8000), 'orphan_present': ('r', 0x10000),
    # incompat
    'compression': ('i', 0x1), 'filetype': ('i', 0x2), 'needs_recovery': ('i', 0x4),
    'journal_dev': ('i', 0x8), 'meta_bg': ('i', 0x10), 'extent': ('i', 0x40),
    'extents': ('i', 0x40), '64bit': ('i', 0x80), 'mmp': ('i', 0x100), 'flex_bg': ('i', 0x200),
    'ea_inode': ('i', 0x400), 'dirdata': ('i', 0x1000), 'csum_seed': ('i', 0x2000),
    'metadata_csum_seed': ('i', 0x2000), 'large_dir': ('i', 0x4000), 'largedir': ('i', 0x4000),
    'inline_data': ('i', 0x8000), 'encrypt': ('i', 0x10000), 'casefold': ('i', 0x20000),
}

# (name, offset, struct format) - little endian
_SB_FIELDS = [
    ('s_inodes_count', 0x00, 'I'), ('s_blocks_count_lo', 0x04, 'I'), ('s_r_blocks_count_lo', 0x08, 'I'),
    ('s_free_blocks_count_lo', 0x0C, 'I'), ('s_free_inodes_count', 0x10, 'I'),
    ('s_first_data_block', 0x14, 'I'), ('s_log_block_size', 0x18, 'I'), ('s_log_cluster_size', 0x1C, 'I'),
    ('s_blocks_per_group', 0x20, 'I'), ('s_clusters_per_group', 0x24, 'I'), ('s_inodes_per_group', 0x28, 'I'),
    ('s_mtime', 0x2C, 'I'), ('s_wtime', 0x30, 'I'), ('s_mnt_count', 0x34, 'H'), ('s_max_mnt_count', 0x36, 'h'),
    ('s_magic', 0x38, 'H'), ('s_state', 0x3A, 'H'), ('s_errors', 0x3C, 'H'), ('s_minor_rev_level', 0x3E, 'H'),
    ('s_lastcheck', 0x40, 'I'), ('s_checkinterval', 0x44, 'I'), ('s_creator_os', 0x48, 'I'),
    ('s_rev_level', 0x4C, 'I'), ('s_def_resuid', 0x50, 'H'), ('s_def_resgid', 0x52, 'H'),
    ('s_first_ino', 0x54, 'I'), ('s_inode_size', 0x58, 'H'), ('s_block_group_nr', 0x5A, 'H'),
    ('s_feature_compat', 0x5C, 'I'), ('s_feature_incompat', 0x60, 'I'), ('s_feature_ro_compat', 0x64, 'I'),
    ('s_uuid', 0x68, '16s'), ('s_volume_name', 0x78, '16s'), ('s_last_mounted', 0x88, '64s'),
    ('s_algorithm_usage_bitmap', 0xC8, 'I'), ('s_prealloc_blocks', 0xCC, 'B'),
    ('s_prealloc_dir_blocks', 0xCD, 'B'), ('s_reserved_gdt_blocks', 0xCE, 'H'),
    ('s_journal_uuid', 0xD0, '16s'), ('s_journal_inum', 0xE0, 'I'), ('s_journal_dev', 0xE4, 'I'),
    ('s_last_orphan', 0xE8, 'I'), ('s_hash_seed', 0xEC, '4I'), ('s_def_hash_version', 0xFC, 'B'),
    ('s_jnl_backup_type', 0xFD, 'B'), ('s_desc_size', 0xFE, 'H'), ('s_default_mount_opts', 0x100, 'I'),
    ('s_first_meta_bg', 0x104, 'I'), ('s_mkfs_time', 0x108, 'I'), ('s_jnl_blocks', 0x10C, '17I'),
    ('s_blocks_count_hi', 0x150, 'I'), ('s_r_blocks_count_hi', 0x154, 'I'), ('s_free_blocks_hi', 0x158, 'I'),
    ('s_min_extra_isize', 0x15C, 'H'), ('s_want_extra_isize', 0x15E, 'H'), ('s_flags', 0x160, 'I'),
    ('s_raid_stride', 0x164, 'H'), ('s_mmp_update_interval', 0x166, 'H'), ('s_mmp_block', 0x168, 'Q'),
    ('s_raid_stripe_width', 0x170, 'I'), ('s_log_groups_per_flex', 0x174, 'B'), ('s_checksum_type', 0x175, 'B'),
    ('s_encryption_level', 0x176, 'B'), ('s_kbytes_written', 0x178, 'Q'), ('s_snapshot_inum', 0x180, 'I'),
    ('s_snapshot_id', 0x184, 'I'), ('s_snapshot_r_blocks_count', 0x188, 'Q'), ('s_snapshot_list', 0x190, 'I'),
    ('s_error_count', 0x194, 'I'), ('s_first_error_time', 0x198, 'I'), ('s_first_error_ino', 0x19C, 'I'),
    ('s_first_error_block', 0x1A0, 'Q'), ('s_first_error_func', 0x1A8, '32s'), ('s_first_error_line', 0x1C8, 'I'),
    ('s_last_error_time', 0x1CC, 'I'), ('s_last_error_ino', 0x1D0, 'I'), ('s_last_error_line', 0x1D4, 'I'),
    ('s_last_error_block', 0x1D8, 'Q'), ('s_last_error_func', 0x1E0, '32s'), ('s_mount_opts', 0x200, '64s'),
    ('s_usr_quota_inum', 0x240, 'I'), ('s_grp_quota_inum', 0x244, 'I'), ('s_overhead_clusters', 0x248, 'I'),
    ('s_backup_bgs', 0x24C, '2I'), ('s_encrypt_algos', 0x254, '4s'), ('s_encrypt_pw_salt', 0x258, '16s'),
    ('s_lpf_ino', 0x268, 'I'), ('s_prj_quota_inum', 0x26C, 'I'), ('s_checksum_seed', 0x270, 'I'),
    ('s_wtime_hi', 0x274, 'B'), ('s_mtime_hi', 0x275, 'B'), ('s_mkfs_time_hi', 0x276, 'B'),
    ('s_lastcheck_hi', 0x277, 'B'), ('s_first_error_time_hi', 0x278, 'B'), ('s_last_error_time_hi', 0x279, 'B'),
    ('s_first_error_errcode', 0x27A, 'B'), ('s_last_error_errcode', 0x27B, 'B'),
    ('s_encoding', 0x27C, 'H'), ('s_encoding_flags', 0x27E, 'H'), ('s_orphan_file_inum', 0x280, 'I'),
    ('s_checksum', 0x3FC, 'I'),
]

_XATTR_PREFIX = {0: b'', 1: b'user.', 2: b'system.posix_acl_access', 3: b'system.posix_acl_default',
                 4: b'trusted.', 6: b'security.', 7: b'system.', 8: b'system.richacl'}


class Complaint:
    __slots__ = ('rule', 'detail', 'obj')

    def __init__(self, rule, detail, obj=None):
        self.rule = rule
        self.detail = detail
        self.obj = obj

    def __repr__(self):
        return 'Complaint(%s, %s, %r)' % (self.rule, self.obj, self.detail)

    __str__ = __repr__


TreeEntry = namedtuple('TreeEntry', 'path ino inode file_type parent')


class Inode:
    __slots__ = ('ino', 'raw', 'mode', 'uid', 'gid', 'size', 'atime', 'ctime', 'mtime', 'crtime',
                 'atime_extra', 'ctime_extra', 'mtime_extra', 'crtime_extra', 'dtime', 'links_count',
                 'blocks', 'blocks_raw', 'flags', 'generation', 'file_acl', 'extra_isize', 'checksum',
                 'projid', 'i_block', 'version', 'in_unused', 'offset')

    def __repr__(self):
        return '<Inode %d mode %o size %d links %d flags %#x>' % (
            self.ino, self.mode, self.size, self.links_count, self.flags)

    @property
    def fmt(self):
        return self.mode & S_IFMT


# --------------------------------------------------------------------------- the filesystem

_u16 = struct.Struct('<H').unpack_from
_u32 = struct.Struct('<I').unpack_from
_INODE_HEAD = struct.Struct('<HHIIIIIHHII')        # up to i_flags (0x00..0x24)
_INODE_TAIL = struct.Struct('<IIIIHHHHHH')          # 0x64..0x80


class RefFS:
    MAX_EXTENT_DEPTH = 5

    def __init__(self, path=None, data=None, offset=0):
        if data is None:
            if path is None:
                raise ValueError('path or data required')
            with open(path, 'rb') as f:
                data = f.read()
        if offset:
            data = data[offset:]
        if not isinstance(data, bytes):
            data = bytes(data)
        self.data = data
        self.path = path
        self._cache = {}
        self._parse_super()

    # ---------------------------------------------------------------- superblock
    def _parse_super(self):
        d = self.data
        if len(d) < 2048:
            raise FormatError('image too small for a superblock')
        raw = d[1024:2048]
        sb = {}
        for name, off, fmt in _SB_FIELDS:
            v = struct.unpack_from('<' + fmt, raw, off)
            sb[name] = v[0] if len(v) == 1 else tuple(v)
        self.sb_raw = raw
        self.sb = sb
        if sb['s_magic'] != EXT2_MAGIC:
            raise FormatError('bad superblock magic %#x' % sb['s_magic'])
        self._fc, self._fi, self._fr = sb['s_feature_compat'], sb['s_feature_incompat'], sb['s_feature_ro_compat']
        if sb['s_rev_level'] == 0:
            sb['s_first_ino'] = 11
            sb['s_inode_size'] = 128
        is64 = bool(self._fi & 0x80)
        sb['s_blocks_count'] = sb['s_blocks_count_lo'] | ((sb['s_blocks_count_hi'] << 32) if is64 else 0)
        sb['s_r_blocks_count'] = sb['s_r_blocks_count_lo'] | ((sb['s_r_blocks_count_hi'] << 32) if is64 else 0)
        sb['s_free_blocks_count'] = sb['s_free_blocks_count_lo'] | ((sb['s_free_blocks_hi'] << 32) if is64 else 0)
        if sb['s_log_block_size'] > 6:
            raise FormatError('s_log_block_size %d out of range' % sb['s_log_block_size'])
        self.block_size = 1024 << sb['s_log_block_size']
        self.blocks_count = sb['s_blocks_count']
        self.first_data_block = sb['s_first_data_block']
        self.blocks_per_group = sb['s_blocks_per_group']
        self.inodes_per_group = sb['s_inodes_per_group']
        self.inode_size = sb['s_inode_size']
        self.first_ino = sb['s_first_ino']
        self.inodes_count = sb['s_inodes_count']
        if self.has('bigalloc'):
            if sb['s_log_cluster_size'] < sb['s_log_block_size'] or sb['s_log_cluster_size'] > 20:
                raise FormatError('s_log_cluster_size %d out of range' % sb['s_log_cluster_size'])
            self.cluster_bits = sb['s_log_cluster_size'] - sb['s_log_block_size']
            self.clusters_per_group = sb['s_clusters_per_group']
        else:
            self.cluster_bits = 0
            self.clusters_per_group = self.blocks_per_group
        self.cluster_ratio = 1 << self.cluster_bits
        bs = self.block_size
        if self.blocks_per_group == 0 or self.blocks_per_group > bs * 8 * self.cluster_ratio:
            raise FormatError('s_blocks_per_group %d impossible' % self.blocks_per_group)
        if self.inodes_per_group == 0 or self.inodes_per_group > bs * 8:
            raise FormatError('s_inodes_per_group %d impossible' % self.inodes_per_group)
        if self.inode_size < 128 or self.inode_size > bs or self.inode_size & (self.inode_size - 1):
            raise FormatError('s_inode_size %d impossible' % self.inode_size)
        if self.has('bigalloc') and self.clusters_per_group != self.blocks_per_group >> self.cluster_bits:
            raise FormatError('s_clusters_per_group inconsistent with s_blocks_per_group')
        if self.first_data_block >= self.blocks_count:
            raise FormatError('s_first_data_block beyond s_blocks_count')
        if self.blocks_count * bs > len(d):
            # image shorter than the file system: reads beyond the end raise FormatError lazily
            self.truncated = True
        else:
            self.truncated = False
        self.group_count = (self.blocks_count - self.first_data_block + self.blocks_per_group - 1) // self.blocks_per_group
        if self.group_count == 0 or self.group_count > (1 << 22):
            raise FormatError('group count %d impossible' % self.group_count)
        if self.inodes_count != self.group_count * self.inodes_per_group:
            raise FormatError('s_inodes_count %d != groups %d * s_inodes_per_group %d' % (
                self.inodes_count, self.group_count, self.inodes_per_group))
        if is64:
            self.desc_size = sb['s_desc_size']
            if self.desc_size < 32 or self.desc_size > bs or self.desc_size & (self.desc_size - 1):
                raise FormatError('s_desc_size %d impossible' % self.desc_size)
        else:
            self.desc_size = 32
        self.desc_per_block = bs // self.desc_size
        self.desc_blocks = (self.group_count + self.desc_per_block - 1) // self.desc_per_block
        self.itable_blocks = (self.inodes_per_group * self.inode_size + bs - 1) // bs
        self.csum = self.has('metadata_csum')
        if self.has('csum_seed'):
            self.csum_seed = sb['s_checksum_seed']
        else:
            self.csum_seed = crc32c(0xffffffff, sb['s_uuid'])
        self.addr_per_block = bs // 4

    def has(self, name):
        try:
            kind, bit = _FEATURES[name]
        except KeyError:
            raise KeyError('unknown feature name %r' % name)
        word = {'c': self._fc, 'i': self._fi, 'r': self._fr}[kind]
        return bool(word & bit)

    # ---------------------------------------------------------------- raw access
    def read_block(self, blk):
        if blk < 0 or blk >= self.blocks_count:
            raise FormatError('block %d out of range (blocks_count %d)' % (blk, self.blocks_count))
        bs = self.block_size
        off = blk * bs
        if off + bs > len(self.data):
            raise FormatError('block %d beyond the end of the image' % blk)
        return self.data[off:off + bs]

    def group_first_block(self, g):
        return self.first_data_block + g * self.blocks_per_group

    def group_blocks(self, g):
        """Number of blocks in group g (the last one may be short)."""
        if g == self.group_count - 1:
            return self.blocks_count - self.group_first_block(g)
        return self.blocks_per_group

    def group_of_block(self, blk):
        return (blk - self.first_data_block) // self.blocks_per_group

    # ---------------------------------------------------------------- backup layout
    def backup_groups(self):
        c = self._cache.get('backup_groups')
        if c is not None:
            return c
        n = self.group_count
        if self.has('sparse_super2'):
            s = {0}
            for g in self.sb['s_backup_bgs']:
                if g and g < n:
                    s.add(g)
        elif self.has('sparse_super'):
            s = {0}
            if n > 1:
                s.add(1)
            for base in (3, 5, 7):
                p = base
                while p < n:
                    s.add(p)
                    p *= base
        else:
            s = set(range(n))
        c = sorted(s)
        self._cache['backup_groups'] = c
        self._cache['backup_set'] = s
        return c

    def group_has_super(self, g):
        if 'backup_set' not in self._cache:
            self.backup_groups()
        return g in self._cache['backup_set']

    def _sb_block_of_group(self, g):
        """Block that holds the (backup) superblock of group g, or None."""
        if not self.group_has_super(g):
            return None
        if g == 0:
            return 1 if self.block_size == 1024 else 0
        return self.group_first_block(g)

    def _old_desc_blocks(self):
        if self.has('meta_bg'):
            return min(self.sb['s_first_meta_bg'], self.desc_blocks)
        return self.desc_blocks

    def _desc_block_loc(self, i):
        """Primary location of descriptor block index i."""
        if not self.has('meta_bg') or i < self.sb['s_first_meta_bg']:
            base = 1 if self.block_size == 1024 else 0     # the block holding the primary superblock
            return base + 1 + i
        g = i * self.desc_per_block
        has_super = 1 if self.group_has_super(g) else 0
        if self.block_size == 1024 and i == 0 and self.first_data_block == 0:
            has_super += 1
        return self.group_first_block(g) + has_super

    def gdt_blocks(self):
        return [self._desc_block_loc(i) for i in range(self.desc_blocks)]

    def group_desc(self, g):
        if g < 0 or g >= self.group_count:
            raise FormatError('group %d out of range' % g)
        gc = self._cache.setdefault('gd', {})
        r = gc.get(g)
        if r is not None:
            return r
        i, j = divmod(g, self.desc_per_block)
        blk = self._desc_block_loc(i)
        if blk >= self.blocks_count:
            raise FormatError('descriptor block %d of group %d out of range' % (blk, g))
        off = blk * self.block_size + j * self.desc_size
        ds = self.desc_size
        raw = self.data[off:off + ds]
        if len(raw) < ds:
            raise FormatError('descriptor of group %d beyond the end of the image' % g)
        (bb, ib, it, fb, fi, ud, fl, excl, bbc, ibc, unused, csum) = struct.unpack_from('<IIIHHHHIHHHH', raw, 0)
        if ds >= 64 and self.has('64bit'):
            (bbh, ibh, ith, fbh, fih, udh, unh, exclh, bbch, ibch) = struct.unpack_from('<IIIHHHHIHH', raw, 0x20)
            bb |= bbh << 32
            ib |= ibh << 32
            it |= ith << 32
            fb |= fbh << 16
            fi |= fih << 16
            ud |= udh << 16
            unused |= unh << 16
            bbc |= bbch << 16
            ibc |= ibch << 16
            excl |= exclh << 32
        r = dict(bg_block_bitmap=bb, bg_inode_bitmap=ib, bg_inode_table=it, bg_free_blocks_count=fb,
                 bg_free_inodes_count=fi, bg_used_dirs_count=ud, bg_flags=fl, bg_exclude_bitmap=excl,
                 bg_block_bitmap_csum=bbc, bg_inode_bitmap_csum=ibc, bg_itable_unused=unused,
                 bg_checksum=csum, raw=raw, offset=off, group=g)
        gc[g] = r
        return r

    def _uses_bg_flags(self):
        return self.csum or self.has('uninit_bg')

    def group_flags(self, g):
        """bg_flags, but 0 when the file system has no group descriptor checksums (flags are meaningless then)."""
        if not self._uses_bg_flags():
            return 0
        return self.group_desc(g)['bg_flags']

    def block_bitmap(self, g):
        return self.read_block(self.group_desc(g)['bg_block_bitmap'])

    def inode_bitmap(self, g):
        return self.read_block(self.group_desc(g)['bg_inode_bitmap'])

    # ---------------------------------------------------------------- fixed metadata
    def fixed_metadata(self):
        """dict blk -> (kind, group) of the statically placed metadata.

        Kinds: 'sb', 'gdt', 'reserved_gdt', 'backup_sb', 'backup_gdt', 'backup_reserved_gdt',
        'block_bitmap', 'inode_bitmap', 'inode_table', 'mmp', 'pad' (block 0 in front of a 1k superblock).
        Locations that are out of range are left out (and reported by check()).
        """
        c = self._cache.get('fixed')
        if c is not None:
            return c
        fm = {}
        bad = []
        n = self.group_count
        bc = self.blocks_count
        old = self._old_desc_blocks()
        rsv = 0 if self.has('meta_bg') else self.sb['s_reserved_gdt_blocks']
        for g in self.backup_groups():
            sbb = self._sb_block_of_group(g)
            kind = '' if g == 0 else 'backup_'
            if sbb < bc:
                fm[sbb] = (kind + 'sb', g)
            if g == 0 and sbb == 1 and self.first_data_block == 0:
                fm[0] = ('pad', 0)
            for k in range(old):
                b = sbb + 1 + k
                if b < bc:
                    fm[b] = (kind + 'gdt', g)
            for k in range(rsv):
                b = sbb + 1 + old + k
                if b < bc:
                    fm[b] = (kind + 'reserved_gdt', g)
        if self.has('meta_bg'):
            dpb = self.desc_per_block
            for i in range(self.sb['s_first_meta_bg'], self.desc_blocks):
                first = i * dpb
                for which, g in (('gdt', first), ('backup_gdt', first + 1), ('backup_gdt', first + dpb - 1)):
                    if g >= n:
                        continue
                    if which == 'gdt':
                        b = self._desc_block_loc(i)
                    else:
                        b = self.group_first_block(g) + (1 if self.group_has_super(g) else 0)
                    if b < bc:
                        fm[b] = (which, g)
        for g in range(n):
            try:
                gd = self.group_desc(g)
            except FormatError as e:
                bad.append((g, str(e)))
                continue
            for key, kind in (('bg_block_bitmap', 'block_bitmap'), ('bg_inode_bitmap', 'inode_bitmap')):
                b = gd[key]
                if self.first_data_block <= b < bc:
                    if b in fm:
                        bad.append((g, '%s block %d collides with %s of group %d' % (kind, b, fm[b][0], fm[b][1])))
                    else:
                        fm[b] = (kind, g)
                else:
                    bad.append((g, '%s location %d out of range' % (kind, b)))
            it = gd['bg_inode_table']
            if self.first_data_block <= it and it + self.itable_blocks <= bc:
                for b in range(it, it + self.itable_blocks):
                    if b in fm:
                        bad.append((g, 'inode table block %d collides with %s of group %d' % (b, fm[b][0], fm[b][1])))
                        break
                    fm[b] = ('inode_table', g)
            else:
                bad.append((g, 'inode table location %d out of range' % it))
        if self.has('mmp'):
            b = self.sb['s_mmp_block']
            if self.first_data_block <= b < bc and b not in fm:
                fm[b] = ('mmp', self.group_of_block(b))
            else:
                bad.append((0, 'MMP block %d out of range or colliding' % b))
        self._cache['fixed'] = fm
        self._cache['fixed_bad'] = bad
        return fm

    # ---------------------------------------------------------------- inodes
    def inode_loc(self, ino):
        if ino < 1 or ino > self.inodes_count:
            raise FormatError('inode number %d out of range (1..%d)' % (ino, self.inodes_count))
        g, idx = divmod(ino - 1, self.inodes_per_group)
        it = self.group_desc(g)['bg_inode_table']
        if it < self.first_data_block or it + self.itable_blocks > self.blocks_count:
            raise FormatError('inode table of group %d at %d out of range' % (g, it))
        off = it * self.block_size + idx * self.inode_size
        if off + self.inode_size > len(self.data):
            raise FormatError('inode %d beyond the end of the image' % ino)
        return off

    def read_inode(self, ino):
        ic = self._cache.setdefault('inodes', {})
        i = ic.get(ino)
        if i is None:
            i = self._parse_inode(ino, self.inode_loc(ino))
            ic[ino] = i
        return i

    def _parse_inode(self, ino, off):
        isz = self.inode_size
        raw = self.data[off:off + isz]
        i = Inode()
        i.ino = ino
        i.raw = raw
        i.offset = off
        i.in_unused = False
        (mode, uid, size, atime, ctime, mtime, dtime, gid, links, blocks, flags) = _INODE_HEAD.unpack_from(raw, 0)
        (gen, acl, size_hi, faddr, blocks_hi, acl_hi, uid_hi, gid_hi, csum_lo, _r) = _INODE_TAIL.unpack_from(raw, 0x64)
        i.version = _u32(raw, 0x24)[0]
        i.mode = mode
        i.uid = uid | (uid_hi << 16)
        i.gid = gid | (gid_hi << 16)
        # i_size_high was i_dir_acl on old file systems; the kernel combines it for every type now
        i.size = size | (size_hi << 32)
        i.atime, i.ctime, i.mtime, i.dtime = atime, ctime, mtime, dtime
        i.links_count = links
        i.flags = flags
        i.generation = gen
        i.file_acl = acl | ((acl_hi << 32) if self.has('64bit') else 0)
        b = blocks
        if self.has('huge_file'):
            b |= blocks_hi << 32
            if flags & FL_HUGE_FILE:
                b *= self.block_size // 512
        i.blocks_raw = blocks | (blocks_hi << 32)
        i.blocks = b
        i.i_block = raw[0x28:0x64]
        i.extra_isize = 0
        i.checksum = csum_lo
        i.atime_extra = i.ctime_extra = i.mtime_extra = i.crtime_extra = 0
        i.crtime = 0
        i.projid = 0
        if isz > 128:
            ex = _u16(raw, 0x80)[0]
            i.extra_isize = ex
            if ex <= isz - 128:
                if ex >= 4:
                    i.checksum |= _u16(raw, 0x82)[0] << 16
                if ex >= 8:
                    i.ctime_extra = _u32(raw, 0x84)[0]
                if ex >= 12:
                    i.mtime_extra = _u32(raw, 0x88)[0]
                if ex >= 16:
                    i.atime_extra = _u32(raw, 0x8C)[0]
                if ex >= 20:
                    i.crtime = _u32(raw, 0x90)[0]
                if ex >= 24:
                    i.crtime_extra = _u32(raw, 0x94)[0]
                if ex >= 32:
                    i.projid = _u32(raw, 0x9C)[0]
        return i

    def iter_inodes(self):
        ipg = self.inodes_per_group
        for g in range(self.group_count):
            try:
                gd = self.group_desc(g)
                fl = self.group_flags(g)
                if fl & BG_INODE_UNINIT:
                    continue
                base = self.inode_loc(g * ipg + 1)
            except FormatError:
                continue
            unused = gd['bg_itable_unused'] if self._uses_bg_flags() else 0
            lim = ipg - unused if 0 <= unused <= ipg else ipg
            isz = self.inode_size
            for idx in range(ipg):
                ino = g * ipg + idx + 1
                off = base + idx * isz
                if off + isz > len(self.data):
                    break
                i = self._parse_inode(ino, off)
                i.in_unused = idx >= lim
                yield ino, i

    def root(self):
        return self.read_inode(2)

    @staticmethod
    def is_dir(i):
        return i.mode & S_IFMT == S_IFDIR

    @staticmethod
    def is_reg(i):
        return i.mode & S_IFMT == S_IFREG

    @staticmethod
    def is_lnk(i):
        return i.mode & S_IFMT == S_IFLNK

    @staticmethod
    def is_dev(i):
        return i.mode & S_IFMT in (S_IFCHR, S_IFBLK)

    @staticmethod
    def is_special(i):
        return i.mode & S_IFMT in (S_IFCHR, S_IFBLK, S_IFIFO, S_IFSOCK)

    def has_inline_data(self, i):
        return bool(i.flags & FL_INLINE_DATA) and self.has('inline_data')

    def is_fast_symlink(self, i):
        if i.mode & S_IFMT != S_IFLNK or self.has_inline_data(i):
            return False
        if i.size >= 60:
            return False
        if i.flags & FL_EXTENTS:
            return _u16(i.i_block, 0)[0] != EXT_MAGIC
        return True

    def has_block_map(self, i):
        """True when i_block holds an extent tree or block pointers."""
        fmt = i.mode & S_IFMT
        if fmt not in (S_IFREG, S_IFDIR, S_IFLNK) and not (fmt == 0 and i.ino < self.first_ino):
            return False
        if self.has_inline_data(i):
            return False
        if fmt == S_IFLNK and self.is_fast_symlink(i):
            return False
        return True

    def dev_numbers(self, i):
        old, new = struct.unpack_from('<II', i.i_block, 0)
        if old:
            return (old >> 8) & 0xff, old & 0xff
        return (new & 0xfff00) >> 8, (new & 0xff) | ((new >> 12) & 0xfff00)

    def inode_seed(self, i):
        s = crc32c(self.csum_seed, struct.pack('<I', i.ino))
        return crc32c(s, struct.pack('<I', i.generation))

    # ---------------------------------------------------------------- block maps
    def _check_pblk(self, pblk, n, what):
        if pblk < self.first_data_block or pblk + n > self.blocks_count or n <= 0:
            raise FormatError('%s: physical range %d+%d outside [%d, %d)' % (
                what, pblk, n, self.first_data_block, self.blocks_count), 'range')

    def extents(self, inode):
        """Return ([(lblk, pblk, len, uninit)], [tree block numbers]) for extent- and block-mapped inodes."""
        if not self.has_block_map(inode):
            return [], []
        ec = self._cache.setdefault('ext', {})
        hit = ec.get(inode.ino)
        if hit is not None and hit[0] == inode.i_block and hit[1] == inode.flags:
            return hit[2]
        if inode.flags & FL_EXTENTS:
            r = self._extent_tree(inode)
        else:
            r = self._block_map(inode)
        ec[inode.ino] = (inode.i_block, inode.flags, r)
        return r

    def _extent_tree(self, inode):
        out = []
        tree = []
        seen = set()
        what = 'inode %d' % inode.ino
        state = {'next': 0}      # first logical block not yet covered

        def node(buf, depth_expected, is_root, lo_key, blkno):
            magic, entries, emax, depth, _gen = struct.unpack_from('<HHHHI', buf, 0)
            where = '%s extent %s' % (what, 'root' if is_root else 'block %d' % blkno)
            if magic != EXT_MAGIC:
                raise FormatError('%s: bad magic %#x' % (where, magic))
            cap = (len(buf) - 12) // 12
            if emax > cap or emax == 0:
                raise FormatError('%s: eh_max %d impossible (capacity %d)' % (where, emax, cap))
            if entries > emax:
                raise FormatError('%s: eh_entries %d > eh_max %d' % (where, entries, emax))
            if depth_expected is None:
                if depth > self.MAX_EXTENT_DEPTH:
                    raise FormatError('%s: eh_depth %d > %d' % (where, depth, self.MAX_EXTENT_DEPTH))
            elif depth != depth_expected:
                raise FormatError('%s: eh_depth %d, expected %d' % (where, depth, depth_expected))
            if depth == 0:
                for k in range(entries):
                    lblk, ln, hi, lo = struct.unpack_from('<IHHI', buf, 12 + 12 * k)
                    pblk = lo | (hi << 32)
                    uninit = ln > 32768
                    if uninit:
                        ln -= 32768
                    if ln == 0:
                        raise FormatError('%s: entry %d has ee_len 0' % (where, k))
                    if k == 0 and lo_key is not None and lblk < lo_key:
                        raise FormatError('%s: first key %d lower than parent index key %d' % (where, lblk, lo_key))
                    if lblk < state['next']:
                        raise FormatError('%s: entry %d (lblk %d) out of order or overlapping (expected >= %d)' % (
                            where, k, lblk, state['next']))
                    if lblk + ln > 0x100000000:
                        raise FormatError('%s: entry %d logical range wraps' % (where, k))
                    self._check_pblk(pblk, ln, '%s entry %d' % (where, k))
                    state['next'] = lblk + ln
                    out.append((lblk, pblk, ln, uninit))
            else:
                prev = None
                for k in range(entries):
                    lblk, lo, hi, _u = struct.unpack_from('<IIHH', buf, 12 + 12 * k)
                    pblk = lo | (hi << 32)
                    if prev is not None and lblk <= prev:
                        raise FormatError('%s: index %d (lblk %d) out of order' % (where, k, lblk))
                    if k == 0 and lo_key is not None and lblk < lo_key:
                        raise FormatError('%s: first key %d lower than parent index key %d' % (where, lblk, lo_key))
                    if lblk < state['next']:
                        raise FormatError('%s: index %d (lblk %d) overlaps previous subtree (ends %d)' % (
                            where, k, lblk, state['next']))
                    prev = lblk
                    self._check_pblk(pblk, 1, '%s index %d' % (where, k))
                    if pblk in seen:
                        raise FormatError('%s: tree block %d referenced twice' % (where, pblk))
                    seen.add(pblk)
                    tree.append(pblk)
                    node(self.read_block(pblk), depth - 1, False, lblk, pblk)

        node(inode.i_block, None, True, None, 0)
        return out, tree

    def _block_map(self, inode):
        what = 'inode %d' % inode.ino
        apb = self.addr_per_block
        bc = self.blocks_count
        fdb = self.first_data_block
        ptrs = struct.unpack_from('<15I', inode.i_block, 0)
        runs = []          # (lblk, pblk, len)
        tree = []
        seen = set()
        fmt = '<%dI' % apb

        def add(lblk, pblk):
            if pblk < fdb or pblk >= bc:
                raise FormatError('%s: block pointer %d (lblk %d) outside [%d, %d)' % (what, pblk, lblk, fdb, bc), 'range')
            if runs:
                l0, p0, n0 = runs[-1]
                if l0 + n0 == lblk and p0 + n0 == pblk:
                    runs[-1] = (l0, p0, n0 + 1)
                    return
            runs.append((lblk, pblk, 1))

        def walk(blk, level, lbase):
            if blk < fdb or blk >= bc:
                raise FormatError('%s: level-%d indirect block %d outside [%d, %d)' % (what, level, blk, fdb, bc), 'range')
            if blk in seen:
                raise FormatError('%s: indirect block %d referenced twice' % (what, blk))
            seen.add(blk)
            tree.append(blk)
            buf = self.read_block(blk)
            if not any(buf):
                return
            ents = struct.unpack(fmt, buf)
            span = apb ** (level - 1)
            if level == 1:
                for k, p in enumerate(ents):
                    if p:
                        add(lbase + k, p)
            else:
                for k, p in enumerate(ents):
                    if p:
                        walk(p, level - 1, lbase + k * span)

        for k in range(12):
            if ptrs[k]:
                add(k, ptrs[k])
        base = 12
        for level in (1, 2, 3):
            p = ptrs[11 + level]
            if p:
                walk(p, level, base)
            base += apb ** level
        return [(l, p, n, False) for (l, p, n) in runs], tree

    def hole_map(self, inode):
        """Mapped-and-initialised ranges [(lblk, len)], adjacent ranges merged."""
        if self.has_inline_data(inode) or not self.has_block_map(inode):
            return []
        ext, _t = self.extents(inode)
        out = []
        for l, p, n, u in ext:
            if u:
                continue
            if out and out[-1][0] + out[-1][1] == l:
                out[-1] = (out[-1][0], out[-1][1] + n)
            else:
                out.append((l, n))
        return out

    def file_chunks(self, inode, limit=None):
        """Yield the content of the inode as byte chunks that add up to exactly i_size bytes."""
        size = inode.size
        if limit is not None and size > limit:
            raise FormatError('inode %d: size %d above the read limit %d' % (inode.ino, size, limit))
        if self.has_inline_data(inode):
            d = self._inline_data(inode)
            d = d[:size]
            yield d
            if len(d) < size:
                yield bytes(size - len(d))
            return
        if inode.mode & S_IFMT == S_IFLNK and self.is_fast_symlink(inode):
            yield inode.i_block[:size]
            return
        if not self.has_block_map(inode):
            if size:
                yield bytes(size)
            return
        ext, _t = self.extents(inode)
        bs = self.block_size
        pos = 0
        data = self.data
        ZCH = 1 << 20
        for l, p, n, u in ext:
            start = l * bs
            if start >= size:
                break
            gap = start - pos
            while gap > 0:
                k = min(gap, ZCH)
                yield bytes(k)
                gap -= k
            pos = start
            end = min(start + n * bs, size)
            if u:
                k = end - start
                while k > 0:
                    kk = min(k, ZCH)
                    yield bytes(kk)
                    k -= kk
            else:
                off = p * bs
                if off + (end - start) > len(data):
                    raise FormatError('inode %d: data beyond the end of the image' % inode.ino)
                yield data[off:off + (end - start)]
            pos = end
        gap = size - pos
        while gap > 0:
            k = min(gap, ZCH)
            yield bytes(k)
            gap -= k

    def read_file(self, inode, limit=1 << 30):
        return b''.join(self.file_chunks(inode, limit))

    def readlink(self, inode):
        if inode.mode & S_IFMT != S_IFLNK:
            raise FormatError('inode %d is not a symlink' % inode.ino)
        if inode.size > self.block_size * 4:
            raise FormatError('inode %d: symlink size %d too large' % (inode.ino, inode.size))
        return self.read_file(inode)

    def _inline_data(self, inode):
        """i_block followed by the value of system.data (without trimming to i_size)."""
        d = inode.i_block
        xa = self._xattr_entries(inode)
        for e in xa:
            if e['index'] == 7 and e['name'] == b'data':
                return d + self._xattr_value(inode, e)
        raise FormatError('inode %d: inline data flag without system.data attribute' % inode.ino)

    # ---------------------------------------------------------------- directories
    def _rec_len(self, v):
        if self.block_size < 65536:
            return v
        if v == 65535 or v == 0:
            return self.block_size
        return (v & 65532) | ((v & 3) << 16)

    def parse_dir_block(self, buf, strict=True, what='dir block', start=0, end=None):
        """Parse one linear directory block.  Returns list of (offset, ino, rec_len, name_len, file_type, name).

        With strict=True a malformed entry raises FormatError; otherwise parsing stops there.
        """
        out = []
        pos = start
        if end is None:
            end = len(buf)
        min_len = 12 if end - start == self.block_size else 8
        while pos < end:
            if end - pos < 8:
                if strict:
                    raise FormatError('%s: %d stray bytes at offset %d' % (what, end - pos, pos))
                break
            ino, rl, nl, ft = struct.unpack_from('<IHBB', buf, pos)
            rl = self._rec_len(rl) if end - start == self.block_size else rl
            bad = None
            if rl < 8 or rl & 3:
                bad = 'rec_len %d invalid' % rl
            elif pos + rl > end:
                bad = 'rec_len %d crosses the block end' % rl
            elif nl + 8 > rl:
                bad = 'name_len %d does not fit rec_len %d' % (nl, rl)
            elif ((8 + nl + 3) & ~3) > rl:
                bad = 'name_len %d does not fit rec_len %d' % (nl, rl)
            elif rl < min_len:
                bad = 'rec_len %d too small' % rl
            if bad:
                if strict:
                    raise FormatError('%s: entry at offset %d: %s' % (what, pos, bad))
                break
            out.append((pos, ino, rl, nl, ft, buf[pos + 8:pos + 8 + nl]))
            pos += rl
        return out

    def dir_blocks(self, inode):
        """[(lblk, pblk)] for the blocks of a directory within i_size (holes left out)."""
        ext, _t = self.extents(inode)
        bs = self.block_size
        nblk = (inode.size + bs - 1) // bs
        out = []
        for l, p, n, u in ext:
            if l >= nblk:
                break
            n = min(n, nblk - l)
            if n > 0x100000:
                raise FormatError('inode %d: directory extent too long' % inode.ino)
            for k in range(n):
                out.append((l + k, p + k))
        return out

    def _inline_dir(self, inode):
        """(parent, [(area_offset, buf)]) for an inline-data directory."""
        d = self._inline_data(inode)
        size = min(inode.size, len(d))
        parent = _u32(d, 0)[0]
        areas = [(4, d[:min(60, size)])]
        if size > 60:
            areas.append((60, d[60:size]))
        return parent, areas

    def dir_entries(self, inode, strict=False):
        """[(name, ino, file_type, lblk, offset)] in on-disk order; unused (inode 0) entries skipped."""
        if inode.mode & S_IFMT != S_IFDIR:
            raise FormatError('inode %d is not a directory' % inode.ino)
        out = []
        if self.has_inline_data(inode):
            parent, areas = self._inline_dir(inode)
            out.append((b'.', inode.ino, 2, 0, 0))
            out.append((b'..', parent, 2, 0, 0))
            for k, (aoff, buf) in enumerate(areas):
                start = 4 if k == 0 else 0
                for (pos, ino, rl, nl, ft, name) in self.parse_dir_block(
                        buf, strict, 'inode %d inline area %d' % (inode.ino, k), start):
                    if ino:
                        out.append((name, ino, ft, 0, (aoff - start if k else 0) + pos))
            return out
        for lblk, pblk in self.dir_blocks(inode):
            buf = self.read_block(pblk)
            for (pos, ino, rl, nl, ft, name) in self.parse_dir_block(
                    buf, strict, 'inode %d dir block %d (lblk %d)' % (inode.ino, pblk, lblk)):
                if ino:
                    out.append((name, ino, ft, lblk, pos))
        return out

    def htree(self, inode):
        """Parse the hash tree index of a directory, or return None when it is not indexed.

        Result: dict(hash_version, indirect_levels, info_length, unused_flags, nodes=[node...], leaves=[...]) where
        node = dict(lblk, pblk, level, count_offset, limit, count, entries=[(hash, lblk)], lo, hi) and
        leaves = [(lblk, lo_hash, hi_hash_or_None)].
        """
        if not (inode.flags & FL_INDEX) or not self.has('dir_index') or self.has_inline_data(inode):
            return None
        if inode.mode & S_IFMT != S_IFDIR:
            return None
        bs = self.block_size
        bmap = dict(self.dir_blocks(inode))
        if 0 not in bmap:
            raise FormatError('inode %d: indexed directory without block 0' % inode.ino)
        root = self.read_block(bmap[0])
        what = 'inode %d htree' % inode.ino
        # '.' entry of 12 bytes, '..' entry covering the rest
        ino0, rl0, nl0, _ft = struct.unpack_from('<IHBB', root, 0)
        ino1, rl1, nl1, _ft = struct.unpack_from('<IHBB', root, 12)
        if rl0 != 12 or nl0 != 1 or root[8:9] != b'.':
            raise FormatError('%s root: bad "." entry' % what)
        if self._rec_len(rl1) != bs - 12 or nl1 != 2 or root[20:22] != b'..':
            raise FormatError('%s root: bad ".." entry (rec_len %d)' % (what, rl1))
        zero, hv, ilen, levels, uflags = struct.unpack_from('<IBBBB', root, 0x18)
        if zero != 0:
            raise FormatError('%s root: reserved_zero is %#x' % (what, zero))
        if ilen != 8:
            raise FormatError('%s root: info_length %d != 8' % (what, ilen))
        if hv > 6:
            raise FormatError('%s root: hash_version %d unknown' % (what, hv))
        maxlev = 3 if self.has('large_dir') else 2
        if levels >= maxlev:
            raise FormatError('%s root: indirect_levels %d >= %d' % (what, levels, maxlev))
        tail = 8 if self.csum else 0
        res = dict(hash_version=hv, indirect_levels=levels, info_length=ilen, unused_flags=uflags,
                   nodes=[], leaves=[])
        seen = {0}

        def node(lblk, buf, level, lo, hi):
            co = 0x20 if lblk == 0 else 8
            if lblk != 0:
                fino, frl = struct.unpack_from('<IH', buf, 0)
                if fino != 0 or self._rec_len(frl) != bs:
                    raise FormatError('%s node lblk %d: fake dirent wrong (inode %d rec_len %d)' % (what, lblk, fino, frl))
            limit, count = struct.unpack_from('<HH', buf, co)
            expect = (bs - co - tail) // 8
            if limit != expect:
                raise FormatError('%s node lblk %d: limit %d, expected %d' % (what, lblk, limit, expect))
            if count == 0 or count > limit:
                raise FormatError('%s node lblk %d: count %d not in 1..%d' % (what, lblk, count, limit))
            ents = []
            for k in range(count):
                h, b = struct.unpack_from('<II', buf, co + 8 * k)
                if k == 0:
                    h = lo
                b &= 0x0fffffff
                ents.append((h, b))
            for k in range(1, count):
                if ents[k][0] < ents[k - 1][0]:
                    raise FormatError('%s node lblk %d: hash %#x at entry %d out of order' % (what, lblk, ents[k][0], k))
                if ents[k][0] < lo or (hi is not None and ents[k][0] > hi):
                    raise FormatError('%s node lblk %d: hash %#x at entry %d outside parent range' % (what, lblk, ents[k][0], k))
            nd = dict(lblk=lblk, pblk=bmap[lblk], level=level, count_offset=co, limit=limit, count=count,
                      entries=ents, lo=lo, hi=hi)
            res['nodes'].append(nd)
            for k, (h, b) in enumerate(ents):
                nhi = ents[k + 1][0] if k + 1 < count else hi
                if b in seen:
                    raise FormatError('%s node lblk %d: block %d referenced twice' % (what, lblk, b))
                seen.add(b)
                if b not in bmap:
                    raise FormatError('%s node lblk %d: entry %d points to unmapped block %d' % (what, lblk, k, b))
                if level < levels:
                    node(b, self.read_block(bmap[b]), level + 1, h, nhi)
                else:
                    res['leaves'].append((b, h, nhi))

        node(0, root, 0, 0, None)
        return res

    def hash_params(self, hv):
        """(version, seed, unsigned) to feed dirhash() for on-disk hash_version hv."""
        unsigned = bool(self.sb['s_flags'] & 2)
        return hv, self.sb['s_hash_seed'], unsigned

    # ---------------------------------------------------------------- extended attributes
    def _xattr_parse(self, buf, start, base, limit, what):
        """Entries from buf[start:], value offsets relative to base, nothing may go beyond limit."""
        out = []
        pos = start
        n = 0
        while True:
            if pos + 4 > limit:
                raise FormatError('%s: entry table runs past the end' % what)
            if _u32(buf, pos)[0] == 0:
                break
            if pos + 16 > limit:
                raise FormatError('%s: entry header runs past the end' % what)
            nl, idx, voff, vinum, vsize, h = struct.unpack_from('<BBHIII', buf, pos)
            if pos + 16 + nl > limit:
                raise FormatError('%s: entry name runs past the end' % what)
            name = buf[pos + 16:pos + 16 + nl]
            if vinum == 0 or not self.has('ea_inode'):
                vinum = 0
                if vsize and (base + voff + vsize > limit or base + voff < start):
                    raise FormatError('%s: value of %r at %d+%d outside the attribute area' % (what, name, voff, vsize))
            out.append(dict(index=idx, name=name, value_offs=voff, value_inum=vinum, value_size=vsize,
                            hash=h, entry_offset=pos, base=base, where=what))
            pos += (16 + nl + 3) & ~3
            n += 1
            if n > 4096:
                raise FormatError('%s: too many entries' % what)
        return out, pos

    def xattr_layout(self, inode):
        """Details of both attribute areas of an inode."""
        c = self._cache.setdefault('xl', {})
        r = c.get(inode.ino)
        if r is not None and r['_raw'] is inode.raw:
            return r
        res = dict(ibody=[], block=[], ibody_present=False, block_nr=0, h_refcount=None, h_blocks=None,
                   h_hash=None, h_checksum=None, _raw=inode.raw, _ibuf=None, _bbuf=None)
        isz = self.inode_size
        if isz > 128:
            ex = inode.extra_isize
            start = 128 + ex
            if ex >= 0 and ex <= isz - 128 and start + 4 <= isz and ex % 4 == 0:
                if _u32(inode.raw, start)[0] == XATTR_MAGIC:
                    res['ibody_present'] = True
                    res['_ibuf'] = inode.raw
                    ents, end = self._xattr_parse(inode.raw, start + 4, start + 4, isz,
                                                  'inode %d in-inode xattrs' % inode.ino)
                    res['ibody'] = ents
        if inode.file_acl:
            b = inode.file_acl
            if b < self.first_data_block or b >= self.blocks_count:
                raise FormatError('inode %d: i_file_acl %d out of range' % (inode.ino, b), 'range')
            buf = self.read_block(b)
            magic, refc, nblk, hh, cs = struct.unpack_from('<IIIII', buf, 0)
            if magic != XATTR_MAGIC:
                raise FormatError('inode %d: xattr block %d has bad magic %#x' % (inode.ino, b, magic))
            if nblk != 1:
                raise FormatError('inode %d: xattr block %d has h_blocks %d' % (inode.ino, b, nblk))
            res.update(block_nr=b, h_refcount=refc, h_blocks=nblk, h_hash=hh, h_checksum=cs, _bbuf=buf)
            ents, end = self._xattr_parse(buf, 32, 0, self.block_size, 'inode %d xattr block %d' % (inode.ino, b))
            res['block'] = ents
        c[inode.ino] = res
        return res

    def _xattr_entries(self, inode):
        l = self.xattr_layout(inode)
        return l['ibody'] + l['block']

    def _xattr_value(self, inode, e, depth=0):
        if e['value_inum']:
            vi = self.read_inode(e['value_inum'])
            if not vi.flags & FL_EA_INODE:
                raise FormatError('inode %d: xattr value inode %d lacks EA_INODE flag' % (inode.ino, vi.ino))
            if e['value_size'] > (1 << 24):
                raise FormatError('inode %d: xattr value size %d too large' % (inode.ino, e['value_size']))
            v = self.read_file(vi, limit=1 << 26)
            if len(v) < e['value_size']:
                raise FormatError('inode %d: xattr value inode %d shorter than e_value_size' % (inode.ino, vi.ino))
            return v[:e['value_size']]
        l = self.xattr_layout(inode)
        buf = l['_ibuf'] if e['where'].endswith('in-inode xattrs') else l['_bbuf']
        o = e['base'] + e['value_offs']
        return buf[o:o + e['value_size']]

    def xattrs(self, inode):
        out = {}
        for e in self._xattr_entries(inode):
            name = _XATTR_PREFIX.get(e['index'], b'unknown%d.' % e['index']) + e['name']
            out[name] = self._xattr_value(inode, e)
        return out

    # ---------------------------------------------------------------- namespace
    def tree(self):
        """dict path -> TreeEntry, walking from the root.  Problems met on the way are kept in self.tree_problems."""
        c = self._cache.get('tree')
        if c is not None:
            return c
        problems = []
        res = {}
        root = self.read_inode(2)
        res[b'/'] = TreeEntry(b'/', 2, root, 2, None)
        visited = {2}
        stack = [(b'/', root)]
        count = 0
        while stack:
            path, di = stack.pop()
            try:
                ents = self.dir_entries(di, strict=False)
            except FormatError as e:
                problems.append((di.ino, str(e)))
                continue
            for name, ino, ft, lblk, off in ents:
                if name in (b'.', b'..'):
                    continue
                p = (path if path != b'/' else b'') + b'/' + name
                if p in res:
                    problems.append((di.ino, 'duplicate name %r' % p))
                    continue
                try:
                    ci = self.read_inode(ino)
                except FormatError as e:
                    problems.append((di.ino, 'entry %r: %s' % (p, e)))
                    continue
                res[p] = TreeEntry(p, ino, ci, ft, di.ino)
                count += 1
                if count > 4000000:
                    raise FormatError('namespace walk exceeds 4M entries')
                if ci.mode & S_IFMT == S_IFDIR:
                    if ino in visited:
                        problems.append((di.ino, 'directory inode %d reached a second time as %r' % (ino, p)))
                        continue
                    visited.add(ino)
                    stack.append((p, ci))
        self.tree_problems = problems
        self._cache['tree'] = res
        return res

    def tree_digest(self, include_mtime=True, skip=(b'/lost+found',), max_hash_size=1 << 28):
        """(hexdigest, {path: record}) - see the module documentation for what a record holds."""
        t = self.tree()
        recs = {}
        h = hashlib.sha256()
        skip = tuple(skip or ())

        def skipped(p):
            for s in skip:
                if p == s or p.startswith(s + b'/'):
                    return True
            return False

        for p in sorted(t):
            e = t[p]
            i = e.inode
            fmt = i.mode & S_IFMT
            r = {'type': fmt, 'mode': i.mode & 0o7777, 'uid': i.uid, 'gid': i.gid, 'links': i.links_count,
                 'mtime': i.mtime, 'ino': e.ino}
            try:
                if fmt == S_IFREG:
                    r['size'] = i.size
                    r['holes'] = self.hole_map(i)
                    hh = hashlib.sha256()
                    if i.size > max_hash_size:
                        # too sparse/large to stream: hash size, map and mapped bytes instead
                        hh.update(b'summarised:%d:' % i.size)
                        bs = self.block_size
                        for l, n in r['holes']:
                            hh.update(b'%d+%d;' % (l, n))
                        for l, pb, n, u in self.extents(i)[0]:
                            if not u:
                                hh.update(self.data[pb * bs:(pb + n) * bs])
                        r['content_mode'] = 'summarised'
                    else:
                        for ch in self.file_chunks(i):
                            hh.update(ch)
                    r['sha256'] = hh.hexdigest()
                elif fmt == S_IFLNK:
                    r['size'] = i.size
                    r['target'] = self.readlink(i)
                elif fmt in (S_IFCHR, S_IFBLK):
                    r['rdev'] = self.dev_numbers(i)
                xa = []
                for k, v in sorted(self.xattrs(i).items()):
                    if k == b'system.data':
                        continue
                    xa.append((k, v if len(v) <= 64 else b'sha256:' + hashlib.sha256(v).hexdigest().encode()))
                r['xattrs'] = xa
            except FormatError as ex:
                r['error'] = str(ex)
            recs[p] = r
            if skipped(p):
                continue
            parts = [p, b'%o' % fmt, b'%o' % r['mode'], b'%d' % r['uid'], b'%d' % r['gid'], b'%d' % r['links']]
            if include_mtime:
                parts.append(b'm%d' % r['mtime'])
            if 'size' in r:
                parts.append(b's%d' % r['size'])
            if 'sha256' in r:
                parts.append(r['sha256'].encode())
            if 'target' in r:
                parts.append(b't' + r['target'])
            if 'rdev' in r:
                parts.append(b'd%d,%d' % r['rdev'])
            for k, v in r.get('xattrs', ()):
                parts.append(b'x' + k)
                parts.append(v)
            if 'error' in r:
                parts.append(b'error')
            for x in parts:
                h.update(b'%d:' % len(x))
                h.update(x)
            h.update(b'\n')
        return h.hexdigest(), recs

    # ---------------------------------------------------------------- accounting and checks
    def special_inodes(self):
        """dict ino -> role for inodes that are in use without being named by a directory."""
        sb = self.sb
        s = {}
        for ino in range(1, min(self.first_ino, self.inodes_count + 1)):
            s[ino] = 'reserved'
        s[1] = 'badblocks'
        s[2] = 'root'
        if self.has('resize_inode'):
            s[7] = 'resize'
        if self.has('has_journal') and sb['s_journal_inum']:
            s[sb['s_journal_inum']] = 'journal'
        if self.has('quota'):
            for k in ('s_usr_quota_inum', 's_grp_quota_inum', 's_prj_quota_inum'):
                if sb[k]:
                    s[sb[k]] = 'quota'
        if self.has('orphan_file') and sb['s_orphan_file_inum']:
            s[sb['s_orphan_file_inum']] = 'orphan_file'
        return {k: v for k, v in s.items() if 1 <= k <= self.inodes_count}

    def _expand_bitmap(self, buf, nbits):
        t = self._cache.get('bit_table')
        if t is None:
            t = [bytes((x >> k) & 1 for k in range(8)) for x in range(256)]
            self._cache['bit_table'] = t
        nbytes = (nbits + 7) // 8
        return b''.join([t[x] for x in buf[:nbytes]])[:nbits]

    def _scan(self):
        c = self._cache.get('scan')
        if c is not None:
            return c
        res = self._do_scan()
        self._cache['scan'] = res
        return res

    def _do_scan(self):
        out = []                      # complaints

        def add(rule, detail, obj=None):
            out.append(Complaint(rule, detail, obj))

        bs = self.block_size
        sb = self.sb
        csum = self.csum
        cbits = self.cluster_bits
        res = dict(complaints=out, owners={}, kinds={}, inuse=set(), counts={}, specials={}, xrefs={})

        # ---- R5: superblock, descriptors, MMP
        if csum:
            if sb['s_checksum_type'] != 1:
                add('R5.superblock', 's_checksum_type %d is not crc32c' % sb['s_checksum_type'], ('superblock', 0))
            c = crc32c(0xffffffff, self.sb_raw[:0x3FC])
            if c != sb['s_checksum']:
                add('R5.superblock', 'stored %#x computed %#x' % (sb['s_checksum'], c), ('superblock', 0))
        gds = []
        for g in range(self.group_count):
            try:
                gd = self.group_desc(g)
            except FormatError as e:
                add('R4.group_desc', str(e), ('group', g))
                gds.append(None)
                continue
            gds.append(gd)
            raw = gd['raw']
            if csum:
                c = crc32c(self.csum_seed, struct.pack('<I', g))
                c = crc32c(c, raw[:0x1E])
                c = crc32c(c, b'\0\0')
                if self.desc_size > 32:
                    c = crc32c(c, raw[0x20:])
                c &= 0xffff
                if c != gd['bg_checksum']:
                    add('R5.group_desc', 'group %d stored %#x computed %#x' % (g, gd['bg_checksum'], c), ('group', g))
            elif self.has('uninit_bg'):
                c = crc16(0xffff, sb['s_uuid'])
                c = crc16(c, struct.pack('<I', g))
                c = crc16(c, raw[:0x1E])
                if self.desc_size > 32 and self.has('64bit'):
                    c = crc16(c, raw[0x20:])
                if c != gd['bg_checksum']:
                    add('R5.group_desc', 'group %d stored %#x computed %#x (crc16)' % (g, gd['bg_checksum'], c), ('group', g))
        fm = self.fixed_metadata()
        for g, msg in self._cache.get('fixed_bad', ()):
            add('R1.metadata_location', 'group %d: %s' % (g, msg), ('group', g))
        if self.has('mmp'):
            b = sb['s_mmp_block']
            if fm.get(b, ('',))[0] == 'mmp':
                try:
                    mb = self.read_block(b)
                    if _u32(mb, 0)[0] != MMP_MAGIC:
                        add('R4.mmp', 'MMP block %d has bad magic %#x' % (b, _u32(mb, 0)[0]), ('block', b))
                    elif csum:
                        c = crc32c(self.csum_seed, mb[:0x3FC])
                        if c != _u32(mb, 0x3FC)[0]:
                            add('R5.mmp', 'stored %#x computed %#x' % (_u32(mb, 0x3FC)[0], c), ('block', b))
                except FormatError as e:
                    add('R4.mmp', str(e), ('block', b))

        # ---- on-disk bitmaps (expanded to a byte per bit), bitmap checksums
        ipg = self.inodes_per_group
        cpg = self.clusters_per_group
        bbits = []
        ibits = []
        flags = []
        for g in range(self.group_count):
            gd = gds[g]
            fl = gd['bg_flags'] if (gd and self._uses_bg_flags()) else 0
            flags.append(fl)
            bb = ib = None
            if gd is not None:
                if not fl & BG_BLOCK_UNINIT and fm.get(gd['bg_block_bitmap'], ('',))[0] == 'block_bitmap':
                    try:
                        buf = self.read_block(gd['bg_block_bitmap'])
                        bb = self._expand_bitmap(buf, min(cpg, bs * 8))
                        if csum:
                            c = crc32c(self.csum_seed, buf[:cpg // 8])
                            if self.desc_size < 64:
                                c &= 0xffff
                            if c != gd['bg_block_bitmap_csum']:
                                add('R5.block_bitmap', 'group %d stored %#x computed %#x' % (
                                    g, gd['bg_block_bitmap_csum'], c), ('group', g))
                    except FormatError as e:
                        add('R4.block_bitmap', str(e), ('group', g))
                if not fl & BG_INODE_UNINIT and fm.get(gd['bg_inode_bitmap'], ('',))[0] == 'inode_bitmap':
                    try:
                        buf = self.read_block(gd['bg_inode_bitmap'])
                        ib = self._expand_bitmap(buf, ipg)
                        if csum:
                            c = crc32c(self.csum_seed, buf[:ipg // 8])
                            if self.desc_size < 64:
                                c &= 0xffff
                            if c != gd['bg_inode_bitmap_csum']:
                                add('R5.inode_bitmap', 'group %d stored %#x computed %#x' % (
                                    g, gd['bg_inode_bitmap_csum'], c), ('group', g))
                    except FormatError as e:
                        add('R4.inode_bitmap', str(e), ('group', g))
            bbits.append(bb)
            ibits.append(ib)

        # ---- pass over the inode tables: which slots look allocated
        specials = self.special_inodes()
        res['specials'] = specials
        alloc = {}                    # ino -> Inode for slots with links_count > 0
        data = self.data
        isz = self.inode_size
        for g in range(self.group_count):
            gd = gds[g]
            if gd is None or flags[g] & BG_INODE_UNINIT:
                continue
            it = gd['bg_inode_table']
            if fm.get(it, ('',))[0] != 'inode_table':
                continue
            base = it * bs
            if base + ipg * isz > len(data):
                add('R4.inode_table', 'inode table of group %d beyond the end of the image' % g, ('group', g))
                continue
            ino = g * ipg
            nscan = ipg
            if self._uses_bg_flags() and 0 < gd['bg_itable_unused'] <= ipg:
                # The tail of the table beyond the high-water mark is "never used": what lies there (stale
                # bytes of a table that was never zeroed, or an inode a crashed writer stored before it
                # could update bitmap and descriptor) is not an inode unless a directory entry names it --
                # and then the entry is reported (R3.entry_unused).  e2fsck scans the same way.
                nscan = ipg - gd['bg_itable_unused']
            for off in range(base, base + nscan * isz, isz):
                ino += 1
                if data[off + 0x1A] or data[off + 0x1B]:
                    alloc[ino] = self._parse_inode(ino, off)
        self._cache.setdefault('inodes', {}).update(alloc)

        def get_inode(ino):
            i = alloc.get(ino)
            if i is None:
                i = self.read_inode(ino)
            return i

        # ---- namespace walk
        counts = res['counts']        # ino -> number of directory entries naming it
        dirinfo = {}                  # dir ino -> parent ino
        try:
            root = get_inode(2)
        except FormatError as e:
            root = None
            add('R3.root', str(e), ('inode', 2))
        if root is not None and root.mode & S_IFMT != S_IFDIR:
            add('R3.root', 'root inode is not a directory (mode %o)' % root.mode, ('inode', 2))
            root = None
        stack = []
        if root is not None:
            dirinfo[2] = 2
            stack.append(root)
        icount = self.inodes_count
        while stack:
            di = stack.pop()
            dino = di.ino
            parent = dirinfo[dino]
            try:
                ents = self._dir_entries_checked(di, add)
            except FormatError as e:
                add('R4.extent' if e.kind != 'range' else 'R1.range', str(e), ('inode', dino))
                continue
            if len(ents) < 1 or ents[0][0] != b'.' or ents[0][1] != dino:
                add('R3.dot', 'directory %d: first entry is not "." -> %d' % (dino, dino), ('inode', dino))
            if len(ents) < 2 or ents[1][0] != b'..' or ents[1][1] != parent:
                add('R3.dotdot', 'directory %d: second entry is not ".." -> %d (found %r)' % (
                    dino, parent, ents[1][:2] if len(ents) > 1 else None), ('inode', dino))
            for k, (name, ino, ft, lblk, off) in enumerate(ents):
                if ino < 1 or ino > icount:
                    add('R3.entry_range', 'directory %d entry %r names inode %d (out of range)' % (dino, name, ino),
                        ('inode', dino))
                    continue
                counts[ino] = counts.get(ino, 0) + 1
                if k < 2 and name in (b'.', b'..'):
                    continue
                if name in (b'.', b'..'):
                    add('R3.dot', 'directory %d: extra %r entry at position %d' % (dino, name, k), ('inode', dino))
                    continue
                ci = alloc.get(ino)
                if ci is None:
                    add('R3.entry_unused', 'directory %d entry %r names inode %d which is not in use (links_count 0)' % (
                        dino, name, ino), ('inode', ino))
                    continue
                if ci.mode == 0 or ci.dtime != 0:
                    add('R3.entry_unused', 'directory %d entry %r names inode %d with mode %o dtime %d' % (
                        dino, name, ino, ci.mode, ci.dtime), ('inode', ino))
                    if ci.mode == 0:
                        continue
                if ci.mode & S_IFMT == S_IFDIR:
                    if ino in dirinfo:
                        add('R3.dir_hardlink', 'directory inode %d named from %d and from %d' % (ino, dirinfo[ino], dino),
                            ('inode', ino))
                        continue
                    dirinfo[ino] = dino
                    stack.append(ci)
        res['dirinfo'] = dirinfo

        # ---- which inodes are in use
        inuse = res['inuse']
        for ino in specials:
            inuse.add(ino)
        for ino in counts:
            if ino in alloc and alloc[ino].mode != 0:
                inuse.add(ino)
        pending_ea = []
        for ino, i in alloc.items():
            if ino in inuse:
                continue
            if i.flags & FL_EA_INODE and self.has('ea_inode'):
                pending_ea.append(ino)
                continue
            if i.mode != 0 and i.dtime == 0:
                add('R3.unreachable', 'inode %d (mode %o, links_count %d) is not reachable from the root' % (
                    ino, i.mode, i.links_count), ('inode', ino))
                inuse.add(ino)
        res['alloc'] = alloc

        # ---- per-inode structure, ownership
        owners = res['owners']        # blk -> [(ino, kind)]
        xrefs = res['xrefs']          # xattr blk -> [ino...]
        ea_refs = {}                  # ea inode -> number of references

        def own(blk, ino, kind):
            l = owners.get(blk)
            if l is None:
                owners[blk] = [(ino, kind)]
            else:
                l.append((ino, kind))

        def do_inode(ino):
            try:
                i = get_inode(ino)
            except FormatError as e:
                add('R4.inode', str(e), ('inode', ino))
                return
            role = specials.get(ino)
            if role == 'reserved' and i.mode == 0 and i.links_count == 0:
                return
            if ino == 1 and not any(i.i_block):
                return
            if csum and (ino not in specials or i.mode != 0 or i.links_count):
                self._check_inode_csum(i, add)
            if isz > 128 and (i.extra_isize > isz - 128 or i.extra_isize & 3):
                add('R4.inode', 'inode %d: i_extra_isize %d invalid' % (ino, i.extra_isize), ('inode', ino))
            blocks = []
            ea_charge = 0
            fmt = i.mode & S_IFMT
            ext = tree = ()
            mapped_ok = True
            if self.has_block_map(i) or role in ('badblocks', 'resize'):
                try:
                    if role in ('badblocks', 'resize') and not i.flags & FL_EXTENTS:
                        ext, tree = self._block_map(i)
                    else:
                        ext, tree = self.extents(i)
                except FormatError as e:
                    mapped_ok = False
                    add('R1.range' if e.kind == 'range' else 'R4.extent', str(e), ('inode', ino))
                kind = {'journal': 'journal', 'quota': 'quota', 'orphan_file': 'orphan_file',
                        'resize': 'reserved_gdt', 'badblocks': 'badblock'}.get(role)
                if kind is None:
                    kind = 'dir' if fmt == S_IFDIR else 'data'
                tkind = 'extent_tree' if i.flags & FL_EXTENTS else 'indirect'
                if role == 'resize':
                    tkind = 'reserved_gdt'
                for b in tree:
                    own(b, ino, tkind)
                    blocks.append(b)
                for l, p, n, u in ext:
                    for b in range(p, p + n):
                        own(b, ino, kind)
                    blocks.extend(range(p, p + n))
                if csum and i.flags & FL_EXTENTS and tree:
                    seed = self.inode_seed(i)
                    for b in tree:
                        buf = self.read_block(b)
                        emax = _u16(buf, 4)[0]
                        toff = 12 + 12 * emax
                        if toff + 4 > bs:
                            continue
                        c = crc32c(seed, buf[:toff])
                        if c != _u32(buf, toff)[0]:
                            add('R5.extent_block', 'inode %d extent block %d stored %#x computed %#x' % (
                                ino, b, _u32(buf, toff)[0], c), ('block', b))
            # xattrs
            try:
                xl = self.xattr_layout(i)
                if xl['block_nr']:
                    xb = xl['block_nr']
                    first = xb not in xrefs
                    xrefs.setdefault(xb, []).append(ino)
                    own(xb, ino, 'xattr')
                    blocks.append(xb)
                    if first and csum:
                        buf = bytearray(xl['_bbuf'])
                        buf[0x10:0x14] = b'\0\0\0\0'
                        c = crc32c(crc32c(self.csum_seed, struct.pack('<Q', xb)), bytes(buf))
                        if c != xl['h_checksum']:
                            add('R5.xattr_block', 'block %d stored %#x computed %#x' % (xb, xl['h_checksum'], c),
                                ('block', xb))
                for e in xl['ibody'] + xl['block']:
                    if e['value_inum']:
                        ea_refs[e['value_inum']] = ea_refs.get(e['value_inum'], 0) + 1
                        # the blocks of a value inode are charged to the inode that carries the attribute
                        vi = alloc.get(e['value_inum'])
                        if vi is not None:
                            ea_charge += vi.blocks
            except FormatError as e:
                add('R1.range' if e.kind == 'range' else 'R4.xattr', str(e), ('inode', ino))
            # i_blocks
            if mapped_ok and role != 'badblocks' and not (role == 'resize' and cbits):
                if cbits:
                    units = len({b >> cbits for b in blocks}) << cbits
                else:
                    units = len(blocks)
                expect = units * (bs // 512) + ea_charge
                if i.blocks != expect:
                    add('R4.i_blocks', 'inode %d: i_blocks %d, owned blocks say %d' % (ino, i.blocks, expect),
                        ('inode', ino))
            # directories
            if fmt == S_IFDIR and mapped_ok and not self.has_inline_data(i):
                if i.size % bs or i.size == 0:
                    add('R4.dir_size', 'directory %d: i_size %d not a positive multiple of the block size' % (
                        ino, i.size), ('inode', ino))
                elif ext:
                    last = ext[-1][0] + ext[-1][2]
                    nblk = i.size // bs
                    if nblk > last or last - nblk > sb['s_prealloc_dir_blocks']:
                        add('R4.dir_size', 'directory %d: i_size %d but blocks are mapped up to %d' % (
                            ino, i.size, last), ('inode', ino))
                if ino in dirinfo or ino not in counts:
                    try:
                        self._check_dir_index(i, add)
                    except FormatError as e:
                        add('R4.htree', str(e), ('inode', ino))
            if role == 'journal':
                self._check_journal_sb(i, add)
            if role == 'orphan_file' and mapped_ok:
                self._check_orphan_file(i, ext, add)

        done = set()
        for ino in sorted(inuse):
            do_inode(ino)
            done.add(ino)
        for ino in pending_ea:
            if ino in ea_refs:
                inuse.add(ino)
                do_inode(ino)
            else:
                add('R3.unreachable', 'EA inode %d is not referenced by any attribute' % ino, ('inode', ino))
                inuse.add(ino)
                do_inode(ino)
        for ino in ea_refs:
            if ino not in alloc or not (1 <= ino <= icount):
                add('R3.entry_unused', 'attribute value inode %d is not in use' % ino, ('inode', ino))
        res['ea_inodes'] = set(ea_refs)

        # ---- R1 ownership
        shared_ok = self.has('shared_blocks')
        fdb = self.first_data_block
        for blk, l in owners.items():
            m = fm.get(blk)
            if m is not None:
                for ino, kind in l:
                    if m[0] in ('reserved_gdt', 'backup_reserved_gdt') and ino == 7 and specials.get(7) == 'resize':
                        continue
                    if ino == 1:
                        continue
                    add('R1.overlap_metadata', 'block %d (%s of inode %d) is %s of group %d' % (
                        blk, kind, ino, m[0], m[1]), ('block', blk))
            if len(l) > 1 and not shared_ok:
                if all(k == 'xattr' for _i, k in l):
                    continue
                if specials.get(7) == 'resize' and all(i_ == 7 for i_, _k in l):
                    # a reserved GDT block can show up on two levels of the resize inode's map
                    pass
                add('R1.multiply_claimed', 'block %d claimed by %s' % (
                    blk, ', '.join('inode %d (%s)' % x for x in l[:6])), ('block', blk))
        for xb, inos in xrefs.items():
            try:
                refc = _u32(self.read_block(xb), 4)[0]
            except FormatError:
                continue
            if refc != len(inos):
                add('R1.xattr_refcount', 'xattr block %d: h_refcount %d but %d inode(s) reference it' % (
                    xb, refc, len(inos)), ('block', xb))
        if cbits:
            cown = {}
            for blk, l in owners.items():
                s = cown.setdefault(blk >> cbits, set())
                for ino, kind in l:
                    s.add(ino)
            metac = {}
            for blk, m in fm.items():
                metac.setdefault(blk >> cbits, m)
            for cl, s in cown.items():
                if len(s) > 1 and not shared_ok:
                    add('R1.multiply_claimed', 'cluster %d shared by inodes %s' % (cl, sorted(s)[:6]),
                        ('block', cl << cbits))
                m = metac.get(cl)
                if m is not None and not (s <= {1, 7}):
                    if not any((cl << cbits) + k in fm and (cl << cbits) + k in owners for k in range(1 << cbits)):
                        add('R1.overlap_metadata', 'cluster %d of inode(s) %s also holds %s of group %d' % (
                            cl, sorted(s)[:6], m[0], m[1]), ('block', cl << cbits))

        # ---- R2 block bitmaps and counts
        used = bytearray(self.group_count * cpg)

        def cl_index(blk):
            return (blk - fdb) >> cbits

        for blk in fm:
            used[cl_index(blk)] = 1
        meta_used = bytes(used)
        for blk in owners:
            if fdb <= blk < self.blocks_count:
                used[cl_index(blk)] = 1
        for g in range(self.group_count):
            gd = gds[g]
            if gd is None:
                continue
            n = (self.group_blocks(g) + (1 << cbits) - 1) >> cbits
            lo = g * cpg
            exp = used[lo:lo + n]
            if flags[g] & BG_BLOCK_UNINIT:
                mexp = meta_used[lo:lo + n]
                if exp != mexp:
                    k = next(x for x in range(n) if exp[x] != mexp[x])
                    add('R2.block_uninit', 'group %d is BLOCK_UNINIT but cluster %d (block %d) is owned: %s' % (
                        g, lo + k, fdb + ((lo + k) << cbits), owners.get(fdb + ((lo + k) << cbits))), ('group', g))
                free = n - sum(mexp)
            else:
                bb = bbits[g]
                if bb is None:
                    continue
                have = bb[:n]
                if have != exp:
                    diffs = [x for x in range(n) if have[x] != exp[x]]
                    desc = ' '.join('%s%d' % ('+' if exp[x] else '-', fdb + ((lo + x) << cbits)) for x in diffs[:12])
                    add('R2.block_bitmap', 'group %d: %d difference(s) (+ used but not marked, - marked but unused): %s' % (
                        g, len(diffs), desc), ('group', g))
                free = n - sum(have)
                if n < cpg and g == self.group_count - 1:
                    pad = bb[n:cpg]
                    if sum(pad) != len(pad):
                        add('R2.bitmap_padding', 'group %d: padding after the last block is not all set' % g, ('group', g))
            if free != gd['bg_free_blocks_count']:
                add('R2.free_blocks_count', 'group %d: bg_free_blocks_count %d, bitmap says %d' % (
                    g, gd['bg_free_blocks_count'], free), ('group', g))

        # ---- R2 inode bitmaps and counts
        for g in range(self.group_count):
            gd = gds[g]
            if gd is None:
                continue
            lo = g * ipg
            exp = bytearray(ipg)
            ndirs = 0
            for ino in range(lo + 1, lo + ipg + 1):
                if ino in inuse:
                    exp[ino - lo - 1] = 1
            for ino in range(lo + 1, lo + ipg + 1):
                if ino in inuse:
                    i = alloc.get(ino)
                    if i is not None and i.mode & S_IFMT == S_IFDIR:
                        ndirs += 1
            if flags[g] & BG_INODE_UNINIT:
                if any(exp):
                    add('R2.inode_uninit', 'group %d is INODE_UNINIT but inode %d is in use' % (
                        g, lo + 1 + exp.index(1)), ('group', g))
                free = ipg
                ndirs_have = 0
            else:
                ib = ibits[g]
                if ib is None:
                    continue
                if ib != exp:
                    diffs = [x for x in range(ipg) if ib[x] != exp[x]]
                    desc = ' '.join('%s%d' % ('+' if exp[x] else '-', lo + 1 + x) for x in diffs[:12])
                    add('R2.inode_bitmap', 'group %d: %d difference(s) (+ in use but not marked, - marked but unused): %s' % (
                        g, len(diffs), desc), ('group', g))
                free = ipg - sum(ib)
                ndirs_have = ndirs
            if free != gd['bg_free_inodes_count']:
                add('R2.free_inodes_count', 'group %d: bg_free_inodes_count %d, bitmap says %d' % (
                    g, gd['bg_free_inodes_count'], free), ('group', g))
            if ndirs_have != gd['bg_used_dirs_count']:
                add('R2.used_dirs_count', 'group %d: bg_used_dirs_count %d, counted %d' % (
                    g, gd['bg_used_dirs_count'], ndirs_have), ('group', g))

        # ---- R3 link counts
        dir_nlink = self.has('dir_nlink')
        for ino in sorted(inuse):
            if ino in specials and ino != 2:
                continue
            i = alloc.get(ino)
            if i is None:
                if ino == 2:
                    add('R3.links', 'root inode has links_count 0', ('inode', 2))
                continue
            if i.flags & FL_EA_INODE and self.has('ea_inode'):
                continue
            n = counts.get(ino, 0)
            if n == 0:
                continue              # unreachable, already reported
            if i.links_count != n:
                if i.mode & S_IFMT == S_IFDIR and dir_nlink and i.links_count == 1:
                    continue
                add('R3.links', 'inode %d: i_links_count %d but %d directory entr%s name it' % (
                    ino, i.links_count, n, 'y' if n == 1 else 'ies'), ('inode', ino))
        return res

    def _check_inode_csum(self, i, add):
        raw = bytearray(i.raw)
        raw[0x7C:0x7E] = b'\0\0'
        wide = self.inode_size > 128 and i.extra_isize >= 4 and i.extra_isize <= self.inode_size - 128
        if wide:
            raw[0x82:0x84] = b'\0\0'
        c = crc32c(self.inode_seed(i), bytes(raw))
        if not wide:
            c &= 0xffff
        stored = i.checksum if wide else i.checksum & 0xffff
        if c != stored:
            add('R5.inode', 'inode %d stored %#x computed %#x' % (i.ino, stored, c), ('inode', i.ino))

    def _dir_entries_checked(self, di, add):
        """Like dir_entries(), but malformed blocks are reported through add() and the parsed blocks are remembered."""
        dc = self._cache.setdefault('dirparse', {})
        out = []
        blocks = []
        if self.has_inline_data(di):
            try:
                parent, areas = self._inline_dir(di)
            except FormatError as e:
                add('R4.inline_dir', str(e), ('inode', di.ino))
                dc[di.ino] = blocks
                return out
            out.append((b'.', di.ino, 2, 0, 0))
            out.append((b'..', parent, 2, 0, 0))
            for k, (aoff, buf) in enumerate(areas):
                start = 4 if k == 0 else 0
                what = 'inode %d inline area %d' % (di.ino, k)
                try:
                    ents = self.parse_dir_block(buf, True, what, start)
                except FormatError as e:
                    add('R4.dirent', str(e), ('inode', di.ino))
                    ents = self.parse_dir_block(buf, False, what, start)
                for (pos, ino, rl, nl, ft, name) in ents:
                    if ino:
                        out.append((name, ino, ft, 0, pos))
            dc[di.ino] = blocks
            return out
        for lblk, pblk in self.dir_blocks(di):
            buf = self.read_block(pblk)
            what = 'inode %d dir block %d (lblk %d)' % (di.ino, pblk, lblk)
            try:
                ents = self.parse_dir_block(buf, True, what)
            except FormatError as e:
                add('R4.dirent', str(e), ('block', pblk))
                ents = self.parse_dir_block(buf, False, what)
            blocks.append((lblk, pblk, buf, ents))
            for (pos, ino, rl, nl, ft, name) in ents:
                if ino:
                    out.append((name, ino, ft, lblk, pos))
        dc[di.ino] = blocks
        return out

    def _check_dir_index(self, i, add):
        ino = i.ino
        if not self.csum and not (i.flags & FL_INDEX and self.has('dir_index')):
            return
        dc = self._cache.setdefault('dirparse', {})
        if ino not in dc:
            self._dir_entries_checked(i, add)
        blocks = dc.get(ino, [])
        bs = self.block_size
        ht = None
        try:
            ht = self.htree(i)
        except FormatError as e:
            add('R4.htree', str(e), ('inode', ino))
        index = {}
        if ht is not None:
            for nd in ht['nodes']:
                index[nd['lblk']] = nd
        seed = self.inode_seed(i) if self.csum else 0
        byl = {}
        for (lblk, pblk, buf, ents) in blocks:
            byl[lblk] = (pblk, buf, ents)
            if not self.csum:
                continue
            nd = index.get(lblk)
            if nd is not None:
                co, limit, count = nd['count_offset'], nd['limit'], nd['count']
                toff = co + 8 * limit
                if toff + 8 > bs:
                    add('R4.htree', 'inode %d htree node lblk %d: no room for the checksum tail' % (ino, lblk),
                        ('block', pblk))
                    continue
                c = crc32c(seed, buf[:co + 8 * count])
                c = crc32c(c, buf[toff:toff + 4])
                c = crc32c(c, b'\0\0\0\0')
                st = _u32(buf, toff + 4)[0]
                if c != st:
                    add('R5.htree_node', 'inode %d htree node block %d stored %#x computed %#x' % (ino, pblk, st, c),
                        ('block', pblk))
            else:
                t_ino, t_rl, t_nl, t_ft, t_cs = struct.unpack_from('<IHBBI', buf, bs - 12)
                if t_ino != 0 or t_rl != 12 or t_nl != 0 or t_ft != 0xDE:
                    if ht is None and i.flags & FL_INDEX and self.has('dir_index') and ents and \
                            ents[0][1] == 0 and ents[0][2] == bs:
                        continue      # index could not be parsed; cannot tell node from leaf
                    add('R4.dir_tail', 'inode %d dir block %d has no checksum tail' % (ino, pblk), ('block', pblk))
                    continue
                c = crc32c(seed, buf[:bs - 12])
                if c != t_cs:
                    add('R5.dir_leaf', 'inode %d dir block %d stored %#x computed %#x' % (ino, pblk, t_cs, c),
                        ('block', pblk))
        if ht is None:
            return
        # every block that carries live entries must hang off the index (otherwise lookups cannot find them)
        referenced = set(index) | {l for (l, _lo, _hi) in ht['leaves']}
        for (lblk, pblk, buf, ents) in blocks:
            if lblk not in referenced and any(e[1] for e in ents):
                add('R4.htree_unreferenced', 'inode %d: dir block %d (lblk %d) has entries but is not referenced by the index' % (
                    ino, pblk, lblk), ('block', pblk))
                break
        hv = ht['hash_version']
        if hv == HASH_SIPHASH or i.flags & (FL_CASEFOLD | FL_ENCRYPT):
            return                    # names are not hashed as stored; only the index structure is judged
        hv, hseed, unsigned = self.hash_params(hv)
        for (lblk, lo, hi) in ht['leaves']:
            ent = byl.get(lblk)
            if ent is None:
                continue
            pblk, buf, ents = ent
            lo &= ~1
            if lo == 0 and hi is None:
                continue              # a single leaf covers the whole hash space
            for (pos, eino, rl, nl, ft, name) in ents:
                if eino == 0:
                    continue
                h, _m = dirhash(name, hv, hseed, unsigned)
                if h < lo or (hi is not None and h > hi):
                    add('R4.htree_hash', 'inode %d: name %r (hash %#x) in leaf lblk %d outside [%#x, %s]' % (
                        ino, name, h, lblk, lo, '%#x' % hi if hi is not None else 'end'), ('block', pblk))
                    break

    def _check_journal_sb(self, i, add):
        try:
            ext, _t = self.extents(i)
            if not ext or ext[0][0] != 0:
                add('R4.journal', 'journal inode %d has no block 0' % i.ino, ('inode', i.ino))
                return
            jsb = self.read_block(ext[0][1])[:1024]
        except FormatError:
            return
        magic, btype, _seq = struct.unpack_from('>III', jsb, 0)
        if magic != JBD2_MAGIC or btype not in (3, 4):
            add('R4.journal', 'journal superblock magic %#x type %d' % (magic, btype), ('inode', i.ino))
            return
        if btype == 4:
            incompat = struct.unpack_from('>I', jsb, 0x28)[0]
            if incompat & 0x18:
                stored = struct.unpack_from('>I', jsb, 0xFC)[0]
                c = crc32c(0xffffffff, jsb[:0xFC] + b'\0\0\0\0' + jsb[0x100:])
                if c != stored:
                    add('R5.journal_sb', 'journal superblock stored %#x computed %#x' % (stored, c), ('inode', i.ino))

    def _check_orphan_file(self, i, ext, add):
        if not self.csum:
            return
        bs = self.block_size
        for l, p, n, u in ext:
            for k in range(n):
                try:
                    buf = self.read_block(p + k)
                except FormatError:
                    continue
                magic, stored = struct.unpack_from('<II', buf, bs - 8)
                if magic != ORPHAN_BLOCK_MAGIC:
                    add('R4.orphan_file', 'orphan file block %d has magic %#x' % (p + k, magic), ('block', p + k))
                    continue
                c = crc32c(self.csum_seed, struct.pack('<I', i.ino))
                c = crc32c(c, struct.pack('<I', i.generation))
                c = crc32c(c, struct.pack('<Q', p + k))
                c = crc32c(c, buf[:bs - 8])
                if c != stored:
                    add('R5.orphan_file', 'orphan file block %d stored %#x computed %#x' % (p + k, stored, c),
                        ('block', p + k))

    # ---------------------------------------------------------------- public results
    def check(self):
        """All complaints about the image; never raises."""
        try:
            return list(self._scan()['complaints'])
        except FormatError as e:
            return [Complaint('R4.fatal', str(e), None)]
        except RecursionError:
            return [Complaint('R4.fatal', 'structure nesting too deep', None)]
        except (struct.error, IndexError, KeyError, ValueError, OverflowError, MemoryError, TypeError) as e:
            return [Complaint('R4.fatal', 'internal: %s: %s' % (type(e).__name__, e), None)]

    def verify_checksums(self):
        return [c for c in self.check() if c.rule.startswith('R5') or c.rule == 'R4.fatal']

    def owner_map(self):
        """(dict blk -> [owner...], [complaints]); owners are ('inode', ino, kind) or ('meta', kind, group)."""
        try:
            sc = self._scan()
        except FormatError as e:
            return {}, [Complaint('R4.fatal', str(e), None)]
        m = {}
        for blk, (kind, g) in self.fixed_metadata().items():
            m.setdefault(blk, []).append(('meta', kind, g))
        for blk, l in sc['owners'].items():
            for ino, kind in l:
                m.setdefault(blk, []).append(('inode', ino, kind))
        return m, [c for c in sc['complaints'] if c.rule.startswith('R1')]

    def metadata_blocks(self):
        """dict blk -> kind for every block that holds metadata (everything except file data)."""
        sc = self._scan()
        m = {}
        for blk, (kind, g) in self.fixed_metadata().items():
            m[blk] = kind
        for blk, l in sc['owners'].items():
            for ino, kind in l:
                if kind not in ('data', 'badblock'):
                    m.setdefault(blk, kind)
        return m

    def uninit_groups(self):
        """{'block': [groups with BLOCK_UNINIT], 'inode': [groups with INODE_UNINIT]}"""
        r = {'block': [], 'inode': []}
        for g in range(self.group_count):
            fl = self.group_flags(g)
            if fl & BG_BLOCK_UNINIT:
                r['block'].append(g)
            if fl & BG_INODE_UNINIT:
                r['inode'].append(g)
        return r


def main(argv):
    import time
    if len(argv) < 2:
        print('usage: refext4.py image [--digest] [--tree]')
        return 2
    t0 = time.time()
    fs = RefFS(argv[1])
    if '--tree' in argv:
        for p, e in sorted(fs.tree().items()):
            print(e.ino, oct(e.inode.mode), e.inode.size, p)
    if '--digest' in argv:
        print(fs.tree_digest()[0])
    cl = fs.check()
    for c in cl:
        print(c)
    print('%d complaint(s), %.3f s' % (len(cl), time.time() - t0))
    return 1 if cl else 0


if __name__ == '__main__':
    import sys
    sys.exit(main(sys.argv))
