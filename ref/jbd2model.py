"""jbd2model — an independent JBD2 log writer and the reference semantics of recovery.

Written from the on-disk format (NOTES.md "JBD2 on-disk facts"); shares no code with
e2fsck/recovery.c, lib/ext2fs/kernel-jbd.h or debugfs's journal writer.

The *writer* produces the stream of journal-block writes of T transactions; the *model* says,
from the writer's own knowledge of what it logged and of which writes reached the medium,
what every filesystem block must contain after recovery:

    a block equals its image in the last committed transaction that logged it, unless a revoke
    record for it sits in a committed transaction with sequence >= that transaction; blocks that
    appear only in uncommitted transactions are untouched; replay stops at the first transaction
    that is not completely on the medium.
"""
import ctypes
import os
import struct

MAGIC = 0xC03B3998
BT_DESCRIPTOR, BT_COMMIT, BT_SBV1, BT_SBV2, BT_REVOKE = 1, 2, 3, 4, 5
FLAG_ESCAPE, FLAG_SAME_UUID, FLAG_DELETED, FLAG_LAST_TAG = 1, 2, 4, 8
INCOMPAT_REVOKE, INCOMPAT_64BIT, INCOMPAT_ASYNC_COMMIT, INCOMPAT_CSUM_V2, INCOMPAT_CSUM_V3 = 1, 2, 4, 8, 0x10
COMPAT_CHECKSUM = 1

# ----------------------------------------------------------------------------- CRCs
_T32C = []
for _i in range(256):
    _c = _i
    for _ in range(8):
        _c = (_c >> 1) ^ (0x82F63B78 if _c & 1 else 0)
    _T32C.append(_c)
_TBE = []
for _i in range(256):
    _c = _i << 24
    for _ in range(8):
        _c = ((_c << 1) ^ 0x04C11DB7) & 0xFFFFFFFF if _c & 0x80000000 else (_c << 1) & 0xFFFFFFFF
    _TBE.append(_c)

_lib = None
for _p in (os.path.join(os.path.dirname(os.path.abspath(__file__)), "librefcrc.so"),):
    if os.path.exists(_p):
        try:
            _lib = ctypes.CDLL(_p)
            _lib.ref_crc32c.restype = ctypes.c_uint32
            _lib.ref_crc32c.argtypes = [ctypes.c_uint32, ctypes.c_char_p, ctypes.c_size_t]
            _lib.ref_crc32_be.restype = ctypes.c_uint32
            _lib.ref_crc32_be.argtypes = [ctypes.c_uint32, ctypes.c_char_p, ctypes.c_size_t]
        except Exception:
            _lib = None


def crc32c(crc, data):
    if _lib is not None:
        return _lib.ref_crc32c(crc & 0xFFFFFFFF, bytes(data), len(data))
    for b in data:
        crc = _T32C[(crc ^ b) & 0xFF] ^ (crc >> 8)
    return crc & 0xFFFFFFFF


def crc32_be(crc, data):
    if _lib is not None:
        return _lib.ref_crc32_be(crc & 0xFFFFFFFF, bytes(data), len(data))
    for b in data:
        crc = ((crc << 8) & 0xFFFFFFFF) ^ _TBE[((crc >> 24) ^ b) & 0xFF]
    return crc & 0xFFFFFFFF


# ----------------------------------------------------------------------------- journal geometry
class JournalFormat:
    def __init__(self, bits64=False, csum="none", async_commit=False):
        self.bits64 = bits64
        self.csum = csum            # none | v1 | v2 | v3
        self.async_commit = async_commit

    def incompat(self):
        v = INCOMPAT_REVOKE
        if self.bits64:
            v |= INCOMPAT_64BIT
        if self.async_commit:
            v |= INCOMPAT_ASYNC_COMMIT
        if self.csum == "v2":
            v |= INCOMPAT_CSUM_V2
        if self.csum == "v3":
            v |= INCOMPAT_CSUM_V3
        return v

    def compat(self):
        return COMPAT_CHECKSUM if self.csum == "v1" else 0

    def tag_bytes(self):
        if self.csum == "v3":
            return 16
        n = 12
        if self.csum == "v2":
            n += 2
        if not self.bits64:
            n -= 4
        return n

    def name(self):
        return "%s/%s%s" % ("64" if self.bits64 else "32", self.csum, "/async" if self.async_commit else "")


class Txn:
    def __init__(self, seq):
        self.seq = seq
        self.blocks = []        # (fsblock, data)   in log order
        self.revokes = []       # fsblock numbers
        self.committed = True   # writer intends to write a commit block
        self.writes = []        # filled by the writer: list of (journal position, bytes, role)


class JournalWriter:
    """Lays transactions into a journal of `maxlen` blocks (positions first..maxlen-1 usable)."""

    def __init__(self, bs, maxlen, first, uuid, fmt, start, seq0, commit_time0=1000):
        self.bs, self.maxlen, self.first, self.uuid, self.fmt = bs, maxlen, first, uuid, fmt
        self.pos = start
        self.start = start
        self.seq0 = seq0
        self.seed = crc32c(0xFFFFFFFF, uuid)
        self.commit_time0 = commit_time0
        self.wrapped = 0

    def _next(self):
        p = self.pos
        self.pos += 1
        if self.pos >= self.maxlen:
            self.pos = self.first
            self.wrapped += 1
        return p

    def _hdr(self, bt, seq):
        return struct.pack(">III", MAGIC, bt, seq & 0xFFFFFFFF)

    def _tail(self, d):
        if self.fmt.csum in ("v2", "v3"):
            d[self.bs - 4:self.bs] = b"\0\0\0\0"
            d[self.bs - 4:self.bs] = struct.pack(">I", crc32c(self.seed, bytes(d)))

    def tags_per_descriptor(self):
        room = self.bs - 12 - (4 if self.fmt.csum in ("v2", "v3") else 0)
        # the first tag is followed by the 16-byte UUID
        return max(1, (room - 16) // self.fmt.tag_bytes())

    def write_txn(self, t, max_tags=None):
        """Append the blocks of transaction t to t.writes (revoke blocks, descriptor+data, commit)."""
        fmt = self.fmt
        out = []
        crc_all = 0xFFFFFFFF      # v1: crc32_be over descriptor and data blocks as they sit in the log
        # revoke records first (jbd2 writes them at the start of the commit)
        per = (self.bs - 16 - (4 if fmt.csum in ("v2", "v3") else 0)) // (8 if fmt.bits64 else 4)
        rv = list(t.revokes)
        while rv:
            chunk, rv = rv[:per], rv[per:]
            d = bytearray(self.bs)
            d[0:12] = self._hdr(BT_REVOKE, t.seq)
            off = 16
            for b in chunk:
                if fmt.bits64:
                    d[off:off + 8] = struct.pack(">Q", b)
                    off += 8
                else:
                    d[off:off + 4] = struct.pack(">I", b & 0xFFFFFFFF)
                    off += 4
            d[12:16] = struct.pack(">I", off)
            self._tail(d)
            out.append((self._next(), bytes(d), "revoke"))
        items = list(t.blocks)
        cap = min(max_tags or 10 ** 9, self.tags_per_descriptor())
        while items:
            chunk, items = items[:cap], items[cap:]
            d = bytearray(self.bs)
            d[0:12] = self._hdr(BT_DESCRIPTOR, t.seq)
            off = 12
            datas = []
            for i, (blk, data) in enumerate(chunk):
                flags = 0
                data = bytearray(data)
                if data[0:4] == struct.pack(">I", MAGIC):
                    flags |= FLAG_ESCAPE
                    data[0:4] = b"\0\0\0\0"
                if i > 0:
                    flags |= FLAG_SAME_UUID
                if i == len(chunk) - 1:
                    flags |= FLAG_LAST_TAG
                c = crc32c(crc32c(self.seed, struct.pack(">I", t.seq & 0xFFFFFFFF)), bytes(data))
                if fmt.csum == "v3":
                    tag = struct.pack(">IIII", blk & 0xFFFFFFFF, flags, (blk >> 32) if fmt.bits64 else 0, c)
                else:
                    tag = struct.pack(">IHH", blk & 0xFFFFFFFF, (c & 0xFFFF) if fmt.csum == "v2" else 0, flags)
                    if fmt.bits64:
                        tag += struct.pack(">I", blk >> 32)
                    if fmt.csum == "v2":
                        tag += b"\0\0"
                assert len(tag) == fmt.tag_bytes(), (len(tag), fmt.tag_bytes())
                d[off:off + len(tag)] = tag
                off += len(tag)
                if i == 0:
                    d[off:off + 16] = self.uuid
                    off += 16
                datas.append(bytes(data))
            self._tail(d)
            out.append((self._next(), bytes(d), "descriptor"))
            crc_all = crc32_be(crc_all, bytes(d))
            for x in datas:
                out.append((self._next(), x, "data"))
                crc_all = crc32_be(crc_all, x)
        if t.committed:
            d = bytearray(self.bs)
            d[0:12] = self._hdr(BT_COMMIT, t.seq)
            d[0x30:0x38] = struct.pack(">Q", self.commit_time0 + ((t.seq - self.seq0) & 0xFFFFFFFF) * 5)
            if fmt.csum == "v1":
                d[12] = 1      # h_chksum_type  crc32
                d[13] = 4      # h_chksum_size
                d[16:20] = struct.pack(">I", crc_all)
            elif fmt.csum in ("v2", "v3"):
                d[16:20] = struct.pack(">I", crc32c(self.seed, bytes(d)))
            out.append((self._next(), bytes(d), "commit"))
        t.writes = out
        return out


def make_jsb(old_jsb, bs, fmt, start, seq0, maxlen=None):
    """Journal superblock (1024 bytes of a block) announcing a log that starts at `start` with seq0."""
    j = bytearray(old_jsb)
    j[4:8] = struct.pack(">I", BT_SBV2)
    j[0x18:0x1C] = struct.pack(">I", seq0 & 0xFFFFFFFF)
    j[0x1C:0x20] = struct.pack(">I", start)
    j[0x24:0x28] = struct.pack(">I", fmt.compat())
    j[0x28:0x2C] = struct.pack(">I", fmt.incompat())
    j[0x2C:0x30] = struct.pack(">I", 0)
    if fmt.csum in ("v2", "v3"):
        j[0x50] = 4     # JBD2_CRC32C_CHKSUM
        j[0xFC:0x100] = b"\0\0\0\0"
        j[0xFC:0x100] = struct.pack(">I", crc32c(0xFFFFFFFF, bytes(j[:1024])))
    else:
        j[0x50] = 0
        j[0xFC:0x100] = b"\0\0\0\0"
    return bytes(j)


def parse_jsb(b):
    f = lambda o: struct.unpack_from(">I", b, o)[0]
    return {"magic": f(0), "blocktype": f(4), "blocksize": f(0xC), "maxlen": f(0x10), "first": f(0x14),
            "sequence": f(0x18), "start": f(0x1C), "errno": f(0x20), "compat": f(0x24), "incompat": f(0x28),
            "uuid": bytes(b[0x30:0x40]), "nr_users": f(0x40)}


# ----------------------------------------------------------------------------- reference semantics
def expected_blocks(txns, complete):
    """{fsblock: bytes} that recovery must have written.

    txns     : list of Txn in log order (consecutive sequence numbers)
    complete : complete[i] is True when every block of transaction i, including its commit
               block, is on the medium.  Recovery stops at the first transaction that is not.
    Also returns the set of blocks that must NOT have been written (logged only in transactions
    that are not replayed, or revoked)."""
    good = []
    for t, ok in zip(txns, complete):
        if not (ok and t.committed):
            break
        good.append(t)
    # order by position in the log, not by the 32-bit sequence number (which may wrap)
    max_revoke = {}
    for i, t in enumerate(good):
        for b in t.revokes:
            max_revoke[b] = max(max_revoke.get(b, -1), i)
    exp = {}
    for i, t in enumerate(good):
        for b, data in t.blocks:
            if max_revoke.get(b, -1) >= i:
                continue
            exp[b] = data
    untouched = set()
    for t in txns:
        for b, _d in t.blocks:
            if b not in exp:
                untouched.add(b)
        for b in t.revokes:
            if b not in exp:
                untouched.add(b)
    return exp, untouched, len(good)
