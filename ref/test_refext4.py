#!/usr/bin/env python3
"""Validation of refext4.py against file systems produced by the in-tree e2fsprogs build.

  python3 test_refext4.py [gen] [corpus] [sens] [timing] [-k] [-v]

Without arguments all parts run.  Exit status is non-zero when any expectation fails.
The e2fsprogs tools are used here ONLY to create images and as the cross-check; refext4 itself
never calls them.  Scratch files live under /dev/shm/refext4-scratch and are removed at the end
unless -k is given.
"""
import os
import re
import sys
import glob
import gzip
import time
import random
import shutil
import struct
import hashlib
import subprocess

HERE = os.path.dirname(os.path.abspath(__file__))
sys.path.insert(0, HERE)
import refext4                                     # noqa: E402
from refext4 import RefFS, FormatError, crc32c     # noqa: E402

SCR = '/dev/shm/refext4-scratch'
REPO = '/repo'
MKE2FS = REPO + '/misc/mke2fs'
DEBUGFS = REPO + '/debugfs/debugfs'
E2FSCK = REPO + '/e2fsck/e2fsck'
TUNE2FS = REPO + '/misc/tune2fs'
ENV = dict(os.environ, MKE2FS_CONFIG='/dev/null', E2FSPROGS_SKIP_PROGRESS='yes', LC_ALL='C')
VERBOSE = '-v' in sys.argv

failures = []


def fail(msg):
    failures.append(msg)
    print('FAIL:', msg)


def run(cmd, timeout=120, **kw):
    for attempt in range(6):
        try:
            return subprocess.run(cmd, env=ENV, capture_output=True, timeout=timeout, **kw)
        except (PermissionError, OSError):
            # somebody may be relinking the in-tree tools; wait and retry
            if attempt == 5:
                raise
            time.sleep(3)


def fsck_n(img):
    """(clean, rc, output).  clean = exit 0 and e2fsck asked nothing / ignored nothing."""
    out = img + '.fsck'
    try:
        r = subprocess.run('ulimit -f 40000; %s -fn %s > %s 2>&1' % (E2FSCK, img, out), shell=True, env=ENV, timeout=60)
        rc = r.returncode
    except subprocess.TimeoutExpired:
        rc = 99
    txt = open(out, 'rb').read(1 << 20).decode('latin1')
    lines = [l for l in txt.split('\n') if img not in l and 'Optimize? no' not in l]
    t2 = '\n'.join(lines)
    clean = rc == 0 and '? no' not in t2 and 'IGNORED' not in t2 and 'Superblock invalid' not in t2 \
        and 'superblock is corrupt' not in t2
    return clean, rc, txt


# ----------------------------------------------------------------------------- host material

def make_host_material():
    d = SCR + '/host'
    if os.path.exists(d):
        shutil.rmtree(d)
    os.makedirs(d)
    rnd = random.Random(4711)
    files = {}

    def w(name, data):
        with open(os.path.join(d, name), 'wb') as f:
            f.write(data)
        files[name] = data

    w('small.txt', b'hello, world\n')
    w('tiny', b'x' * 40)                                # fits i_block when inline_data
    w('mid', bytes(rnd.randrange(256) for _ in range(150)))   # inline: i_block + system.data
    w('empty', b'')
    w('blk3', rnd.randbytes(3000))
    w('big', rnd.randbytes(700 * 1024))                 # double indirect at 1k/2k, single at 4k
    w('frag', rnd.randbytes(800 * 1024))                # punched into many extents later
    # sparse source: data, zeros, data (the zero blocks become holes in the image)
    w('sparse', rnd.randbytes(20000) + bytes(300000) + rnd.randbytes(5000) + bytes(100000) + b'end')
    w('xattr_big', rnd.randbytes(600))
    w('xattr_huge', rnd.randbytes(5000))
    # one block of data behind a 70 MB hole: needs a triple indirect block at 1k
    with open(os.path.join(d, 'farblock'), 'wb') as f:
        f.seek(70 * 1024 * 1024)
        f.write(b'far away')
    # tree for mke2fs -d
    t = SCR + '/hosttree'
    if os.path.exists(t):
        shutil.rmtree(t)
    os.makedirs(t + '/sub/deeper/deepest')
    os.makedirs(t + '/bigdir')
    with open(t + '/sub/file_a', 'wb') as f:
        f.write(rnd.randbytes(12345))
    with open(t + '/sub/deeper/file_b', 'wb') as f:
        f.write(b'B' * 77)
    os.link(t + '/sub/file_a', t + '/sub/deeper/deepest/hardlink_a')
    os.symlink('file_a', t + '/sub/rel_link')
    os.chmod(t + '/sub/file_a', 0o4751)
    os.chown(t + '/sub/deeper/file_b', 1234, 5678)
    os.utime(t + '/sub/deeper/file_b', (1000000000, 1100000000))
    with open(t + '/bigdir/target', 'wb') as f:
        f.write(b'link target\n')
    return d, t


def fill_bigdir(t, n):
    """n names of 40 characters, all hard links to one file (cheap in inodes)."""
    bd = t + '/bigdir'
    for f in os.listdir(bd):
        if f != 'target':
            os.unlink(bd + '/' + f)
    for k in range(n):
        os.link(bd + '/target', bd + '/%s_%035d' % ('name', k * 7919))
    # a few names with bytes >= 0x80 to exercise the signed/unsigned char hashes
    for k in range(20):
        os.link(bd + '/target', (bd + '/').encode() + ('né€ü_%d' % k).encode('utf-8'))


# ----------------------------------------------------------------------------- configurations

BASE4 = 'extent,64bit,flex_bg,metadata_csum,dir_index,filetype,ext_attr,huge_file,dir_nlink,extra_isize,' \
        'sparse_super,large_file,has_journal,resize_inode'
BASE3 = 'dir_index,filetype,ext_attr,sparse_super,large_file,has_journal,resize_inode'
BASE2 = 'filetype,sparse_super,ext_attr'


def configs():
    c = []

    def add(name, feats, bs, isz, size='16M', extra=(), nlinks=3000, **kw):
        c.append(dict(name=name, feats=feats, bs=bs, isz=isz, size=size, extra=list(extra), nlinks=nlinks, **kw))

    for bs in (1024, 2048, 4096):
        for isz in (128, 256, 512):
            add('ext4_b%d_i%d' % (bs, isz), BASE4, bs, isz, size='24M' if bs == 4096 else '16M')
    add('ext4_inline_1k', BASE4 + ',inline_data', 1024, 256)
    add('ext4_inline_4k', BASE4 + ',inline_data', 4096, 256, size='24M')
    add('ext4_inline_i512', BASE4 + ',inline_data', 2048, 512)
    add('ext4_ea_inode', BASE4 + ',ea_inode', 1024, 256)
    add('ext4_ea_inode_4k', BASE4 + ',ea_inode,inline_data', 4096, 256, size='24M')
    add('ext4_no64', BASE4.replace('64bit,', ''), 1024, 256)
    add('ext4_no64_4k', BASE4.replace('64bit,', ''), 4096, 128, size='24M')
    add('ext4_noflex', BASE4.replace('flex_bg,', ''), 1024, 256)
    add('ext4_nocsum', BASE4.replace('metadata_csum,', ''), 1024, 256)
    add('ext4_uninit', BASE4.replace('metadata_csum', 'uninit_bg'), 1024, 256)
    add('ext4_uninit_no64', BASE4.replace('metadata_csum', 'uninit_bg').replace('64bit,', ''), 2048, 256)
    add('ext4_uninit_noflex', BASE4.replace('metadata_csum', 'uninit_bg').replace('flex_bg,', ''), 1024, 128)
    add('ext4_nojournal', BASE4.replace(',has_journal', ''), 1024, 256)
    add('ext4_nodirindex', BASE4.replace('dir_index,', ''), 1024, 256)
    add('ext4_nohuge', BASE4.replace('huge_file,', ''), 2048, 256)
    add('ext4_noextent', BASE4.replace('extent,', '').replace('64bit,', ''), 1024, 256)
    add('ext4_metabg', BASE4.replace(',resize_inode', '') + ',meta_bg', 1024, 256, size='40M')
    add('ext4_metabg_4k', BASE4.replace(',resize_inode', '') + ',meta_bg', 4096, 256, size='40M',
        extra=['-g', '4096'])
    add('ext4_metabg_no64', BASE4.replace(',resize_inode', '').replace('64bit,', '') + ',meta_bg', 1024, 128, size='40M')
    add('ext4_bigalloc', BASE4.replace(',resize_inode', '') + ',bigalloc', 1024, 256, size='48M', extra=['-C', '16384'],
        nlinks=1500)
    add('ext4_bigalloc_4k', BASE4.replace(',resize_inode', '') + ',bigalloc', 4096, 256, size='64M', extra=['-C', '16384'],
        nlinks=1500)
    add('ext4_bigalloc_nocsum', BASE4.replace(',resize_inode', '').replace('metadata_csum,', '') + ',bigalloc', 2048, 256,
        size='48M', extra=['-C', '16384'], nlinks=1500)
    add('ext4_sparse2', BASE4 + ',sparse_super2', 1024, 256, size='40M')
    add('ext4_sparse2_one', BASE4 + ',sparse_super2', 1024, 256, size='40M',
        extra=['-E', 'num_backup_sb=1'])
    add('ext4_sparse2_none', BASE4 + ',sparse_super2', 4096, 256, size='40M',
        extra=['-E', 'num_backup_sb=0'])
    add('ext4_nosparse', BASE4.replace('sparse_super,', '').replace(',resize_inode', ''), 1024, 256, size='40M')
    add('ext4_quota', BASE4 + ',quota', 1024, 256)
    add('ext4_quota_prj', BASE4 + ',quota,project', 4096, 256, size='24M', extra=['-E', 'quotatype=usrquota:grpquota:prjquota'])
    add('ext4_mmp', BASE4 + ',mmp', 4096, 256, size='24M', extra=['-E', 'mmp_update_interval=1'])
    add('ext4_csum_seed', BASE4 + ',metadata_csum_seed', 1024, 256)
    add('ext4_orphan_file', BASE4 + ',orphan_file', 1024, 256)
    add('ext4_large_dir', BASE4 + ',large_dir', 1024, 256, hugesparse=True)
    add('ext4_all', BASE4 + ',inline_data,ea_inode,quota,mmp,metadata_csum_seed,orphan_file,large_dir', 1024, 256,
        extra=['-E', 'mmp_update_interval=1'])
    add('ext4_stride', BASE4, 4096, 256, size='32M', extra=['-E', 'stride=4,stripe_width=8', '-G', '4'])
    add('ext4_smallgroups', BASE4, 1024, 256, size='16M', extra=['-g', '1024', '-G', '2'])
    add('ext4_lazy', BASE4, 1024, 256, size='32M', extra=['-E', 'lazy_itable_init=1', '-N', '8192'])
    add('ext3_1k', BASE3, 1024, 128, tind=True)
    add('ext3_4k', BASE3, 4096, 256, size='24M')
    add('ext3_2k_i512', BASE3, 2048, 512)
    add('ext3_metabg', BASE3.replace(',resize_inode', '') + ',meta_bg', 1024, 128, size='40M')
    add('ext3_nodirindex', BASE3.replace('dir_index,', ''), 1024, 128)
    add('ext2_1k', BASE2, 1024, 128, tind=True)
    add('ext2_4k', BASE2, 4096, 128, size='24M')
    add('ext2_nosparse_rev0', 'none', 1024, 128, nlinks=500, rev0=True)
    add('ext2_hash_legacy', BASE3, 1024, 128, hash_alg='legacy')
    add('ext2_hash_tea', BASE3, 1024, 128, hash_alg='tea')
    add('ext4_hash_tea_unsigned', BASE4, 1024, 256, hash_alg='tea', unsigned_hash=True)
    add('ext4_hash_legacy_unsigned', BASE4, 1024, 256, hash_alg='legacy', unsigned_hash=True)
    add('ext4_hash_md4_unsigned', BASE4, 1024, 256, unsigned_hash=True)
    return c


def has(cfg, f):
    return f in cfg['feats'].split(',')


def build_image(cfg, hostd, hostt):
    img = '%s/gen_%s.img' % (SCR, cfg['name'])
    if os.path.exists(img):
        os.unlink(img)
    fill_bigdir(hostt, cfg['nlinks'])
    cmd = [MKE2FS, '-q', '-F', '-b', str(cfg['bs']), '-I', str(cfg['isz']), '-d', hostt]
    if cfg['feats'] != 'none':
        # mke2fs has built-in base features even with an empty config file: switch off what is not asked for
        fl = cfg['feats'].split(',')
        neg = ['^' + f for f in ('sparse_super', 'large_file', 'filetype', 'resize_inode', 'dir_index') if f not in fl]
        cmd += ['-O', ','.join(fl + neg)]
    else:
        cmd += ['-O', 'none']
    cmd += cfg['extra'] + [img, cfg['size']]
    r = run(cmd)
    if r.returncode != 0:
        return None, 'mke2fs failed: ' + r.stderr.decode('latin1')[-300:]
    if cfg.get('rev0'):
        run([DEBUGFS, '-w', '-R', 'ssv rev_level 0', img])
    if cfg.get('hash_alg'):
        run([DEBUGFS, '-w', '-R', 'ssv def_hash_version %s' % cfg['hash_alg'], img])
    if cfg.get('unsigned_hash'):
        # flip the directory-hash signedness flag before anything is hashed into an index
        run([DEBUGFS, '-w', '-R', 'ssv flags 2', img])
    bs = cfg['bs']
    s = []
    a = s.append
    a('mkdir /d1')
    a('mkdir /d1/d2')
    a('mkdir /d1/d2/d3')
    a('mkdir /emptydir')
    for n in ('small.txt', 'tiny', 'mid', 'empty', 'blk3', 'big', 'sparse'):
        a('write %s/%s /%s' % (hostd, n, n))
    a('write %s/frag /d1/frag' % hostd)
    a('write %s/blk3 /d1/d2/d3/deep_file' % hostd)
    # fragment: punch every other block of the first 450 blocks (>= 225 extents)
    for k in range(1, 900, 2):
        a('punch /d1/frag %d %d' % (k, k))
    a('punch /big 5 9')
    a('punch /big 300 310')
    if has(cfg, 'extent'):
        a('write %s/small.txt /falloc' % hostd)
        a('fallocate /falloc 0 99')
        a('write %s/blk3 /falloc2' % hostd)
        a('fallocate /falloc2 10 40')
    if cfg.get('tind'):
        a('write %s/farblock /farblock' % hostd)
    if cfg.get('hugesparse'):
        a('write %s/blk3 /hugesparse' % hostd)
        a('sif /hugesparse size 3221225472')
    a('symlink /fastlink short/target')
    a('symlink /slowlink %s' % ('/'.join(['a_rather_long_component'] * 6)))
    a('symlink /d1/link59 %s' % ('x' * 59))
    a('symlink /d1/link60 %s' % ('y' * 60))
    a('mknod /fifo p')
    a('mknod /chardev c 4 65')
    a('mknod /blkdev b 259 70000')
    a('ln /small.txt /d1/hard1')
    a('ln /small.txt /d1/d2/hard2')
    a('sif /small.txt links_count 3')
    a('sif /small.txt uid 100000')
    a('sif /small.txt gid 70000')
    a('sif /blk3 mode 0106755')
    a('sif /d1 mode 041777')
    a('sif /blk3 mtime 1234567890')
    if has(cfg, 'ext_attr'):
        a('ea_set /small.txt user.short value1')
        a('ea_set /small.txt security.selinux system_u:object_r:unlabeled_t:s0')
        a('ea_set /small.txt trusted.t tval')
        a('ea_set -f %s/xattr_big /blk3 user.big' % hostd)
        a('ea_set /blk3 user.second 2')
        a('ea_set /d1 user.dirattr on_a_directory')
        a('ea_set /fastlink trusted.on_symlink yes')
        a('ea_set -f %s/xattr_big /mid user.with_inline_file' % hostd)
        a('ea_set /tiny user.t 1')
        if has(cfg, 'ea_inode'):
            a('ea_set -f %s/xattr_huge /big user.huge' % hostd)
            a('ea_set -f %s/xattr_huge /sparse user.huge2' % hostd)
    for k in range(40):
        a('mkdir /d1/d2/sub%02d' % k)
    for k in range(60):
        a('write %s/tiny /d1/d2/d3/f%03d' % (hostd, k))
    open(img + '.script', 'w').write('\n'.join(s) + '\n')
    r = run([DEBUGFS, '-w', '-f', img + '.script', img], timeout=600)
    if r.returncode != 0:
        return None, 'debugfs populate failed'
    # convert to htree / tidy up whatever debugfs left (e.g. link counts after ln)
    r = run([E2FSCK, '-fyD', img])
    if r.returncode not in (0, 1):
        return None, 'e2fsck -fyD rc %d: %s' % (r.returncode, (r.stdout + r.stderr).decode('latin1')[-400:])
    if has(cfg, 'quota'):
        # observed: after -fyD the quota files lag behind by the directory blocks the rehash freed; a second run settles it
        run([E2FSCK, '-fy', img])
    return img, None


# ----------------------------------------------------------------------------- cross checks with debugfs

def debugfs_batch(img, cmds):
    """Run commands through one debugfs process; return list of outputs (bytes), one per command."""
    script = img + '.q'
    with open(script, 'w', encoding='latin1') as f:
        for c in cmds:
            f.write(c + '\n')
    r = run([DEBUGFS, '-f', script, img], timeout=300)
    outs = []
    cur = None
    for line in r.stdout.split(b'\n'):
        if line.startswith(b'debugfs: '):
            if cur is not None:
                outs.append(b'\n'.join(cur))
            cur = []
        elif cur is not None:
            cur.append(line)
    if cur is not None:
        outs.append(b'\n'.join(cur))
    return outs


def qpath(p):
    """Quote a path for debugfs (only simple names are used in generated images)."""
    s = p.decode('latin1')
    return '"' + s + '"' if ' ' in s else s


def cross_check(img, cfg):
    fs = RefFS(img)
    tree = fs.tree()
    if fs.tree_problems:
        fail('%s: tree problems %r' % (cfg['name'], fs.tree_problems[:3]))
    dirs = [p for p, e in tree.items() if fs.is_dir(e.inode)]
    # debugfs cannot take names with non-ASCII bytes reliably through a script file in latin1; it can, bytes pass through
    outs = debugfs_batch(img, ['ls -p %s' % qpath(d) for d in dirs])
    if len(outs) != len(dirs):
        fail('%s: debugfs batch returned %d outputs for %d commands' % (cfg['name'], len(outs), len(dirs)))
        return fs
    n_names = 0
    for d, o in zip(dirs, outs):
        theirs = {}
        for line in o.split(b'\n'):
            f = line.split(b'/')
            if len(f) >= 7 and f[0] == b'':
                ino, mode, uid, gid, name, size = f[1], f[2], f[3], f[4], f[5], f[6]
                if int(ino) == 0:
                    continue          # unused entry (debugfs lists them, too)
                theirs[name] = (int(ino), int(mode, 8), int(uid), int(gid), size)
        mine = {}
        for name, ino, ft, lblk, off in fs.dir_entries(tree[d].inode):
            i = fs.read_inode(ino)
            mine[name] = (ino, i.mode, i.uid, i.gid)
        if set(mine) != set(theirs):
            fail('%s: names in %r differ: only mine %r only debugfs %r' % (
                cfg['name'], d, sorted(set(mine) - set(theirs))[:5], sorted(set(theirs) - set(mine))[:5]))
            continue
        for name in mine:
            n_names += 1
            t = theirs[name]
            if mine[name] != t[:4]:
                fail('%s: %r/%r attributes differ: mine %r debugfs %r' % (cfg['name'], d, name, mine[name], t))
            if name not in (b'.', b'..'):
                p = (d if d != b'/' else b'') + b'/' + name
                i = tree[p].inode
                if t[4] != b'' and not fs.is_dir(i) and int(t[4]) != i.size:
                    fail('%s: %r size mine %d debugfs %s' % (cfg['name'], p, i.size, t[4]))
    # file contents for a sample
    sample = [p for p in (b'/small.txt', b'/tiny', b'/mid', b'/empty', b'/blk3', b'/big', b'/sparse', b'/d1/frag',
                          b'/falloc', b'/falloc2', b'/sub/file_a', b'/d1/d2/d3/f007', b'/slowlink') if p in tree]
    cmds = []
    for k, p in enumerate(sample):
        cmds.append('dump %s %s.dump%d' % (qpath(p), img, k))
    debugfs_batch(img, cmds)
    for k, p in enumerate(sample):
        fn = '%s.dump%d' % (img, k)
        i = tree[p].inode
        try:
            theirs = open(fn, 'rb').read()
        except OSError:
            if fs.is_lnk(i):
                continue
            fail('%s: debugfs dump of %r produced nothing' % (cfg['name'], p))
            continue
        os.unlink(fn)
        mine = fs.read_file(i)
        if fs.has_inline_data(i) and len(theirs) >= len(mine):
            # observed debugfs behaviour: dump/cat of an inline-data file returns the whole inline area
            # (60 bytes or more) instead of i_size bytes; the kernel returns i_size bytes like we do
            theirs = theirs[:len(mine)]
        if mine != theirs:
            fail('%s: content of %r differs (mine %d bytes, debugfs %d bytes)' % (cfg['name'], p, len(mine), len(theirs)))
    # ground truth: what was written must come back (holes read as zeros)
    truth = {b'/farblock': 'farblock', b'/small.txt': 'small.txt', b'/tiny': 'tiny', b'/mid': 'mid', b'/empty': 'empty', b'/blk3': 'blk3',
             b'/sparse': 'sparse', b'/d1/d2/d3/deep_file': 'blk3', b'/d1/d2/d3/f031': 'tiny'}
    for p, hn in truth.items():
        if p in tree:
            want = open(SCR + '/host/' + hn, 'rb').read()
            if fs.read_file(tree[p].inode) != want:
                fail('%s: content of %r differs from what was written' % (cfg['name'], p))
    # symlinks through stat
    links = [p for p, e in tree.items() if fs.is_lnk(e.inode)]
    outs = debugfs_batch(img, ['stat %s' % qpath(p) for p in links])
    for p, o in zip(links, outs):
        m = re.search(rb'Fast link dest: "(.*)"', o)
        if m and m.group(1) != fs.readlink(tree[p].inode):
            fail('%s: fast link %r mine %r debugfs %r' % (cfg['name'], p, fs.readlink(tree[p].inode), m.group(1)))
    # expected structural variety actually present?
    # xattrs
    if has(cfg, 'ext_attr'):
        paths = [p for p in tree if not p.startswith(b'/bigdir/') and not re.match(rb'/d1/d2/(sub|d3/f)', p)]
        outs = debugfs_batch(img, ['ea_list %s' % qpath(p) for p in paths])
        getcmds = []
        expect = []
        for p, o in zip(paths, outs):
            theirs = {}
            for line in o.split(b'\n'):
                m = re.match(rb'^  (\S+) \((\d+)\)', line)
                if m:
                    theirs[m.group(1)] = int(m.group(2))
            mine = fs.xattrs(tree[p].inode)
            mine_cmp = {k: len(v) for k, v in mine.items()}
            if mine_cmp != theirs:
                fail('%s: xattrs of %r differ: mine %r debugfs %r' % (cfg['name'], p, mine_cmp, theirs))
            for k, v in mine.items():
                if k != b'system.data':
                    fn = '%s.ea%d' % (img, len(getcmds))
                    getcmds.append('ea_get -f %s %s %s' % (fn, qpath(p), k.decode('latin1')))
                    expect.append((p, k, v, fn))
        debugfs_batch(img, getcmds)
        for p, k, v, fn in expect:
            try:
                theirs = open(fn, 'rb').read()
                os.unlink(fn)
            except OSError:
                fail('%s: ea_get %r %r produced nothing' % (cfg['name'], p, k))
                continue
            if theirs != v:
                fail('%s: xattr %r of %r differs' % (cfg['name'], k, p))
    return fs, n_names


def kernel_cross_check(img, cfg, fs):
    """Mount read-only with the kernel's ext4 driver and compare its view with ours.  Returns True when it ran."""
    mnt = '/mnt/refext4-x'
    os.makedirs(mnt, exist_ok=True)
    r = subprocess.run(['mount', '-o', 'loop,ro,noload', img, mnt], capture_output=True)
    if r.returncode != 0:
        return False
    try:
        tree = fs.tree()
        dg = fs.tree_digest(skip=())[1]
        seen = set()
        for root, dirs, files in os.walk(mnt.encode()):
            for n in dirs + files:
                full = os.path.join(root, n)
                p = full[len(mnt):]
                seen.add(p)
                if p not in tree:
                    fail('%s: kernel shows %r which tree() lacks' % (cfg['name'], p))
                    continue
                st = os.lstat(full)
                r_ = dg[p]
                i = tree[p].inode
                mine = (i.mode, r_['uid'], r_['gid'], r_['links'], i.mtime)
                # the kernel sign-extends 32-bit timestamps only when the inode has no extra epoch bits; ours are raw
                theirs = (st.st_mode, st.st_uid, st.st_gid, st.st_nlink, int(st.st_mtime) & 0xffffffff)
                if mine != theirs:
                    fail('%s: kernel stat of %r differs: mine %r kernel %r' % (cfg['name'], p, mine, theirs))
                if 'size' in r_ and r_['size'] != st.st_size:
                    fail('%s: kernel size of %r is %d, mine %d' % (cfg['name'], p, st.st_size, r_['size']))
                if 'rdev' in r_ and r_['rdev'] != (os.major(st.st_rdev), os.minor(st.st_rdev)):
                    fail('%s: kernel rdev of %r differs' % (cfg['name'], p))
                if 'target' in r_ and os.readlink(full) != r_['target']:
                    fail('%s: kernel readlink of %r differs' % (cfg['name'], p))
                if 'sha256' in r_ and r_.get('content_mode') != 'summarised' and st.st_size < (200 << 20):
                    h = hashlib.sha256()
                    with open(full, 'rb') as f:
                        while True:
                            b = f.read(1 << 20)
                            if not b:
                                break
                            h.update(b)
                    if h.hexdigest() != r_['sha256']:
                        fail('%s: kernel content of %r differs from ours' % (cfg['name'], p))
                try:
                    kx = {k.encode() if isinstance(k, str) else k: os.getxattr(full, k, follow_symlinks=False)
                          for k in os.listxattr(full, follow_symlinks=False)}
                except OSError:
                    kx = None
                if kx is not None:
                    mx = {k: v for k, v in fs.xattrs(i).items() if k != b'system.data'}
                    if kx != mx:
                        fail('%s: kernel xattrs of %r differ: mine %r kernel %r' % (
                            cfg['name'], p, sorted(mx), sorted(kx)))
        missing = set(tree) - seen - {b'/'}
        if missing:
            fail('%s: kernel does not show %r' % (cfg['name'], sorted(missing)[:5]))
    finally:
        subprocess.run(['umount', mnt], capture_output=True)
    return True


def structure_report(fs):
    """What kinds of structure an image really contains (so the matrix is known to exercise them)."""
    tree = fs.tree()
    r = dict(htree_levels=-1, extent_depth=0, dind=False, tind=False, inline_files=0, inline_dirs=0,
             xattr_ibody=0, xattr_block=0, xattr_inode=0, uninit_ext=0, holes=0, fast=0, slow=0)
    seen = set()
    for p, e in tree.items():
        i = e.inode
        if e.ino in seen:
            continue
        seen.add(e.ino)
        if fs.is_dir(i):
            h = fs.htree(i)
            if h:
                r['htree_levels'] = max(r['htree_levels'], h['indirect_levels'])
        if fs.has_inline_data(i):
            r['inline_dirs' if fs.is_dir(i) else 'inline_files'] += 1
        elif fs.has_block_map(i):
            if i.flags & refext4.FL_EXTENTS:
                r['extent_depth'] = max(r['extent_depth'], struct.unpack_from('<H', i.i_block, 6)[0])
                if any(u for (_l, _p, _n, u) in fs.extents(i)[0]):
                    r['uninit_ext'] += 1
            else:
                ptr = struct.unpack_from('<15I', i.i_block, 0)
                r['dind'] |= bool(ptr[13])
                r['tind'] |= bool(ptr[14])
            hm = fs.hole_map(i)
            if fs.is_reg(i) and (len(hm) > 1 or (hm and hm[0][0] > 0)):
                r['holes'] += 1
        if fs.is_lnk(i):
            r['fast' if fs.is_fast_symlink(i) else 'slow'] += 1
        xl = fs.xattr_layout(i)
        r['xattr_ibody'] += bool(xl['ibody'])
        r['xattr_block'] += bool(xl['block'])
        r['xattr_inode'] += any(x['value_inum'] for x in xl['ibody'] + xl['block'])
    return r


def part_generated():
    print('== part 1: generated file systems')
    hostd, hostt = make_host_material()
    cfgs = configs()
    only = [a[2:] for a in sys.argv if a.startswith('c=')]
    ok = 0
    agg = {}
    kernel_ok = []
    for cfg in cfgs:
        if only and cfg['name'] not in only:
            continue
        t0 = time.time()
        img, err = build_image(cfg, hostd, hostt)
        if img is None:
            fail('%s: could not build: %s' % (cfg['name'], err))
            continue
        tb = time.time() - t0
        clean, rc, txt = fsck_n(img)
        if not clean:
            fail('%s: e2fsck -fn not clean after build (rc %d): %s' % (cfg['name'], rc, txt[-300:]))
            continue
        t0 = time.time()
        fs = RefFS(img)
        cl = fs.check()
        tc = time.time() - t0
        if cl:
            fail('%s: check() complains on a clean image: %s' % (cfg['name'], cl[:4]))
        t0 = time.time()
        fs2 = RefFS(img)
        dg = fs2.tree_digest()
        td = time.time() - t0
        if any('error' in r for r in dg[1].values()):
            fail('%s: tree_digest records carry errors' % cfg['name'])
        try:
            fs3, n_names = cross_check(img, cfg)
        except FormatError as e:
            fail('%s: FormatError during cross check: %s' % (cfg['name'], e))
            continue
        sr = structure_report(fs3)
        if '--no-kernel' not in sys.argv and kernel_cross_check(img, cfg, fs3):
            kernel_ok.append(cfg['name'])
        for k, v in sr.items():
            agg[k] = max(agg.get(k, 0), int(v))
        print('  %-24s ok  build %.1fs check %.2fs digest %.2fs names %d  htree_lvl %d ext_depth %d dind %d inl %d/%d '
              'xa i/b/n %d/%d/%d uninit %d holes %d' % (
                  cfg['name'], tb, tc, td, n_names, sr['htree_levels'], sr['extent_depth'], sr['dind'],
                  sr['inline_files'], sr['inline_dirs'], sr['xattr_ibody'], sr['xattr_block'], sr['xattr_inode'],
                  sr['uninit_ext'], sr['holes']))
        ok += 1
        if '-k' not in sys.argv:
            for f in glob.glob(img + '*'):
                os.unlink(f)
    print('  %d configurations passed; structure maxima over the matrix: %r' % (ok, agg))
    print('  kernel (mount -o loop,ro,noload) agreed on %d of them' % len(kernel_ok))
    if not only:
        if ok < 40:
            fail('fewer than 40 generated file systems validated (%d)' % ok)
        for k, want in (('htree_levels', 1), ('extent_depth', 2), ('dind', 1), ('inline_files', 1), ('inline_dirs', 1),
                        ('xattr_ibody', 1), ('xattr_block', 1), ('xattr_inode', 1), ('uninit_ext', 1), ('holes', 1),
                        ('fast', 1), ('slow', 1), ('tind', 1)):
            if agg.get(k, 0) < want:
                fail('matrix never produced %s >= %d' % (k, want))


# ----------------------------------------------------------------------------- part 2: the e2fsprogs test corpus

def part_corpus():
    print('== part 2: /repo/tests/*/image.gz')
    d = SCR + '/corpus'
    os.makedirs(d, exist_ok=True)
    n_clean = n_dirty = n_flag = n_open = 0
    slow = (0, '')
    missed = []
    for p in sorted(glob.glob(REPO + '/tests/*/image.gz')):
        name = p.split('/')[-2]
        img = '%s/%s.img' % (d, name)
        try:
            with open(img, 'wb') as f:
                f.write(gzip.open(p).read())
        except (OSError, EOFError) as e:
            print('  %s: cannot unpack (%s)' % (name, e))
            continue
        clean, rc, txt = fsck_n(img)
        t0 = time.time()
        try:
            fs = RefFS(img)
            cl = fs.check()
            try:
                fs.tree_digest()
            except FormatError:
                pass
        except FormatError as e:
            cl = [refext4.Complaint('open', str(e))]
            n_open += 1
        except Exception as e:                      # anything else is a robustness failure
            fail('corpus %s: %s: %s' % (name, type(e).__name__, e))
            cl = []
        dt = time.time() - t0
        if dt > slow[0]:
            slow = (dt, name)
        if dt > 10:
            fail('corpus %s: check took %.1fs' % (name, dt))
        if any(c.rule == 'R4.fatal' and 'internal' in c.detail for c in cl):
            fail('corpus %s: internal error surfaced: %s' % (name, [c for c in cl if c.rule == 'R4.fatal']))
        if clean:
            n_clean += 1
            if cl:
                fail('corpus %s: e2fsck -fn clean but check() says %s' % (name, cl[:4]))
        else:
            n_dirty += 1
            if cl:
                n_flag += 1
            else:
                missed.append(name)
        if VERBOSE:
            print('  %-34s e2fsck rc %d clean %d  complaints %d  %.2fs' % (name, rc, clean, len(cl), dt))
        for f in glob.glob(img + '*'):
            os.unlink(f)
    print('  %d images clean for e2fsck -fn: check() silent on all of them unless listed above' % n_clean)
    print('  %d images not clean: check() complains on %d (of which %d could not even be opened); slowest %.2fs (%s)' % (
        n_dirty, n_flag, n_open, slow[0], slow[1]))
    print('  not flagged (outside R1-R5 or judged differently): %s' % ' '.join(missed))


# ----------------------------------------------------------------------------- part 3: sensitivity

class Patch:
    """A mutable copy of an image plus helpers that re-seal checksums after an edit."""

    def __init__(self, base):
        self.d = bytearray(base)
        self.fs = RefFS(data=bytes(base))

    def u16(self, off):
        return struct.unpack_from('<H', self.d, off)[0]

    def u32(self, off):
        return struct.unpack_from('<I', self.d, off)[0]

    def p16(self, off, v):
        struct.pack_into('<H', self.d, off, v & 0xffff)

    def p32(self, off, v):
        struct.pack_into('<I', self.d, off, v & 0xffffffff)

    def boff(self, blk):
        return blk * self.fs.block_size

    def seal_inode(self, ino):
        fs = self.fs
        if not fs.csum:
            return
        off = fs.inode_loc(ino)
        raw = bytearray(self.d[off:off + fs.inode_size])
        gen = struct.unpack_from('<I', raw, 0x64)[0]
        raw[0x7C:0x7E] = b'\0\0'
        wide = fs.inode_size > 128 and struct.unpack_from('<H', raw, 0x80)[0] >= 4
        if wide:
            raw[0x82:0x84] = b'\0\0'
        seed = crc32c(crc32c(fs.csum_seed, struct.pack('<I', ino)), struct.pack('<I', gen))
        c = crc32c(seed, bytes(raw))
        self.p16(off + 0x7C, c & 0xffff)
        if wide:
            self.p16(off + 0x82, c >> 16)

    def iseed(self, ino):
        off = self.fs.inode_loc(ino)
        gen = self.u32(off + 0x64)
        return crc32c(crc32c(self.fs.csum_seed, struct.pack('<I', ino)), struct.pack('<I', gen))

    def seal_gd(self, g):
        fs = self.fs
        off = fs.group_desc(g)['offset']
        raw = bytes(self.d[off:off + fs.desc_size])
        if fs.csum:
            c = crc32c(fs.csum_seed, struct.pack('<I', g))
            c = crc32c(c, raw[:0x1E])
            c = crc32c(c, b'\0\0')
            if fs.desc_size > 32:
                c = crc32c(c, raw[0x20:])
            self.p16(off + 0x1E, c & 0xffff)
        elif fs.has('uninit_bg'):
            c = refext4.crc16(0xffff, fs.sb['s_uuid'])
            c = refext4.crc16(c, struct.pack('<I', g))
            c = refext4.crc16(c, raw[:0x1E])
            if fs.desc_size > 32:
                c = refext4.crc16(c, raw[0x20:])
            self.p16(off + 0x1E, c)

    def seal_bitmaps(self, g):
        fs = self.fs
        gd = fs.group_desc(g)
        off = gd['offset']
        if fs.csum:
            bb = bytes(self.d[self.boff(gd['bg_block_bitmap']):self.boff(gd['bg_block_bitmap']) + fs.clusters_per_group // 8])
            ib = bytes(self.d[self.boff(gd['bg_inode_bitmap']):self.boff(gd['bg_inode_bitmap']) + fs.inodes_per_group // 8])
            cb = crc32c(fs.csum_seed, bb)
            ci = crc32c(fs.csum_seed, ib)
            self.p16(off + 0x18, cb & 0xffff)
            self.p16(off + 0x1A, ci & 0xffff)
            if fs.desc_size >= 64:
                self.p16(off + 0x38, cb >> 16)
                self.p16(off + 0x3A, ci >> 16)
        self.seal_gd(g)

    def seal_dir_leaf(self, ino, pblk):
        fs = self.fs
        if not fs.csum:
            return
        o = self.boff(pblk)
        c = crc32c(self.iseed(ino), bytes(self.d[o:o + fs.block_size - 12]))
        self.p32(o + fs.block_size - 4, c)

    def seal_dx(self, ino, pblk, count_offset):
        fs = self.fs
        if not fs.csum:
            return
        o = self.boff(pblk)
        limit = self.u16(o + count_offset)
        count = self.u16(o + count_offset + 2)
        t = o + count_offset + 8 * limit
        c = crc32c(self.iseed(ino), bytes(self.d[o:o + count_offset + 8 * count]))
        c = crc32c(c, bytes(self.d[t:t + 4]))
        c = crc32c(c, b'\0\0\0\0')
        self.p32(t + 4, c)

    def seal_extent_block(self, ino, pblk):
        fs = self.fs
        if not fs.csum:
            return
        o = self.boff(pblk)
        emax = self.u16(o + 4)
        c = crc32c(self.iseed(ino), bytes(self.d[o:o + 12 + 12 * emax]))
        self.p32(o + 12 + 12 * emax, c)

    def seal_xattr_block(self, blk):
        fs = self.fs
        if not fs.csum:
            return
        o = self.boff(blk)
        buf = bytearray(self.d[o:o + fs.block_size])
        buf[0x10:0x14] = b'\0\0\0\0'
        c = crc32c(crc32c(fs.csum_seed, struct.pack('<Q', blk)), bytes(buf))
        self.p32(o + 0x10, c)

    def set_bit(self, blk_of_bitmap, bit, val):
        o = self.boff(blk_of_bitmap) + bit // 8
        if val:
            self.d[o] |= 1 << (bit % 8)
        else:
            self.d[o] &= ~(1 << (bit % 8)) & 0xff

    def get_bit(self, blk_of_bitmap, bit):
        return (self.d[self.boff(blk_of_bitmap) + bit // 8] >> (bit % 8)) & 1

    def find_dirent(self, dir_ino, name):
        """(pblk, byte offset in image of the entry, lblk)"""
        fs = self.fs
        di = fs.read_inode(dir_ino)
        bm = dict(fs.dir_blocks(di))
        for n, ino, ft, lblk, off in fs.dir_entries(di):
            if n == name:
                return bm[lblk], self.boff(bm[lblk]) + off, lblk
        raise KeyError(name)


def sens_cases(base, kind):
    """Yield (label, expected rule prefix(es), patched bytes).  kind: 'ext4' or 'ext3'."""
    fs0 = RefFS(data=bytes(base))
    t = fs0.tree()
    bs = fs0.block_size

    def P():
        return Patch(base)

    ino_small = t[b'/small.txt'].ino
    ino_blk3 = t[b'/blk3'].ino
    ino_frag = t[b'/d1/frag'].ino
    ino_big = t[b'/big'].ino
    ino_d1 = t[b'/d1'].ino
    ino_d2 = t[b'/d1/d2'].ino
    ino_bigdir = t[b'/bigdir'].ino
    ino_empty = t[b'/emptydir'].ino

    def group_of_ino(fs, ino):
        return (ino - 1) // fs.inodes_per_group

    def blk_group_bit(fs, blk):
        g = fs.group_of_block(blk)
        return g, ((blk - fs.first_data_block) % fs.blocks_per_group) >> fs.cluster_bits

    # -- R2
    p = P()
    fs = p.fs
    # a free block: search group 0's bitmap for a zero bit
    g = 0
    bbm = fs.group_desc(g)['bg_block_bitmap']
    freebit = next(b for b in range(fs.group_blocks(g) - 1, 0, -1) if not p.get_bit(bbm, b))
    p.set_bit(bbm, freebit, 1)
    p.seal_bitmaps(g)
    yield 'block bitmap: free block marked used', ['R2.block_bitmap'], p

    p = P()
    fs = p.fs
    dblk = fs.extents(fs.read_inode(ino_blk3))[0][0][1]
    g, bit = blk_group_bit(fs, dblk)
    p.set_bit(fs.group_desc(g)['bg_block_bitmap'], bit, 0)
    p.seal_bitmaps(g)
    yield 'block bitmap: data block of a file marked free', ['R2.block_bitmap'], p

    for field, off, rule in (('bg_free_blocks_count', 0x0C, 'R2.free_blocks_count'),
                             ('bg_free_inodes_count', 0x0E, 'R2.free_inodes_count'),
                             ('bg_used_dirs_count', 0x10, 'R2.used_dirs_count')):
        p = P()
        o = p.fs.group_desc(0)['offset'] + off
        p.p16(o, p.u16(o) + 1)
        p.seal_gd(0)
        yield '%s + 1' % field, [rule], p

    p = P()
    fs = p.fs
    g = group_of_ino(fs, ino_small)
    ibm = fs.group_desc(g)['bg_inode_bitmap']
    freei = next(b for b in range(fs.inodes_per_group - 1, 0, -1) if not p.get_bit(ibm, b))
    p.set_bit(ibm, freei, 1)
    p.seal_bitmaps(g)
    yield 'inode bitmap: free inode marked used', ['R2.inode_bitmap'], p

    p = P()
    fs = p.fs
    g = group_of_ino(fs, ino_small)
    p.set_bit(fs.group_desc(g)['bg_inode_bitmap'], (ino_small - 1) % fs.inodes_per_group, 0)
    p.seal_bitmaps(g)
    yield 'inode bitmap: in-use inode marked free', ['R2.inode_bitmap'], p

    last = fs0.group_count - 1
    nlast = fs0.group_blocks(last) >> fs0.cluster_bits
    if nlast < fs0.clusters_per_group and not fs0.group_flags(last) & 2:
        p = P()
        p.set_bit(p.fs.group_desc(last)['bg_block_bitmap'], fs0.clusters_per_group - 1, 0)
        p.seal_bitmaps(last)
        yield 'block bitmap padding bit cleared', ['R2.bitmap_padding'], p

    # -- R3
    for ino, what in ((ino_small, 'file'), (ino_d2, 'directory')):
        p = P()
        o = p.fs.inode_loc(ino) + 0x1A
        p.p16(o, p.u16(o) + 1)
        p.seal_inode(ino)
        yield 'links_count + 1 on a %s' % what, ['R3.links'], p

    p = P()
    fs = p.fs
    pblk, eoff, lblk = p.find_dirent(2, b'tiny')
    g = group_of_ino(fs, ino_small)
    ibm = fs.group_desc(g)['bg_inode_bitmap']
    freei = next(b for b in range(fs.inodes_per_group - 1, 0, -1) if not p.get_bit(ibm, b))
    p.p32(eoff, g * fs.inodes_per_group + freei + 1)
    p.seal_dir_leaf(2, pblk)
    yield 'dirent names a free inode', ['R3.entry_unused'], p

    p = P()
    pblk, eoff, lblk = p.find_dirent(2, b'tiny')
    p.p32(eoff, p.fs.inodes_count + 5)
    p.seal_dir_leaf(2, pblk)
    yield 'dirent names an inode beyond s_inodes_count', ['R3.entry_range'], p

    p = P()
    pblk, eoff, lblk = p.find_dirent(ino_empty, b'..')
    p.p32(eoff, ino_d1)
    p.seal_dir_leaf(ino_empty, pblk)
    yield '".." points to the wrong directory', ['R3.dotdot'], p

    p = P()
    pblk, eoff, lblk = p.find_dirent(ino_empty, b'.')
    p.p32(eoff, ino_d1)
    p.seal_dir_leaf(ino_empty, pblk)
    yield '"." points to another inode', ['R3.dot'], p

    p = P()
    pblk, eoff, lblk = p.find_dirent(2, b'blk3')
    p.p32(eoff, 0)
    p.seal_dir_leaf(2, pblk)
    yield 'only entry of a file removed (inode unreachable)', ['R3.unreachable'], p

    p = P()
    o = p.fs.inode_loc(ino_blk3) + 0x14
    p.p32(o, 1234567)
    p.seal_inode(ino_blk3)
    yield 'dtime set on a linked inode', ['R3.entry_unused'], p

    p = P()
    o = p.fs.inode_loc(ino_blk3)
    p.p16(o, 0)
    p.seal_inode(ino_blk3)
    yield 'mode 0 on a linked inode', ['R3.entry_unused'], p

    # -- R4 directory blocks
    p = P()
    pblk, eoff, lblk = p.find_dirent(2, b'tiny')
    p.p16(eoff + 4, p.u16(eoff + 4) + 2)
    p.seal_dir_leaf(2, pblk)
    yield 'rec_len not a multiple of 4', ['R4.dirent'], p

    p = P()
    pblk, eoff, lblk = p.find_dirent(2, b'tiny')
    p.p16(eoff + 4, bs)
    p.seal_dir_leaf(2, pblk)
    yield 'rec_len crosses the block end', ['R4.dirent'], p

    p = P()
    pblk, eoff, lblk = p.find_dirent(2, b'tiny')
    p.d[eoff + 6] = 200
    p.seal_dir_leaf(2, pblk)
    yield 'name_len larger than rec_len allows', ['R4.dirent'], p

    p = P()
    pblk, eoff, lblk = p.find_dirent(2, b'tiny')
    p.p16(eoff + 4, 8)
    p.seal_dir_leaf(2, pblk)
    yield 'rec_len 8 with a 4 character name', ['R4.dirent'], p

    p = P()
    o = p.fs.inode_loc(ino_empty) + 4
    p.p32(o, p.u32(o) + 1)
    p.seal_inode(ino_empty)
    yield 'directory i_size + 1', ['R4.dir_size'], p

    p = P()
    o = p.fs.inode_loc(ino_blk3) + 0x1C
    p.p32(o, p.u32(o) + 2)
    p.seal_inode(ino_blk3)
    yield 'i_blocks + 2', ['R4.i_blocks'], p

    if fs0.csum:
        p = P()
        pblk, eoff, lblk = p.find_dirent(ino_empty, b'.')
        o = p.boff(pblk) + bs - 12
        p.d[o + 7] = 0
        p.p16(o + 4, 12)
        yield 'directory checksum tail turned into a plain empty entry', ['R4.dir_tail'], p

    # -- htree
    h = fs0.htree(fs0.read_inode(ino_bigdir))
    if h:
        bm = dict(fs0.dir_blocks(fs0.read_inode(ino_bigdir)))
        nd = next(n for n in h['nodes'] if n['count'] >= 4)
        p = P()
        o = p.boff(nd['pblk']) + nd['count_offset']
        e1 = bytes(p.d[o + 8:o + 12])
        e2 = bytes(p.d[o + 16:o + 20])
        p.d[o + 8:o + 12] = e2
        p.d[o + 16:o + 20] = e1
        p.seal_dx(ino_bigdir, nd['pblk'], nd['count_offset'])
        yield 'htree: two hashes swapped in an index node', ['R4.htree'], p

        p = P()
        o = p.boff(nd['pblk']) + nd['count_offset']
        p.p16(o + 2, p.u16(o) + 1)
        p.seal_dx(ino_bigdir, nd['pblk'], nd['count_offset'])
        yield 'htree: count > limit', ['R4.htree'], p

        p = P()
        o = p.boff(nd['pblk']) + nd['count_offset']
        p.p16(o, p.u16(o) - 1)
        p.seal_dx(ino_bigdir, nd['pblk'], nd['count_offset'])
        yield 'htree: limit inconsistent with the block size', ['R4.htree'], p

        p = P()
        o = p.boff(bm[0]) + 0x18
        p.d[o + 6] = 1 - h['indirect_levels'] if h['indirect_levels'] in (0, 1) else 0
        p.seal_dx(ino_bigdir, bm[0], 0x20)
        yield 'htree: indirect_levels changed', ['R4.htree'], p

        p = P()
        o = p.boff(bm[0]) + 0x18
        p.d[o + 5] = 12
        p.seal_dx(ino_bigdir, bm[0], 0x20)
        yield 'htree: info_length 12', ['R4.htree'], p

        # move a name to a wrong leaf: rename an entry in the first leaf so that its hash is far away
        lf = sorted(h['leaves'], key=lambda x: x[1])
        first = lf[0]
        if first[2] is not None:
            p = P()
            fs = p.fs
            hv, seed, uns = fs.hash_params(h['hash_version'])
            buf = fs.read_block(bm[first[0]])
            ents = [e for e in fs.parse_dir_block(buf) if e[1] and e[3] >= 8]
            pos, eino, rl, nl, ft, name = ents[0]
            k = 0
            while True:
                nn = name[:-6] + b'%06d' % k
                if refext4.dirhash(nn, hv, seed, uns)[0] > first[2] + 2:
                    break
                k += 1
            o = p.boff(bm[first[0]]) + pos + 8
            p.d[o:o + nl] = nn
            p.seal_dir_leaf(ino_bigdir, bm[first[0]])
            yield 'htree: name whose hash belongs to another leaf', ['R4.htree_hash'], p

        if fs0.csum:
            p = P()
            o = p.boff(nd['pblk']) + nd['count_offset'] + 8 * (nd['count'] - 1) + 4
            p.p32(o, p.u32(o) ^ 0)          # block pointer untouched
            p.d[p.boff(nd['pblk']) + nd['count_offset'] + 8 * nd['limit']] ^= 0x55    # t_reserved is covered
            yield 'htree node: checksummed tail byte flipped', ['R5.htree_node'], p

    # -- R5 (only with metadata_csum) and friends
    if fs0.csum:
        p = P()
        o = p.fs.inode_loc(ino_blk3) + 8
        p.d[o] ^= 1
        yield 'one bit of i_atime flipped, checksum left alone', ['R5.inode'], p

        p = P()
        pblk, eoff, lblk = p.find_dirent(ino_empty, b'..')
        p.d[eoff + 7] ^= 4
        yield 'dirent file_type byte flipped, leaf checksum left alone', ['R5.dir_leaf'], p

        p = P()
        p.d[1024 + 0x34] ^= 1
        yield 'superblock s_mnt_count flipped, checksum left alone', ['R5.superblock'], p

        p = P()
        o = p.fs.group_desc(0)['offset'] + 0x1C
        p.d[o] ^= 1
        yield 'bg_itable_unused flipped, descriptor checksum left alone', ['R5.group_desc'], p

        p = P()
        o = p.fs.group_desc(0)['offset'] + 0x18
        p.d[o] ^= 1
        p.seal_gd(0)
        yield 'bg_block_bitmap_csum_lo flipped', ['R5.block_bitmap'], p

        p = P()
        o = p.fs.group_desc(0)['offset'] + 0x1A
        p.d[o] ^= 1
        p.seal_gd(0)
        yield 'bg_inode_bitmap_csum_lo flipped', ['R5.inode_bitmap'], p

    if fs0.has('has_journal'):
        ji = fs0.read_inode(fs0.sb['s_journal_inum'])
        jb = fs0.extents(ji)[0][0][1]
        jsb = fs0.read_block(jb)
        if struct.unpack_from('>I', jsb, 0x28)[0] & 0x18:
            p = P()
            p.d[p.boff(jb) + 0x14] ^= 1
            yield 'journal superblock s_first flipped, checksum left alone', ['R5.journal_sb'], p
        p = P()
        p.d[p.boff(jb)] ^= 0xff
        yield 'journal superblock magic broken', ['R4.journal'], p

    # -- xattr block
    xi = fs0.read_inode(ino_blk3)
    xl = fs0.xattr_layout(xi)
    if xl['block_nr']:
        xb = xl['block_nr']
        if fs0.csum:
            p = P()
            p.d[p.boff(xb) + bs - 3] ^= 0x10
            yield 'xattr block value byte flipped, checksum left alone', ['R5.xattr_block'], p
        p = P()
        p.p32(p.boff(xb) + 4, xl['h_refcount'] + 1)
        p.seal_xattr_block(xb)
        yield 'xattr block h_refcount + 1', ['R1.xattr_refcount'], p
        p = P()
        p.p32(p.boff(xb), 0xEA030000)
        p.seal_xattr_block(xb)
        yield 'xattr block magic broken', ['R4.xattr'], p
        p = P()
        o = p.fs.inode_loc(ino_blk3) + 0x68
        p.p32(o, p.fs.blocks_count + 7)
        p.seal_inode(ino_blk3)
        yield 'i_file_acl beyond the file system', ['R1.range'], p

    # -- mapping
    if kind == 'ext4':
        fi = fs0.read_inode(ino_frag)
        ext, tree = fs0.extents(fi)
        depth = struct.unpack_from('<H', fi.i_block, 6)[0]
        # find a leaf block with >= 3 entries
        leaf = None
        for b in tree:
            buf = fs0.read_block(b)
            if struct.unpack_from('<H', buf, 6)[0] == 0 and struct.unpack_from('<H', buf, 2)[0] >= 3:
                leaf = b
                break
        if leaf is not None:
            p = P()
            o = p.boff(leaf) + 12
            a = bytes(p.d[o:o + 12])
            b2 = bytes(p.d[o + 12:o + 24])
            p.d[o:o + 12] = b2
            p.d[o + 12:o + 24] = a
            p.seal_extent_block(ino_frag, leaf)
            yield 'two extent entries swapped in a leaf', ['R4.extent'], p

            p = P()
            p.p16(p.boff(leaf), 0xF30B)
            p.seal_extent_block(ino_frag, leaf)
            yield 'extent block magic broken', ['R4.extent'], p

            p = P()
            o = p.boff(leaf)
            p.p16(o + 2, p.u16(o + 4) + 1)
            p.seal_extent_block(ino_frag, leaf)
            yield 'eh_entries > eh_max', ['R4.extent'], p

            p = P()
            o = p.boff(leaf)
            p.p16(o + 6, 1)
            p.seal_extent_block(ino_frag, leaf)
            yield 'eh_depth 1 in a leaf block', ['R4.extent', 'R1.range'], p

            p = P()
            o = p.boff(leaf) + 12 + 12      # second entry
            p.p16(o + 4, 0)
            p.seal_extent_block(ino_frag, leaf)
            yield 'ee_len 0', ['R4.extent'], p

            p = P()
            o = p.boff(leaf) + 12
            l0 = p.u32(o)
            n0 = p.u16(o + 4)
            p.p32(o + 12, l0 + (n0 & 0x7fff) - 1 if (n0 & 0x7fff) > 1 else l0)
            p.seal_extent_block(ino_frag, leaf)
            yield 'second extent overlaps the first logically', ['R4.extent'], p

            p = P()
            o = p.boff(leaf) + 12
            p.p32(o + 8, p.fs.blocks_count - 0)
            p.p16(o + 6, 0)
            p.seal_extent_block(ino_frag, leaf)
            yield 'extent starts at s_blocks_count', ['R1.range'], p

            p = P()
            o = p.boff(leaf) + 12
            p.p32(o + 8, p.fs.group_desc(0)['bg_inode_table'] + 1)
            p.p16(o + 6, 0)
            p.seal_extent_block(ino_frag, leaf)
            yield 'extent points into the inode table', ['R1.overlap_metadata'], p

            p = P()
            o = p.boff(leaf) + 12
            other = p.fs.extents(p.fs.read_inode(ino_blk3))[0][0][1]
            p.p32(o + 8, other)
            p.p16(o + 6, 0)
            p.seal_extent_block(ino_frag, leaf)
            yield 'extent points at a block of another file', ['R1.multiply_claimed'], p

            if fs0.csum:
                p = P()
                p.d[p.boff(leaf) + 8] ^= 1
                yield 'eh_generation flipped in an extent block, checksum left alone', ['R5.extent_block'], p

        if depth >= 1:
            p = P()
            o = p.fs.inode_loc(ino_frag) + 0x28
            p.p16(o + 6, depth + 1)
            p.seal_inode(ino_frag)
            yield 'eh_depth of the root raised by one', ['R4.extent'], p
            p = P()
            o = p.fs.inode_loc(ino_frag) + 0x28
            p.p16(o + 6, 6)
            p.seal_inode(ino_frag)
            yield 'eh_depth 6 in the root', ['R4.extent'], p
            p = P()
            o = p.fs.inode_loc(ino_frag) + 0x28 + 12
            p.p32(o, p.u32(o) + 1)
            p.seal_inode(ino_frag)
            yield 'first index key above the first key of its child', ['R4.extent'], p

        # BLOCK_UNINIT on a group that holds file data
        if fs0._uses_bg_flags():
            p = P()
            fs = p.fs
            g = fs.group_of_block(fs.extents(fs.read_inode(ino_blk3))[0][0][1])
            o = fs.group_desc(g)['offset'] + 0x12
            p.p16(o, p.u16(o) | 2)
            p.seal_gd(g)
            yield 'BLOCK_UNINIT set on a group that holds data', ['R2.block_uninit'], p
    else:
        bi = fs0.read_inode(ino_big)
        ptr = struct.unpack_from('<15I', bi.i_block, 0)
        p = P()
        o = p.fs.inode_loc(ino_big) + 0x28
        p.p32(o + 4 * 3, p.fs.blocks_count + 3)
        p.seal_inode(ino_big)
        yield 'direct block pointer beyond the file system', ['R1.range'], p
        p = P()
        p.p32(p.boff(ptr[12]) + 8, p.fs.blocks_count + 100)
        yield 'pointer in an indirect block beyond the file system', ['R1.range'], p
        p = P()
        other = fs0.extents(fs0.read_inode(ino_blk3))[0][0][1]
        p.p32(p.boff(ptr[12]) + 8, other)
        yield 'pointer in an indirect block names a block of another file', ['R1.multiply_claimed'], p
        if ptr[13]:
            p = P()
            p.p32(p.boff(ptr[13]), ptr[12])
            yield 'double indirect block names the single indirect block', ['R1.multiply_claimed', 'R4.extent'], p
            p = P()
            p.p32(p.boff(ptr[13]) + 4, 0)
            yield 'entry of the double indirect block zeroed (blocks leak)', ['R2.block_bitmap', 'R4.i_blocks'], p
        p = P()
        o = p.fs.inode_loc(ino_big) + 0x28
        p.p32(o + 4 * 2, p.fs.group_desc(0)['bg_inode_bitmap'])
        p.seal_inode(ino_big)
        yield 'direct pointer names an inode bitmap', ['R1.overlap_metadata'], p


def part_sensitivity():
    print('== part 3: sensitivity')
    hostd, hostt = make_host_material()
    bases = []
    for cfg in configs():
        if cfg['name'] in ('ext4_b1024_i256', 'ext3_1k', 'ext4_uninit'):
            img, err = build_image(cfg, hostd, hostt)
            if img is None:
                fail('sensitivity: cannot build %s: %s' % (cfg['name'], err))
                continue
            bases.append((cfg['name'], img, 'ext4' if has(cfg, 'extent') else 'ext3'))
    total = caught = e2_agree = 0
    for name, img, kind in bases:
        base = open(img, 'rb').read()
        if RefFS(data=base).check():
            fail('sensitivity base %s is not clean' % name)
            continue
        for label, rules, p in sens_cases(base, kind):
            total += 1
            data = bytes(p.d)
            t0 = time.time()
            try:
                cl = RefFS(data=data).check()
            except FormatError as e:
                cl = [refext4.Complaint('open', str(e))]
            dt = time.time() - t0
            got = sorted({c.rule for c in cl})
            hit = any(any(c.rule.startswith(r) for r in rules) for c in cl)
            # what does e2fsck think?
            tmp = SCR + '/sens.img'
            with open(tmp, 'wb') as f:
                f.write(data)
            clean, rc, txt = fsck_n(tmp)
            e2_agree += (not clean)
            if label.startswith('block bitmap padding') and clean:
                fail('sensitivity %s: e2fsck -fn does not object to cleared padding; the sub-rule must go' % name)
            if any(c.rule == 'R4.fatal' for c in cl):
                fail('sensitivity %s / %s: fatal %s' % (name, label, [c for c in cl if c.rule == 'R4.fatal']))
            if hit:
                caught += 1
            else:
                fail('sensitivity %s / %s: expected %s, got %s' % (name, label, rules, got or 'nothing'))
            if VERBOSE or not hit:
                print('  %-12s %-62s -> %s  (e2fsck rc %d)' % (name, label, ' '.join(got), rc))
    print('  %d corruptions, %d caught with the expected rule; e2fsck -fn also unhappy on %d' % (total, caught, e2_agree))
    for cfg in configs():
        if cfg['name'] == 'ext4_ea_inode_4k':
            img, err = build_image(cfg, hostd, hostt)
            if img:
                bases.append((cfg['name'], img, 'ext4'))
    part_fuzz(bases)


def part_fuzz(bases, n_per_base=250):
    """Random byte damage in metadata: nothing but FormatError may escape, nothing may hang."""
    rnd = random.Random(20260928)
    worst = 0
    runs = flagged = 0
    for name, img, kind in bases:
        base = open(img, 'rb').read()
        fs0 = RefFS(data=base)
        mb = fs0.metadata_blocks()
        meta = sorted(mb)
        hot = sorted(b for b, k in mb.items() if k in ('dir', 'extent_tree', 'indirect', 'xattr', 'block_bitmap',
                                                       'inode_bitmap', 'gdt', 'quota', 'orphan_file'))
        inodes = sorted({e.ino for e in fs0.tree().values()} | set(fs0.special_inodes()))
        bs = fs0.block_size
        for k in range(n_per_base):
            d = bytearray(base)
            for _ in range(rnd.choice((1, 1, 2, 4))):
                r = rnd.random()
                if r < 0.1:
                    off = 1024 + rnd.randrange(0x110)
                elif r < 0.5:
                    off = fs0.inode_loc(rnd.choice(inodes)) + rnd.randrange(fs0.inode_size)
                elif r < 0.9:
                    off = rnd.choice(hot) * bs + rnd.randrange(bs if rnd.random() < 0.5 else 64)
                else:
                    off = rnd.choice(meta) * bs + rnd.randrange(bs)
                ln = rnd.choice((1, 1, 2, 4, 4, 8, 32))
                mode = rnd.random()
                for j in range(ln):
                    if off + j < len(d):
                        d[off + j] = rnd.randrange(256) if mode < 0.6 else (0xff if mode < 0.8 else 0)
            t0 = time.time()
            runs += 1
            try:
                fs = RefFS(data=bytes(d))
            except FormatError:
                continue
            except Exception as e:
                fail('fuzz %s #%d: open raised %s: %s' % (name, k, type(e).__name__, e))
                continue
            try:
                cl = fs.check()
                flagged += bool(cl)
                bad = [c for c in cl if c.rule == 'R4.fatal' and 'internal' in c.detail]
                if bad:
                    fail('fuzz %s #%d: internal error %s' % (name, k, bad[0].detail))
            except Exception as e:
                fail('fuzz %s #%d: check raised %s: %s' % (name, k, type(e).__name__, e))
            for fn in (lambda: fs.tree_digest(), lambda: fs.owner_map(), lambda: fs.metadata_blocks(),
                       lambda: [fs.xattrs(e.inode) for e in list(fs.tree().values())[:50]],
                       lambda: list(fs.iter_inodes())):
                try:
                    fn()
                except FormatError:
                    pass
                except RecursionError:
                    pass
                except Exception as e:
                    import traceback
                    fail('fuzz %s #%d: accessor raised %s: %s\n%s' % (name, k, type(e).__name__, e, traceback.format_exc()[-600:]))
            worst = max(worst, time.time() - t0)
    print('  fuzz: %d damaged images (%d drew complaints), slowest %.2fs' % (runs, flagged, worst))
    if worst > 10:
        fail('fuzz: one image took %.1fs' % worst)


def part_timing():
    print('== part 4: timing')
    hostd, hostt = make_host_material()
    cfg = dict(name='timing_16M', feats=BASE4 + ',inline_data', bs=4096, isz=256, size='16M', extra=[], nlinks=150)
    img, err = build_image(cfg, hostd, hostt)
    if img is None:
        fail('timing: cannot build: ' + err)
        return
    data = open(img, 'rb').read()
    for so in (True, False):
        if so and not refext4.HAVE_SO:
            continue
        if not so:
            # fall back to the pure Python CRCs
            saved = (refext4.crc32c, refext4.crc16)
            refext4.crc32c, refext4.crc16 = refext4._py_crc32c, refext4._py_crc16
        best_d = best_c = 9e9
        for _ in range(3):
            t0 = time.time()
            fs = RefFS(data=data)
            dg = fs.tree_digest()
            best_d = min(best_d, time.time() - t0)
            t0 = time.time()
            fs = RefFS(data=data)
            cl = fs.check()
            best_c = min(best_c, time.time() - t0)
        n = len(fs.tree())
        print('  16 MiB, %d paths, %s CRC: tree_digest %.3fs  check %.3fs  (complaints %d)' % (
            n, 'librefcrc.so' if so else 'pure Python', best_d, best_c, len(cl)))
        if so:
            if best_d > 0.3:
                fail('tree_digest took %.3fs (> 0.3s)' % best_d)
            if best_c > 1.0:
                fail('check took %.3fs (> 1s)' % best_c)
        else:
            refext4.crc32c, refext4.crc16 = saved


# ----------------------------------------------------------------------------- part 5: what the tools produce

def part_scenarios():
    """Images as the e2fsprogs tools leave them (resize2fs, tune2fs, debugfs edits, odd mke2fs options):
    wherever e2fsck -fn is clean, check() has to be silent."""
    print('== part 5: tool scenarios')
    hostd, hostt = make_host_material()
    fill_bigdir(hostt, 300)
    RESIZE2FS = REPO + '/resize/resize2fs'
    F4 = BASE4
    F4N = BASE4.replace(',resize_inode', '')
    sc = []

    def S(name, mk, steps=(), garbage=False):
        sc.append((name, mk, list(steps), garbage))

    S('grow_1k', ['-b', '1024', '-O', F4, '16M'], [[RESIZE2FS, 'IMG', '40M']])
    S('grow_4k_flex', ['-b', '4096', '-O', F4, '-G', '4', '-g', '2048', '16M'], [[RESIZE2FS, 'IMG', '60M']])
    S('shrink_1k', ['-b', '1024', '-O', F4, '48M'], [[RESIZE2FS, 'IMG', '20M']])
    S('shrink_4k', ['-b', '4096', '-O', F4, '-g', '2048', '60M'], [[RESIZE2FS, 'IMG', '24M']])
    S('grow_no_resize_inode', ['-b', '1024', '-O', F4N + ',^resize_inode', '16M'], [[RESIZE2FS, 'IMG', '60M']])
    S('grow_metabg', ['-b', '1024', '-O', F4N + ',^resize_inode,meta_bg', '16M'], [[RESIZE2FS, 'IMG', '60M']])
    S('grow_ext3', ['-b', '1024', '-O', BASE3, '16M'], [[RESIZE2FS, 'IMG', '50M']])
    S('shrink_ext3', ['-b', '1024', '-O', BASE3, '50M'], [[RESIZE2FS, 'IMG', '18M']])
    S('grow_bigalloc', ['-b', '4096', '-C', '16384', '-O', F4N + ',^resize_inode,bigalloc', '24M'], [[RESIZE2FS, 'IMG', '60M']])
    S('grow_sparse2', ['-b', '1024', '-O', F4 + ',sparse_super2', '16M'], [[RESIZE2FS, 'IMG', '44M']])
    S('shrink_sparse2', ['-b', '1024', '-O', F4 + ',sparse_super2', '44M'], [[RESIZE2FS, 'IMG', '17M']])
    S('resize_to_64bit', ['-b', '4096', '-O', F4.replace('64bit,', ''), '24M'], [[RESIZE2FS, '-b', 'IMG']])
    S('resize_to_32bit', ['-b', '4096', '-O', F4, '24M'], [[RESIZE2FS, '-s', 'IMG']])
    S('resize_min', ['-b', '1024', '-O', F4, '40M'], [[RESIZE2FS, '-M', 'IMG']])
    S('tune_rm_journal', ['-b', '1024', '-O', F4, '16M'], [[TUNE2FS, '-O', '^has_journal', 'IMG']])
    S('tune_add_journal', ['-b', '1024', '-O', F4.replace(',has_journal', ''), '16M'], [[TUNE2FS, '-J', 'size=4', 'IMG']])
    S('tune_inode_size', ['-b', '1024', '-I', '128', '-O', BASE3, '16M'], [[TUNE2FS, '-I', '256', 'IMG']])
    S('tune_add_csum', ['-b', '1024', '-O', F4.replace('metadata_csum,', ''), '16M'], [[TUNE2FS, '-O', 'metadata_csum', 'IMG']])
    S('tune_rm_csum', ['-b', '1024', '-O', F4, '16M'], [[TUNE2FS, '-O', '^metadata_csum', 'IMG']])
    S('tune_csum_to_uninit', ['-b', '1024', '-O', F4, '16M'], [[TUNE2FS, '-O', '^metadata_csum,uninit_bg', 'IMG']])
    S('tune_uuid_csum_seed', ['-b', '1024', '-O', F4, '16M'],
      [[TUNE2FS, '-O', 'metadata_csum_seed', 'IMG'], [TUNE2FS, '-U', '01234567-89ab-cdef-0123-456789abcdef', 'IMG']])
    S('tune_uuid_rewrite', ['-b', '1024', '-O', F4, '16M'], [[TUNE2FS, '-f', '-U', '01234567-89ab-cdef-0123-456789abcdef', 'IMG']])
    S('tune_quota', ['-b', '1024', '-O', F4, '16M'], [[TUNE2FS, '-O', 'quota', 'IMG']])
    S('tune_project', ['-b', '1024', '-O', F4, '16M'], [[TUNE2FS, '-O', 'project', '-Q', 'prjquota', 'IMG']])
    S('tune_extent_on_ext3', ['-b', '1024', '-O', BASE3, '16M'], [[TUNE2FS, '-O', 'extent,huge_file,dir_nlink,uninit_bg', 'IMG']])
    S('tune_rm_flex', ['-b', '1024', '-O', F4, '16M'], [[TUNE2FS, '-O', '^flex_bg', 'IMG']])
    S('tune_rm_resize', ['-b', '1024', '-O', F4, '16M'], [[TUNE2FS, '-O', '^resize_inode', 'IMG'], [E2FSCK, '-fy', 'IMG']])
    S('tune_hash_reindex', ['-b', '1024', '-O', F4, '16M'], [[TUNE2FS, '-E', 'hash_alg=tea', 'IMG'], [E2FSCK, '-fyD', 'IMG']])
    S('tune_orphan_file', ['-b', '1024', '-O', F4, '16M'], [[TUNE2FS, '-O', 'orphan_file', 'IMG']])
    S('tune_mmp', ['-b', '4096', '-O', F4, '24M'], [[TUNE2FS, '-O', 'mmp', '-E', 'mmp_update_interval=1', 'IMG']])
    S('tune_large_dir_ea_inode', ['-b', '1024', '-O', F4, '16M'], [[TUNE2FS, '-O', 'large_dir,ea_inode', 'IMG']])
    S('debugfs_deletes', ['-b', '1024', '-O', F4, '16M'],
      [[DEBUGFS, '-w', '-R', 'rm /sub/file_a', 'IMG'], [DEBUGFS, '-w', '-R', 'kill_file /sub/deeper/file_b', 'IMG'],
       [DEBUGFS, '-w', '-R', 'unlink /sub/rel_link', 'IMG']])
    S('debugfs_rmdir_expand', ['-b', '1024', '-O', F4, '16M'],
      [[DEBUGFS, '-w', '-R', 'rm /sub/deeper/deepest/hardlink_a', 'IMG'], [DEBUGFS, '-w', '-R', 'rmdir /sub/deeper/deepest', 'IMG'],
       [DEBUGFS, '-w', '-R', 'expand_dir /sub', 'IMG'], [DEBUGFS, '-w', '-R', 'mkdir /sub/new', 'IMG']])
    S('packed_meta', ['-b', '4096', '-O', F4, '-E', 'packed_meta_blocks=1', '32M'])
    S('packed_meta_1k', ['-b', '1024', '-O', F4N + ',^resize_inode', '-E', 'packed_meta_blocks=1', '32M'])
    S('bs8k', ['-b', '8192', '-O', F4, '32M'])
    S('bs16k', ['-b', '16384', '-O', F4, '48M'])
    S('bs64k', ['-b', '65536', '-O', F4, '64M'])
    S('bs64k_ext2', ['-b', '65536', '-O', BASE2, '64M'])
    S('isize1024', ['-b', '4096', '-I', '1024', '-O', F4 + ',inline_data', '24M'])
    S('tiny_fs', ['-b', '1024', '-O', BASE2, '200k'])
    S('tiny_ext4', ['-b', '1024', '-O', F4N + ',^resize_inode,^has_journal', '-N', '400', '2M'])
    S('many_inodes', ['-b', '1024', '-O', F4, '-N', '30000', '16M'])
    S('few_inodes', ['-b', '4096', '-O', F4, '-N', '400', '32M'])
    S('big_resize_area', ['-b', '1024', '-O', F4, '-E', 'resize=4000000', '16M'])
    S('no_journal_ext4', ['-b', '4096', '-O', F4.replace(',has_journal', ''), '24M'])
    S('journal_1k_big', ['-b', '1024', '-O', F4, '-J', 'size=16', '40M'])
    S('fast_commit', ['-b', '4096', '-O', F4 + ',fast_commit', '32M'])
    S('stable_inodes_verity', ['-b', '4096', '-O', F4 + ',stable_inodes,verity', '24M'])
    S('encrypt_casefold', ['-b', '4096', '-O', F4 + ',encrypt,casefold', '-E', 'encoding=utf8', '24M'],
      [[DEBUGFS, '-w', '-R', 'sif /bigdir flags 0x40000000', 'IMG'], [E2FSCK, '-fyD', 'IMG']])
    S('garbage_lazy_itable', ['-b', '1024', '-O', F4, '-E', 'lazy_itable_init=1,lazy_journal_init=1', '32M'], garbage=True)
    S('garbage_lazy_uninit', ['-b', '1024', '-O', F4.replace('metadata_csum', 'uninit_bg'), '-E',
                              'lazy_itable_init=1,lazy_journal_init=1', '32M'], garbage=True)
    S('garbage_lazy_4k', ['-b', '4096', '-O', F4, '-E', 'lazy_itable_init=1,lazy_journal_init=1', '-N', '4096', '48M'], garbage=True)
    S('hugefiles', ['-b', '4096', '-O', F4, '24M'])
    only = [a[2:] for a in sys.argv if a.startswith('s=')]
    n_clean = n_dirty = 0
    for name, mk, steps, garbage in sc:
        if only and name not in only:
            continue
        img = '%s/scen_%s.img' % (SCR, name)
        size = mk[-1]
        if garbage:
            # a device full of stale bytes: everything mke2fs does not write stays garbage
            mult = {'k': 1 << 10, 'M': 1 << 20}[size[-1]]
            with open(img, 'wb') as f:
                blob = random.Random(7).randbytes(1 << 20)
                for _ in range(int(size[:-1]) * mult >> 20):
                    f.write(blob)
        elif os.path.exists(img):
            os.unlink(img)
        fl = []
        opts = list(mk[:-1])
        if '-O' in opts:
            k = opts.index('-O')
            feats = opts[k + 1].split(',')
            pos = [f for f in feats if not f.startswith('^')]
            neg = ['^' + f for f in ('sparse_super', 'large_file', 'filetype', 'resize_inode', 'dir_index')
                   if f not in pos and '^' + f not in feats]
            opts[k + 1] = ','.join(feats + neg)
        cmd = [MKE2FS, '-q', '-F'] + opts
        if not any(o == '-I' for o in opts):
            cmd += ['-I', '256']
        if name not in ('tiny_fs', 'tiny_ext4'):
            cmd += ['-d', hostt]
        cmd += [img, size]
        r = run(cmd)
        if r.returncode != 0:
            print('  %-26s mke2fs refused: %s' % (name, r.stderr.decode('latin1').strip().split('\n')[-1][:120]))
            continue
        note = ''
        for st in steps:
            st = [img if x == 'IMG' else x for x in st]
            r = run(st, timeout=300)
            if r.returncode not in (0, 1):
                note += ' [%s rc %d]' % (os.path.basename(st[0]), r.returncode)
        clean, rc, txt = fsck_n(img)
        try:
            t0 = time.time()
            fs = RefFS(img)
            cl = fs.check()
            fs.tree_digest()
            dt = time.time() - t0
        except FormatError as e:
            cl = [refext4.Complaint('open', str(e))]
            dt = 0
        if clean:
            n_clean += 1
            if cl:
                fail('scenario %s: e2fsck -fn clean but check() says %s' % (name, cl[:4]))
        else:
            n_dirty += 1
        print('  %-26s e2fsck %s  complaints %d  %.2fs%s' % (name, 'clean' if clean else 'rc %d NOT clean' % rc, len(cl), dt, note))
        if not clean and VERBOSE:
            print('      ' + txt[-400:].replace('\n', '\n      '))
        if '-k' not in sys.argv:
            for f in glob.glob(img + '*'):
                os.unlink(f)
    # synthetic: an inode table that was never zeroed (INODE_ZEROED clear) with stale bytes behind bg_itable_unused
    for feats in (F4, F4.replace('metadata_csum', 'uninit_bg')):
        img = SCR + '/scen_unzeroed.img'
        r = run([MKE2FS, '-q', '-F', '-b', '1024', '-I', '256', '-O', feats, '-d', hostt, img, '32M'])
        p = Patch(open(img, 'rb').read())
        fs = p.fs
        rnd = random.Random(3)
        for g in range(fs.group_count):
            gd = fs.group_desc(g)
            if gd['bg_flags'] & 1:
                continue
            o = gd['offset'] + 0x12
            p.p16(o, p.u16(o) & ~4)
            first_unused = fs.inodes_per_group - gd['bg_itable_unused']
            start = gd['bg_inode_table'] * fs.block_size + first_unused * fs.inode_size
            end = (gd['bg_inode_table'] + fs.itable_blocks) * fs.block_size
            p.d[start:end] = rnd.randbytes(end - start)
            p.seal_gd(g)
        with open(img, 'wb') as f:
            f.write(bytes(p.d))
        clean, rc, txt = fsck_n(img)
        cl = RefFS(img).check()
        print('  %-26s e2fsck %s  complaints %d' % ('synthetic_unzeroed_itable', 'clean' if clean else 'rc %d NOT clean' % rc, len(cl)))
        if clean and cl:
            fail('scenario unzeroed itable: e2fsck clean but check() says %s' % cl[:3])
        if not clean and VERBOSE:
            print(txt[-500:])
        if '-k' not in sys.argv:
            os.unlink(img)
    print('  %d scenarios clean for e2fsck (check() silent on all unless listed), %d not clean' % (n_clean, n_dirty))


def main():
    os.makedirs(SCR, exist_ok=True)
    parts = [a for a in sys.argv[1:] if a in ('gen', 'corpus', 'sens', 'timing', 'scen')]
    if not parts:
        parts = ['gen', 'corpus', 'sens', 'timing', 'scen']
    t0 = time.time()
    if 'gen' in parts:
        part_generated()
    if 'corpus' in parts:
        part_corpus()
    if 'sens' in parts:
        part_sensitivity()
    if 'timing' in parts:
        part_timing()
    if 'scen' in parts:
        part_scenarios()
    print('total %.1fs, %d failure(s)' % (time.time() - t0, len(failures)))
    if '-k' not in sys.argv:
        shutil.rmtree(SCR, ignore_errors=True)
    return 1 if failures else 0


if __name__ == '__main__':
    sys.exit(main())
