"""reffaults — at-rest media faults addressed by *structure* ("field eh_entries of the extent
header of inode 12", "rec_len of the 3rd entry of directory block 1 of inode 2", "bit 17 of the
block bitmap of group 3"), optionally with the covering checksum re-sealed so that only the field
is wrong and the object still verifies (the kind of damage a symmetric library bug or a stale
write produces).

Built on the independent reader refext4; writes nothing through libext2fs.  Used for fault
*generation*; judging is done elsewhere.
"""
import struct

import refext4
from refext4 import RefFS, crc32c

INTERESTING = [0, 1, 2, 3, 7, 8, 0xB, 0xC, 0x7F, 0x80, 0xFF, 0x100, 0x3FF, 0x7FFF, 0x8000, 0xFFFF, 0x10000,
               0x7FFFFFFF, 0x80000000, 0xFFFFFFFF]

SB_FIELDS = [("s_inodes_count", 0, 4), ("s_blocks_count_lo", 4, 4), ("s_r_blocks_count_lo", 8, 4),
             ("s_free_blocks_count_lo", 12, 4), ("s_free_inodes_count", 16, 4), ("s_first_data_block", 20, 4),
             ("s_log_block_size", 24, 4), ("s_log_cluster_size", 28, 4), ("s_blocks_per_group", 32, 4),
             ("s_clusters_per_group", 36, 4), ("s_inodes_per_group", 40, 4), ("s_mtime", 44, 4), ("s_wtime", 48, 4),
             ("s_mnt_count", 52, 2), ("s_max_mnt_count", 54, 2), ("s_state", 58, 2), ("s_errors", 60, 2),
             ("s_minor_rev_level", 62, 2), ("s_lastcheck", 64, 4), ("s_checkinterval", 68, 4), ("s_creator_os", 72, 4),
             ("s_rev_level", 76, 4), ("s_first_ino", 84, 4), ("s_inode_size", 88, 2), ("s_block_group_nr", 90, 2),
             ("s_feature_compat", 92, 4), ("s_feature_incompat", 96, 4), ("s_feature_ro_compat", 100, 4),
             ("s_reserved_gdt_blocks", 206, 2), ("s_journal_inum", 224, 4), ("s_last_orphan", 232, 4),
             ("s_def_hash_version", 252, 1), ("s_desc_size", 254, 2), ("s_first_meta_bg", 260, 4),
             ("s_blocks_count_hi", 336, 4), ("s_min_extra_isize", 348, 2), ("s_want_extra_isize", 350, 2), ("s_flags", 352, 4),
             ("s_mmp_block", 360, 8), ("s_log_groups_per_flex", 372, 1), ("s_usr_quota_inum", 576, 4),
             ("s_grp_quota_inum", 580, 4), ("s_backup_bgs0", 588, 4), ("s_backup_bgs1", 592, 4), ("s_prj_quota_inum", 620, 4),
             ("s_checksum_seed", 624, 4), ("s_orphan_file_inum", 0x280, 4)]
GEOMETRY = ("s_inodes_count", "s_blocks_count_lo", "s_first_data_block", "s_log_block_size", "s_log_cluster_size",
            "s_blocks_per_group", "s_clusters_per_group", "s_inodes_per_group", "s_first_ino", "s_inode_size",
            "s_reserved_gdt_blocks", "s_desc_size", "s_first_meta_bg", "s_log_groups_per_flex", "s_rev_level",
            "s_min_extra_isize", "s_want_extra_isize", "s_blocks_count_hi")
GD_FIELDS = [("bg_block_bitmap_lo", 0, 4), ("bg_inode_bitmap_lo", 4, 4), ("bg_inode_table_lo", 8, 4),
             ("bg_free_blocks_count_lo", 12, 2), ("bg_free_inodes_count_lo", 14, 2), ("bg_used_dirs_count_lo", 16, 2),
             ("bg_flags", 18, 2), ("bg_exclude_bitmap_lo", 20, 4), ("bg_block_bitmap_csum_lo", 24, 2),
             ("bg_inode_bitmap_csum_lo", 26, 2), ("bg_itable_unused_lo", 28, 2)]
GD_FIELDS_HI = [("bg_block_bitmap_hi", 32, 4), ("bg_inode_bitmap_hi", 36, 4), ("bg_inode_table_hi", 40, 4),
                ("bg_free_blocks_count_hi", 44, 2), ("bg_free_inodes_count_hi", 46, 2), ("bg_used_dirs_count_hi", 48, 2),
                ("bg_itable_unused_hi", 50, 2), ("bg_block_bitmap_csum_hi", 56, 2), ("bg_inode_bitmap_csum_hi", 58, 2)]
INODE_FIELDS = [("i_mode", 0, 2), ("i_uid", 2, 2), ("i_size_lo", 4, 4), ("i_atime", 8, 4), ("i_ctime", 12, 4), ("i_mtime", 16, 4),
                ("i_dtime", 20, 4), ("i_gid", 24, 2), ("i_links_count", 26, 2), ("i_blocks_lo", 28, 4), ("i_flags", 32, 4),
                ("i_generation", 100, 4), ("i_file_acl_lo", 104, 4), ("i_size_high", 108, 4), ("l_i_blocks_high", 116, 2),
                ("l_i_file_acl_high", 118, 2), ("l_i_uid_high", 120, 2), ("l_i_gid_high", 122, 2), ("i_extra_isize", 128, 2),
                ("i_ctime_extra", 132, 4), ("i_mtime_extra", 136, 4), ("i_crtime", 144, 4), ("i_projid", 156, 4)]
EXT_HDR = [("eh_magic", 0, 2), ("eh_entries", 2, 2), ("eh_max", 4, 2), ("eh_depth", 6, 2), ("eh_generation", 8, 4)]
EXT_LEAF = [("ee_block", 0, 4), ("ee_len", 4, 2), ("ee_start_hi", 6, 2), ("ee_start_lo", 8, 4)]
EXT_IDX = [("ei_block", 0, 4), ("ei_leaf_lo", 4, 4), ("ei_leaf_hi", 8, 2), ("ei_unused", 10, 2)]
DIRENT = [("inode", 0, 4), ("rec_len", 4, 2), ("name_len", 6, 1), ("file_type", 7, 1)]
XHDR = [("h_magic", 0, 4), ("h_refcount", 4, 4), ("h_blocks", 8, 4), ("h_hash", 12, 4)]
XENT = [("e_name_len", 0, 1), ("e_name_index", 1, 1), ("e_value_offs", 2, 2), ("e_value_inum", 4, 4), ("e_value_size", 8, 4),
        ("e_hash", 12, 4)]
DXROOT = [("reserved_zero", 0x18, 4), ("hash_version", 0x1C, 1), ("info_length", 0x1D, 1), ("indirect_levels", 0x1E, 1),
          ("unused_flags", 0x1F, 1), ("limit", 0x20, 2), ("count", 0x22, 2), ("block0", 0x24, 4)]


def new_value(rng, cur, size):
    mask = (1 << (8 * size)) - 1
    how = rng.below(7)
    if how == 0:
        new = cur ^ (1 << rng.below(8 * size))
    elif how == 1:
        new = (cur + rng.choice([1, -1, 2, -2, 4, -4, 8, -8, 12])) & mask
    elif how == 2:
        new = rng.choice(INTERESTING) & mask
    elif how == 3:
        new = 0
    elif how == 4:
        new = mask
    elif how == 5:
        new = (cur * 2) & mask if cur else 1
    else:
        new = rng.u64() & mask
    if new == cur:
        new = cur ^ 1
    return new


class Sealer:
    """A mutable copy of an image plus helpers that re-seal checksums after an edit."""

    def __init__(self, base, fs=None):
        self.d = bytearray(base)
        self.fs = fs or RefFS(data=bytes(base))
        self.touched = set()      # (offset, length) ranges written

    def w(self, off, b):
        self.d[off:off + len(b)] = b
        self.touched.add((off, len(b)))

    def u16(self, off):
        return struct.unpack_from("<H", self.d, off)[0]

    def u32(self, off):
        return struct.unpack_from("<I", self.d, off)[0]

    def p16(self, off, v):
        self.w(off, struct.pack("<H", v & 0xFFFF))

    def p32(self, off, v):
        self.w(off, struct.pack("<I", v & 0xFFFFFFFF))

    def boff(self, blk):
        return blk * self.fs.block_size

    def iseed(self, ino):
        off = self.fs.inode_loc(ino)
        gen = self.u32(off + 0x64)
        return crc32c(crc32c(self.fs.csum_seed, struct.pack("<I", ino)), struct.pack("<I", gen))

    def seal_super(self):
        if self.fs.csum:
            self.p32(1024 + 1020, crc32c(0xFFFFFFFF, bytes(self.d[1024:1024 + 1020])))

    def seal_inode(self, ino):
        fs = self.fs
        if not fs.csum:
            return
        off = fs.inode_loc(ino)
        raw = bytearray(self.d[off:off + fs.inode_size])
        raw[0x7C:0x7E] = b"\0\0"
        wide = fs.inode_size > 128 and struct.unpack_from("<H", raw, 0x80)[0] >= 4
        if wide:
            raw[0x82:0x84] = b"\0\0"
        c = crc32c(self.iseed(ino), bytes(raw))
        self.p16(off + 0x7C, c & 0xFFFF)
        if wide:
            self.p16(off + 0x82, c >> 16)

    def seal_gd(self, g):
        fs = self.fs
        off = fs.group_desc(g)["offset"]
        raw = bytes(self.d[off:off + fs.desc_size])
        if fs.csum:
            c = crc32c(fs.csum_seed, struct.pack("<I", g))
            c = crc32c(c, raw[:0x1E])
            c = crc32c(c, b"\0\0")
            if fs.desc_size > 32:
                c = crc32c(c, raw[0x20:])
            self.p16(off + 0x1E, c & 0xFFFF)
        elif fs.has("uninit_bg"):
            c = refext4.crc16(0xFFFF, fs.sb["s_uuid"])
            c = refext4.crc16(c, struct.pack("<I", g))
            c = refext4.crc16(c, raw[:0x1E])
            if fs.desc_size > 32:
                c = refext4.crc16(c, raw[0x20:])
            self.p16(off + 0x1E, c)

    def seal_bitmaps(self, g):
        fs = self.fs
        gd = fs.group_desc(g)
        off = gd["offset"]
        if fs.csum:
            bb = bytes(self.d[self.boff(gd["bg_block_bitmap"]):self.boff(gd["bg_block_bitmap"]) + fs.clusters_per_group // 8])
            ib = bytes(self.d[self.boff(gd["bg_inode_bitmap"]):self.boff(gd["bg_inode_bitmap"]) + fs.inodes_per_group // 8])
            cb = crc32c(fs.csum_seed, bb)
            ci = crc32c(fs.csum_seed, ib)
            self.p16(off + 0x18, cb & 0xFFFF)
            self.p16(off + 0x1A, ci & 0xFFFF)
            if fs.desc_size >= 64:
                self.p16(off + 0x38, cb >> 16)
                self.p16(off + 0x3A, ci >> 16)
        self.seal_gd(g)

    def seal_dir_leaf(self, ino, pblk):
        fs = self.fs
        if not fs.csum:
            return
        o = self.boff(pblk)
        # only when the block carries the 12-byte tail
        if self.d[o + fs.block_size - 12:o + fs.block_size - 4] != b"\0\0\0\0\x0c\0\0\xde":
            return
        self.p32(o + fs.block_size - 4, crc32c(self.iseed(ino), bytes(self.d[o:o + fs.block_size - 12])))

    def seal_dx(self, ino, pblk, count_offset):
        fs = self.fs
        if not fs.csum:
            return
        o = self.boff(pblk)
        limit = self.u16(o + count_offset)
        count = self.u16(o + count_offset + 2)
        t = o + count_offset + 8 * limit
        if t + 8 > o + fs.block_size or count_offset + 8 * count > fs.block_size:
            return
        c = crc32c(self.iseed(ino), bytes(self.d[o:o + count_offset + 8 * count]))
        c = crc32c(c, bytes(self.d[t:t + 4]))
        c = crc32c(c, b"\0\0\0\0")
        self.p32(t + 4, c)

    def seal_extent_block(self, ino, pblk):
        fs = self.fs
        if not fs.csum:
            return
        o = self.boff(pblk)
        emax = self.u16(o + 4)
        if 12 + 12 * emax + 4 > fs.block_size:
            return
        self.p32(o + 12 + 12 * emax, crc32c(self.iseed(ino), bytes(self.d[o:o + 12 + 12 * emax])))

    def seal_xattr_block(self, blk):
        fs = self.fs
        if not fs.csum:
            return
        o = self.boff(blk)
        buf = bytearray(self.d[o:o + fs.block_size])
        buf[0x10:0x14] = b"\0\0\0\0"
        self.p32(o + 0x10, crc32c(crc32c(fs.csum_seed, struct.pack("<Q", blk)), bytes(buf)))

    def faults(self, what, cls):
        """the edits as fault records (merged per touched range)"""
        out = []
        for off, ln in sorted(self.touched):
            out.append({"off": off, "bytes": bytes(self.d[off:off + ln]).hex(), "what": what, "cls": cls})
        return out


def randomize_generations(rng, data, share=0.8):
    """Give a share of the live ordinary inodes a random i_generation, the way the kernel numbers the inodes it
    creates (debugfs and mke2fs leave 0 everywhere), and re-seal everything keyed to it: the inode itself, its extent
    blocks, its directory leaf blocks and htree nodes.  Returns the new image bytes and the number of inodes changed."""
    fs = RefFS(data=bytes(data))
    s = Sealer(data, fs)
    n = 0
    special = set(x for x in (fs.sb.get("s_journal_inum"), fs.sb.get("s_usr_quota_inum"), fs.sb.get("s_grp_quota_inum"),
                              fs.sb.get("s_prj_quota_inum"), fs.sb.get("s_orphan_file_inum")) if x)
    for ino, i in fs.iter_inodes():
        if not i.mode or not i.links_count or i.dtime or ino in special:
            continue
        if ino < fs.sb["s_first_ino"] and ino != 2:
            continue
        if i.flags & 0x200000:          # EA value inode: its hash and back-pointers live in other fields; leave alone
            continue
        if not rng.chance(share):
            continue
        try:
            tree = []
            if (i.flags & 0x80000) and not (i.flags & 0x10000000):
                _e, tree = fs.extents(i)
            leaves, nodes = [], []
            if (i.mode & 0xF000) == 0x4000 and not (i.flags & 0x10000000):
                leaves = fs.dir_blocks(i)
                ht = fs.htree(i)
                nodes = ht["nodes"] if ht else []
        except refext4.FormatError:
            continue
        s.p32(fs.inode_loc(ino) + 100, (rng.u64() & 0xFFFFFFFF) or 1)
        s.seal_inode(ino)
        for blk in tree:
            s.seal_extent_block(ino, blk)
        for _lblk, pblk in leaves:
            s.seal_dir_leaf(ino, pblk)
        for node in nodes:
            s.seal_dx(ino, node["pblk"], node["count_offset"])
        n += 1
    return bytes(s.d), n


def _rightmost_end(s, bs, blk):
    """First logical block behind everything mapped below extent node `blk` (rightmost path)."""
    seen = 0
    while seen < 8:
        o = blk * bs
        if o + bs > len(s.d) or s.u16(o) != 0xF30A:
            return 0, 0, False
        n, depth = s.u16(o + 2), s.u16(o + 6)
        if n == 0 or 12 + 12 * n > bs:
            return 0, 0, False
        e = o + 12 + 12 * (n - 1)
        if depth == 0:
            ln = s.u16(e + 4)
            if ln > 32768:
                ln -= 32768
            return s.u32(e) + ln, seen, True
        blk = s.u32(e + 4) | (s.u16(e + 8) << 32)
        seen += 1
    return 0, 0, False


def _field(rng, s, base, fields, limit=None):
    fields = [f for f in fields if limit is None or f[1] + f[2] <= limit]
    name, off, size = rng.choice(fields)
    cur = int.from_bytes(s.d[base + off:base + off + size], "little")
    new = new_value(rng, cur, size)
    s.w(base + off, new.to_bytes(size, "little"))
    return name, cur, new


def gen_struct_faults(rng, data, n=1, reseal_p=0.5, kinds=None, boost=None):
    """n structure-addressed faults on image bytes `data`.  Returns (faults, description list).
    Each fault: {off, bytes(hex), what, cls}.  With probability reseal_p the covering checksum is
    recomputed (cls gets the suffix '~sealed')."""
    fs = RefFS(data=bytes(data))
    bs = fs.block_size
    out = []
    inodes = None

    def special(ino):
        # inodes the tools own: the reserved ones and the hidden ones the superblock names (a project quota file and an
        # orphan file take ordinary inode numbers)
        return ino < fs.sb["s_first_ino"] or ino in (fs.sb.get("s_journal_inum"), fs.sb.get("s_usr_quota_inum"),
                                                      fs.sb.get("s_grp_quota_inum"), fs.sb.get("s_prj_quota_inum"),
                                                      fs.sb.get("s_orphan_file_inum"))

    def live_inodes():
        nonlocal inodes
        if inodes is None:
            inodes = []
            try:
                for ino, i in fs.iter_inodes():
                    if i.mode and (i.links_count or ino < fs.sb["s_first_ino"]) and not i.dtime:
                        inodes.append((ino, i))
                        if len(inodes) > 5000:
                            break
            except refext4.FormatError:
                pass
        return inodes

    weights = [("sb", 3), ("gd", 4), ("bbitmap", 3), ("ibitmap", 2), ("inode", 6), ("extent_root", 4), ("extent_block", 3),
               ("indirect", 4), ("dirent", 5), ("dx", 3), ("xattr_block", 3), ("xattr_inode", 2), ("special_inode", 3),
               ("pointer", 5), ("bitmap_csum", 2), ("sb_geometry", 2), ("lpf", 2), ("dup_name", 2), ("bitmap_padding", 2)]
    if fs.has("orphan_file") and fs.sb.get("s_orphan_file_inum"):
        weights.append(("orphan_file", 2))
    if boost:
        weights = [(k, w * boost.get(k, 1)) for k, w in weights]
    if isinstance(kinds, dict):
        weights = sorted(kinds.items())
    elif kinds:
        weights = [(k, w) for k, w in weights if k in kinds]
    tries = 0
    while len(out) < n and tries < n * 12:
        tries += 1
        kind = rng.weighted(weights)
        s = Sealer(data, fs)
        seal = rng.chance(reseal_p)
        what = cls = None
        try:
            if kind == "sb":
                name, cur, new = _field(rng, s, 1024, SB_FIELDS)
                if seal:
                    s.seal_super()
                what, cls = "sb.%s %#x->%#x" % (name, cur, new), "sb." + name
            elif kind == "sb_geometry":
                # the fields every size, count and divisor in the library is derived from
                name, cur, new = _field(rng, s, 1024, [f for f in SB_FIELDS if f[0] in GEOMETRY])
                if rng.chance(0.3):
                    # just past what the block size allows
                    lim = {"s_desc_size": bs, "s_inode_size": bs, "s_inodes_per_group": bs * 8, "s_blocks_per_group": bs * 8,
                           "s_clusters_per_group": bs * 8, "s_reserved_gdt_blocks": bs // 4, "s_first_ino": fs.sb["s_inodes_count"],
                           "s_log_groups_per_flex": 31, "s_log_block_size": 6, "s_log_cluster_size": 6}.get(name)
                    if lim is not None:
                        fo, sz = next((f[1], f[2]) for f in SB_FIELDS if f[0] == name)
                        new = (lim * rng.choice([1, 2, 2, 4]) + rng.choice([0, 0, 1, 8])) & ((1 << 8 * sz) - 1)
                        s.w(1024 + fo, new.to_bytes(sz, "little"))
                if seal:
                    s.seal_super()
                what, cls = "sb.%s %#x->%#x" % (name, cur, new), "sb." + name
            elif kind == "gd":
                g = rng.below(fs.group_count)
                off = fs.group_desc(g)["offset"]
                name, cur, new = _field(rng, s, off, GD_FIELDS + (GD_FIELDS_HI if fs.desc_size >= 64 else []))
                if seal:
                    s.seal_gd(g)
                what, cls = "gd[%d].%s %#x->%#x" % (g, name, cur, new), "gd." + name
            elif kind in ("bbitmap", "ibitmap"):
                g = rng.below(fs.group_count)
                gd = fs.group_desc(g)
                blk = gd["bg_block_bitmap"] if kind == "bbitmap" else gd["bg_inode_bitmap"]
                nbits = fs.clusters_per_group if kind == "bbitmap" else fs.inodes_per_group
                if not (0 < blk < fs.sb["s_blocks_count"]):
                    continue
                bit = rng.below(nbits)
                o = blk * bs + bit // 8
                how = rng.below(3)
                if how == 0:
                    s.w(o, bytes([s.d[o] ^ (1 << (bit % 8))]))
                    what, cls = "%s[%d] bit %d flipped" % (kind, g, bit), kind + ".bit"
                else:
                    ln = min(rng.choice([1, 2, 8, 64]), (nbits + 7) // 8 - bit // 8)
                    s.w(o, (b"\0" if how == 1 else b"\xff") * ln)
                    what, cls = "%s[%d] %d byte(s)@%d %s" % (kind, g, ln, bit // 8, "zeroed" if how == 1 else "set"), \
                        kind + (".zero" if how == 1 else ".ones")
                if seal:
                    s.seal_bitmaps(g)
            elif kind in ("inode", "special_inode", "extent_root", "indirect", "xattr_inode"):
                li = live_inodes()
                if not li:
                    continue
                if kind == "special_inode":
                    cand = [(n_, i) for n_, i in li if special(n_)]
                    if not cand:
                        continue
                    ino, i = rng.choice(cand)
                elif kind == "indirect":
                    # a block-mapped inode; for the three tree roots preferably one whose tree exists
                    cand = [(n_, i) for n_, i in li if not (i.flags & 0x80000) and not (i.flags & 0x10000000) and fs.has_block_map(i)]
                    if not cand:
                        continue
                    ind_k = rng.below(15) if rng.chance(0.5) else 12 + rng.below(3)
                    if ind_k >= 12 and rng.chance(0.8):
                        used = [(n_, i) for n_, i in cand if s.u32(fs.inode_loc(n_) + 40 + 4 * ind_k)]
                        cand = used or cand
                    ino, i = rng.choice(cand)
                else:
                    ino, i = rng.choice(li)
                ioff = fs.inode_loc(ino)
                if kind in ("inode", "special_inode"):
                    name, cur, new = _field(rng, s, ioff, INODE_FIELDS, fs.inode_size)
                    what, cls = "inode[%d].%s %#x->%#x" % (ino, name, cur, new), ("special_inode." if special(ino) else "inode.") + name
                elif kind == "extent_root":
                    if not (i.flags & 0x80000) or (i.flags & 0x10000000):
                        continue
                    entries = s.u16(ioff + 40 + 2)
                    depth = s.u16(ioff + 40 + 6)
                    if rng.chance(0.4) or entries == 0:
                        name, cur, new = _field(rng, s, ioff + 40, EXT_HDR)
                    else:
                        k = rng.below(min(entries, 4))
                        name, cur, new = _field(rng, s, ioff + 40 + 12 + 12 * k, EXT_LEAF if depth == 0 else EXT_IDX)
                        name = "%s[%d]" % (name, k)
                    what, cls = "inode[%d] extent root %s %#x->%#x" % (ino, name, cur, new), "extent_root." + name.split("[")[0]
                elif kind == "indirect":
                    if (i.flags & 0x80000) or (i.flags & 0x10000000) or not fs.has_block_map(i):
                        continue
                    k = ind_k
                    cur = s.u32(ioff + 40 + 4 * k)
                    new = new_value(rng, cur, 4)
                    s.p32(ioff + 40 + 4 * k, new)
                    what, cls = "inode[%d].i_block[%d] %#x->%#x" % (ino, k, cur, new), "blockmap.i_block%s" % ("_ind" if k >= 12 else "")
                else:
                    if fs.inode_size <= 128:
                        continue
                    extra = s.u16(ioff + 128)
                    xo = ioff + 128 + extra
                    if xo + 4 > ioff + fs.inode_size or s.u32(xo) != 0xEA020000:
                        continue
                    if rng.chance(0.2):
                        s.p32(xo, new_value(rng, 0xEA020000, 4))
                        what, cls = "inode[%d] in-inode xattr magic" % ino, "xattr_inode.magic"
                    else:
                        name, cur, new = _field(rng, s, xo + 4, XENT)
                        what, cls = "inode[%d] in-inode xattr entry0.%s %#x->%#x" % (ino, name, cur, new), "xattr_inode." + name
                if special(ino) and cls and not cls.startswith("special_inode."):
                    cls = "special_inode." + cls.split(".", 1)[1]
                if seal:
                    s.seal_inode(ino)
            elif kind == "orphan_file":
                # a block of the orphan file: an entry, or the magic / checksum in its 8-byte tail
                try:
                    oi = fs.read_inode(fs.sb["s_orphan_file_inum"])
                    ext, _tree = fs.extents(oi)
                except refext4.FormatError:
                    continue
                blks = [p_ + k_ for _l, p_, n_, _u in ext for k_ in range(min(n_, 64))]
                if not blks:
                    continue
                blk = rng.choice(blks)
                o = blk * bs
                how = rng.below(3)
                if how == 0:
                    cur = s.u32(o + bs - 4)
                    new = new_value(rng, cur, 4)
                    s.p32(o + bs - 4, new)
                    what, cls = "orphan file block %d checksum %#x->%#x" % (blk, cur, new), "orphan_file.ob_checksum"
                elif how == 1:
                    cur = s.u32(o + bs - 8)
                    new = new_value(rng, cur, 4)
                    s.p32(o + bs - 8, new)
                    what, cls = "orphan file block %d magic %#x->%#x" % (blk, cur, new), "orphan_file.ob_magic"
                else:
                    k = rng.below((bs - 8) // 4)
                    cur = s.u32(o + 4 * k)
                    li = live_inodes()
                    new = rng.choice([rng.choice(li)[0] if li else 12, fs.sb["s_inodes_count"], fs.sb["s_inodes_count"] + 1, 1, 0xFFFFFFFF])
                    if new == cur:
                        continue
                    s.p32(o + 4 * k, new)
                    what, cls = "orphan file block %d entry[%d] %d->%d" % (blk, k, cur, new), "orphan_file.entry"
                    if seal and fs.csum:
                        c = crc32c(fs.csum_seed, struct.pack("<I", oi.ino))
                        c = crc32c(c, struct.pack("<I", oi.generation))
                        c = crc32c(c, struct.pack("<Q", blk))
                        c = crc32c(c, bytes(s.d[o:o + bs - 8]))
                        s.p32(o + bs - 4, c)
                if how != 2:
                    seal = False
            elif kind == "bitmap_padding":
                # the bits of a bitmap block behind the last block / inode of the group (outside the bitmap checksum)
                which = rng.below(2)
                nbits = fs.clusters_per_group if which == 0 else fs.inodes_per_group
                if nbits >= bs * 8:
                    which = 1
                    nbits = fs.inodes_per_group
                    if nbits >= bs * 8:
                        continue
                gs = [g for g in range(fs.group_count) if not fs.group_flags(g) & (2 if which == 0 else 1)]
                if not gs:
                    continue
                g = rng.choice(gs)
                gd = fs.group_desc(g)
                blk = gd["bg_block_bitmap"] if which == 0 else gd["bg_inode_bitmap"]
                if not (0 < blk < fs.sb["s_blocks_count"]):
                    continue
                bit = rng.weighted([(nbits, 2), (bs * 8 - 1, 1), (rng.range(nbits, bs * 8 - 1), 3)])
                o = blk * bs + bit // 8
                if rng.chance(0.6) or bit // 8 + 1 >= bs:
                    s.w(o, bytes([s.d[o] & ~(1 << (bit % 8)) & 0xFF]))
                    how = "bit %d cleared" % bit
                else:
                    ln = min(rng.choice([1, 4, 64]), bs - bit // 8 - 1)
                    s.w(o + 1, b"\0" * ln)
                    how = "%d byte(s) behind bit %d zeroed" % (ln, bit)
                what, cls = "%s bitmap[%d] padding %s" % ("block" if which == 0 else "inode", g, how), \
                    ("bbitmap" if which == 0 else "ibitmap") + ".padding"
                seal = False
            elif kind in ("lpf", "dup_name"):
                dirs = [(n_, i) for n_, i in live_inodes() if (i.mode & 0xF000) == 0x4000 and not (i.flags & 0x10000000)]
                if not dirs:
                    continue
                if kind == "lpf":
                    # lost+found is the one object e2fsck itself re-creates: its inode, or the root's entry for it
                    lpf = [(n_, i) for n_, i in dirs if n_ == 11]
                    root = [(n_, i) for n_, i in dirs if n_ == 2]
                    if not lpf or not root:
                        continue
                    if rng.chance(0.6):
                        ino, i = lpf[0]
                        ioff = fs.inode_loc(ino)
                        if rng.chance(0.4):
                            # a file type that does not exist
                            cur = s.u16(ioff)
                            new = (cur & 0x0FFF) | rng.choice([0x0000, 0x3000, 0x5000, 0x7000, 0x9000, 0xB000, 0xD000, 0xE000, 0xF000])
                            s.p16(ioff, new)
                            name = "i_mode"
                        else:
                            name, cur, new = _field(rng, s, ioff, [f for f in INODE_FIELDS if f[0] in
                                                                   ("i_mode", "i_links_count", "i_flags", "i_dtime", "i_size_lo")], fs.inode_size)
                        if seal:
                            s.seal_inode(ino)
                        what, cls = "inode[11 lost+found].%s %#x->%#x" % (name, cur, new), "inode." + name
                    else:
                        ino, i = root[0]
                        done = False
                        for lblk, pblk in fs.dir_blocks(i):
                            o = pblk * bs
                            p = 0
                            while p + 8 <= bs:
                                rl = s.u16(o + p + 4)
                                if s.u32(o + p) == 11 and s.d[o + p + 6] == 10:
                                    name, cur, new = _field(rng, s, o + p, [f for f in DIRENT if f[0] in ("inode", "name_len", "file_type")])
                                    if seal:
                                        s.seal_dir_leaf(ino, pblk)
                                    what, cls = "root entry for lost+found %s %#x->%#x" % (name, cur, new), "dirent." + name
                                    done = True
                                    break
                                if rl < 8 or rl % 4:
                                    break
                                p += rl
                            if done:
                                break
                        if not done:
                            continue
                else:
                    # two entries of one directory block get the same name
                    ino, i = rng.choice(dirs)
                    blocks = fs.dir_blocks(i)
                    if not blocks:
                        continue
                    lblk, pblk = rng.choice(blocks)
                    o = pblk * bs
                    ents = []
                    p = 0
                    while p + 8 <= bs and len(ents) < 400:
                        rl = s.u16(o + p + 4)
                        nl = s.d[o + p + 6]
                        if s.u32(o + p) and nl and not (nl <= 2 and bytes(s.d[o + p + 8:o + p + 8 + nl]) in (b".", b"..")):
                            ents.append((p, rl, nl))
                        if rl < 8 or rl % 4:
                            break
                        p += rl
                    if len(ents) < 2:
                        continue
                    a, b = rng.sample(ents, 2)
                    if b[1] < 8 + a[2]:
                        a, b = b, a
                    if b[1] < 8 + a[2]:
                        continue
                    s.w(o + b[0] + 6, bytes([a[2]]))
                    s.w(o + b[0] + 8, bytes(s.d[o + a[0] + 8:o + a[0] + 8 + a[2]]))
                    if seal:
                        s.seal_dir_leaf(ino, pblk)
                    what, cls = "dir inode[%d] lblk %d entry@%d takes the name of entry@%d" % (ino, lblk, b[0], a[0]), "dirent.dup_name"
            elif kind == "bitmap_csum":
                # a stale bitmap checksum inside a descriptor that itself verifies (bitmap written, descriptor not, or
                # the reverse); only groups whose bitmap is in use
                if not fs.csum:
                    continue
                which = rng.below(2)
                gs = [g for g in range(fs.group_count) if not fs.group_flags(g) & (2 if which == 0 else 1)]
                if not gs:
                    continue
                g = rng.choice(gs)
                off = fs.group_desc(g)["offset"]
                fo = (0x18 if which == 0 else 0x1A) if (fs.desc_size < 64 or rng.chance(0.6)) else (0x38 if which == 0 else 0x3A)
                cur = s.u16(off + fo)
                new = new_value(rng, cur, 2)
                s.p16(off + fo, new)
                s.seal_gd(g)
                seal = True
                what, cls = "gd[%d] %s bitmap checksum field@%#x %#x->%#x" % (g, "block" if which == 0 else "inode", fo, cur, new), \
                    "gd.%s_bitmap_csum" % ("block" if which == 0 else "inode")
            elif kind == "pointer":
                # a block or inode number set to a boundary of this filesystem's own limits
                bc = fs.sb["s_blocks_count"]
                ic = fs.sb["s_inodes_count"]
                fdb = fs.first_data_block
                li = live_inodes()
                if not li:
                    continue
                sub = rng.weighted([("file_acl", 3), ("extent_leaf", 3), ("extent_idx", 1), ("i_block", 2), ("dirent_inode", 3),
                                    ("gd_loc", 2)])
                if sub == "dirent_inode":
                    dirs = [(n_, i) for n_, i in li if (i.mode & 0xF000) == 0x4000 and not (i.flags & 0x10000000)]
                    if not dirs:
                        continue
                    ino, i = rng.choice(dirs)
                    blocks = fs.dir_blocks(i)
                    if not blocks:
                        continue
                    lblk, pblk = rng.choice(blocks)
                    o = pblk * bs
                    offs = []
                    p = 0
                    while p + 8 <= bs and len(offs) < 400:
                        rl = s.u16(o + p + 4)
                        if s.u32(o + p) and s.d[o + p + 6]:
                            offs.append(p)
                        if rl < 8 or rl % 4:
                            break
                        p += rl
                    if not offs:
                        continue
                    p = rng.choice(offs)
                    cur = s.u32(o + p)
                    new = rng.choice([ic, ic + 1, ic + 1, ic - 1, fs.sb["s_first_ino"] - 1, 1])
                    if new == cur:
                        continue
                    s.p32(o + p, new)
                    if seal:
                        s.seal_dir_leaf(ino, pblk)
                    what, cls = "dir inode[%d] lblk %d entry@%d inode %d->%d (inodes_count %d)" % (ino, lblk, p, cur, new, ic), "dirent.inode@limit"
                elif sub == "gd_loc":
                    g = rng.below(fs.group_count)
                    off = fs.group_desc(g)["offset"]
                    name, fo, span = rng.choice([("bg_block_bitmap_lo", 0, 1), ("bg_inode_bitmap_lo", 4, 1),
                                                 ("bg_inode_table_lo", 8, fs.itable_blocks)])
                    cur = s.u32(off + fo)
                    new = rng.choice([bc, bc - span + 1, bc - span + 1, bc + 1, max(fdb - 1, 0)])
                    if new == cur:
                        continue
                    s.p32(off + fo, new)
                    if seal:
                        s.seal_gd(g)
                    what, cls = "gd[%d].%s %d->%d (blocks_count %d)" % (g, name, cur, new, bc), "gd." + name + "@limit"
                else:
                    if sub == "file_acl":
                        cand = li
                    elif sub == "i_block":
                        cand = [(n_, i) for n_, i in li if not (i.flags & 0x80000) and not (i.flags & 0x10000000) and fs.has_block_map(i)]
                    else:
                        cand = [(n_, i) for n_, i in li if (i.flags & 0x80000) and not (i.flags & 0x10000000)]
                    if not cand:
                        continue
                    ino, i = rng.choice(cand)
                    ioff = fs.inode_loc(ino)
                    if sub == "file_acl":
                        cur = s.u32(ioff + 104)
                        new = rng.choice([bc, bc, bc + 1, bc - 1, max(fdb - 1, 0)])
                        if new == cur:
                            continue
                        s.p32(ioff + 104, new)
                        what, cls = "inode[%d].i_file_acl %d->%d (blocks_count %d)" % (ino, cur, new, bc), "inode.i_file_acl_lo@limit"
                    elif sub == "i_block":
                        k = rng.below(15) if rng.chance(0.5) else 12 + rng.below(3)
                        cur = s.u32(ioff + 40 + 4 * k)
                        new = rng.choice([bc, bc, bc + 1, bc - 1, max(fdb - 1, 0)])
                        if new == cur:
                            continue
                        s.p32(ioff + 40 + 4 * k, new)
                        what, cls = "inode[%d].i_block[%d] %d->%d (blocks_count %d)" % (ino, k, cur, new, bc), "blockmap.i_block@limit"
                    else:
                        entries = s.u16(ioff + 40 + 2)
                        depth = s.u16(ioff + 40 + 6)
                        if entries == 0 or entries > 4 or (depth == 0) != (sub == "extent_leaf"):
                            continue
                        k = rng.below(entries)
                        eo = ioff + 40 + 12 + 12 * k
                        if depth == 0:
                            ln = s.u16(eo + 4)
                            ln = ln - 32768 if ln > 32768 else ln
                            cur = s.u32(eo + 8)
                            new = rng.choice([bc - ln + 1, bc - ln + 1, bc, bc - ln, bc + 1])
                            if new == cur or new < 0:
                                continue
                            s.p32(eo + 8, new)
                            what, cls = "inode[%d] extent[%d] start %d->%d len %d (blocks_count %d)" % (ino, k, cur, new, ln, bc), "extent_root.ee_start_lo@limit"
                        else:
                            cur = s.u32(eo + 4)
                            new = rng.choice([bc, bc, bc + 1, bc - 1, max(fdb - 1, 0)])
                            if new == cur:
                                continue
                            s.p32(eo + 4, new)
                            what, cls = "inode[%d] extent index[%d] leaf %d->%d (blocks_count %d)" % (ino, k, cur, new, bc), "extent_root.ei_leaf_lo@limit"
                    if special(ino) and cls:
                        cls = "special_inode." + cls.split(".", 1)[1]
                    if seal:
                        s.seal_inode(ino)
            elif kind == "extent_block":
                li = [(n_, i) for n_, i in live_inodes() if (i.flags & 0x80000) and not (i.flags & 0x10000000)]
                rng.shuffle(li)
                done = False
                cands = []
                for ino, i in li[:40]:
                    try:
                        _e, tree = fs.extents(i)
                    except refext4.FormatError:
                        continue
                    if tree:
                        cands.append((ino, i, tree, [b for b in tree if s.u16(b * bs + 6) > 0 and s.u16(b * bs + 2) > 0]))
                # (trees with interior nodes, and the interior nodes in them, are few: give them a fair share)
                deep = [c for c in cands if c[3]]
                for ino, i, tree, interior in ([rng.choice(deep)] if deep and rng.chance(0.7) else []) + cands[:1]:
                    blk = rng.choice(tree)
                    if interior and rng.chance(0.5):
                        blk = rng.choice(interior)
                    o = blk * bs
                    entries = s.u16(o + 2)
                    depth = s.u16(o + 6)
                    if depth > 0 and entries and rng.chance(0.6):
                        # an index entry that leads back into the tree: to its own block, to another node of the same
                        # tree, or (appended) a further entry doing so
                        k = rng.below(entries)
                        tgt = rng.choice([blk, blk, rng.choice(tree)])
                        if rng.chance(0.6) and entries < s.u16(o + 4):
                            last = o + 12 + 12 * (entries - 1)
                            eo = o + 12 + 12 * entries
                            nl = s.u32(last) + 1000
                            if (ino + blk) & 1:
                                # (no draw: keeps every other case of the seed as it was)  the entry starts right
                                # behind the last mapped block below this node, so it breaks no ordering or bounds
                                # rule and the cycle is the only thing wrong with the tree (seeded change C02-m3)
                                eb, d_, ok = _rightmost_end(s, bs, blk)
                                if ok:
                                    nl = eb
                            s.w(eo, struct.pack("<IIHH", nl & 0xFFFFFFFF, tgt & 0xFFFFFFFF, 0, 0))
                            s.p16(o + 2, entries + 1)
                            name, cur, new = "ei_leaf_lo(appended, cycle)", 0, tgt
                        else:
                            eo = o + 12 + 12 * k
                            cur = s.u32(eo + 4)
                            new = tgt
                            if cur == new:
                                continue
                            s.p32(eo + 4, new)
                            name = "ei_leaf_lo(cycle)"
                        name_cls = "ei_leaf_lo@cycle"
                        if seal:
                            s.seal_extent_block(ino, blk)
                        what, cls = "inode[%d] extent block %d %s %#x->%#x" % (ino, blk, name, cur, new), "extent_block." + name_cls
                        done = True
                        break
                    if rng.chance(0.4) or entries == 0:
                        name, cur, new = _field(rng, s, o, EXT_HDR)
                    else:
                        k = rng.below(entries)
                        name, cur, new = _field(rng, s, o + 12 + 12 * k, EXT_LEAF if depth == 0 else EXT_IDX)
                    if seal:
                        s.seal_extent_block(ino, blk)
                    what, cls = "inode[%d] extent block %d %s %#x->%#x" % (ino, blk, name, cur, new), "extent_block." + name
                    done = True
                    break
                if not done:
                    continue
            elif kind in ("dirent", "dx"):
                dirs = [(n_, i) for n_, i in live_inodes() if (i.mode & 0xF000) == 0x4000 and not (i.flags & 0x10000000)]
                if not dirs:
                    continue
                ino, i = rng.choice(dirs)
                try:
                    blocks = fs.dir_blocks(i)
                except refext4.FormatError:
                    continue
                if not blocks:
                    continue
                if kind == "dx":
                    try:
                        ht = fs.htree(i)
                    except refext4.FormatError:
                        ht = None
                    if not ht:
                        continue
                    node = rng.choice(ht["nodes"])
                    o = node["pblk"] * bs
                    co = node["count_offset"]
                    if node["level"] == 0 and rng.chance(0.4):
                        name, cur, new = _field(rng, s, o, DXROOT)
                    else:
                        cnt = max(1, node["count"])
                        k = rng.below(cnt)
                        which = rng.below(3)
                        if which == 0:
                            name, cur = "limit", s.u16(o + co)
                            new = new_value(rng, cur, 2)
                            s.p16(o + co, new)
                        elif which == 1:
                            name, cur = "count", s.u16(o + co + 2)
                            new = new_value(rng, cur, 2)
                            s.p16(o + co + 2, new)
                        else:
                            fo = o + co + 8 * k + (4 if (k == 0 or rng.chance(0.5)) else 0)
                            name, cur = "entry[%d].%s" % (k, "block" if (fo - o - co) % 8 == 4 else "hash"), s.u32(fo)
                            new = new_value(rng, cur, 4)
                            s.p32(fo, new)
                    if seal:
                        s.seal_dx(ino, node["pblk"], co)
                    what, cls = "dir inode[%d] htree node lblk %d %s %#x->%#x" % (ino, node["lblk"], name, cur, new), "dx." + name.split("[")[0]
                else:
                    lblk, pblk = rng.choice(blocks)
                    o = pblk * bs
                    # walk the entries of that block as they are
                    offs = []
                    p = 0
                    while p + 8 <= bs and len(offs) < 400:
                        rl = s.u16(o + p + 4)
                        offs.append(p)
                        if rl < 8 or rl % 4:
                            break
                        p += rl
                    p = rng.choice(offs)
                    if rng.chance(0.15):
                        nl = s.d[o + p + 6]
                        if nl:
                            q = o + p + 8 + rng.below(nl)
                            s.w(q, bytes([rng.choice([0, 0x2F, s.d[q] ^ 1])]))
                            name, cur, new = "name byte", 0, 0
                        else:
                            continue
                    else:
                        name, cur, new = _field(rng, s, o + p, DIRENT)
                    if seal:
                        s.seal_dir_leaf(ino, pblk)
                    what, cls = "dir inode[%d] lblk %d entry@%d %s %#x->%#x" % (ino, lblk, p, name, cur, new), "dirent." + name.replace(" ", "_")
            elif kind == "xattr_block":
                cand = [(n_, i) for n_, i in live_inodes() if i.file_acl]
                if not cand:
                    continue
                ino, i = rng.choice(cand)
                blk = i.file_acl
                if not (0 < blk < fs.sb["s_blocks_count"]):
                    continue
                o = blk * bs
                if rng.chance(0.35):
                    name, cur, new = _field(rng, s, o, XHDR)
                else:
                    # entries start at 32; pick the first or second
                    eo = 32
                    if rng.chance(0.4):
                        nl = s.d[o + eo]
                        eo2 = eo + ((16 + nl + 3) & ~3)
                        if eo2 + 16 < bs and s.u32(o + eo2) != 0:
                            eo = eo2
                    name, cur, new = _field(rng, s, o + eo, XENT)
                if seal:
                    s.seal_xattr_block(blk)
                what, cls = "xattr block %d (inode %d) %s %#x->%#x" % (blk, ino, name, cur, new), "xattr_block." + name
        except (refext4.FormatError, struct.error, IndexError, KeyError):
            continue
        if not what or not s.touched:
            continue
        if seal and fs.csum:
            cls += "~sealed"
            what += " (checksum re-sealed)"
        recs = s.faults(what, cls)
        out.append(recs)
        # later faults see the earlier ones
        data = bytes(s.d)
        try:
            fs = RefFS(data=data)
        except Exception:
            break
        inodes = None
    flat = []
    for recs in out:
        flat.extend(recs)
    return flat, [recs[0]["what"] for recs in out if recs]


# ----------------------------------------------------------------------------- allocation-summary faults (C05)
def gen_summary_faults(rng, data, n=1):
    """Faults confined to allocation summaries and checksum fields: bitmap bits, free/used counts in
    descriptors and superblock, descriptor flags, bg_itable_unused, and the checksum *fields* of
    otherwise intact metadata objects.  No file content, inode field (other than its checksum),
    directory entry or mapping is touched."""
    fs = RefFS(data=bytes(data))
    bs = fs.block_size
    out = []
    live = None
    tries = 0
    while len(out) < n and tries < 40:
        tries += 1
        s = Sealer(data, fs)
        kind = rng.weighted([("bbitmap", 5), ("ibitmap", 3), ("gd_count", 4), ("gd_flags", 2), ("itable_unused", 2),
                             ("gd_csum", 2), ("bitmap_csum", 2), ("sb_count", 2), ("sb_csum", 1), ("inode_csum", 3),
                             ("dir_csum", 2), ("extent_csum", 1), ("xattr_csum", 1)])
        seal = rng.chance(0.5)
        what = cls = None
        try:
            g = rng.below(fs.group_count)
            gd = fs.group_desc(g)
            goff = gd["offset"]
            if kind in ("bbitmap", "ibitmap"):
                blk = gd["bg_block_bitmap"] if kind == "bbitmap" else gd["bg_inode_bitmap"]
                nbits = fs.clusters_per_group if kind == "bbitmap" else fs.inodes_per_group
                bit = rng.below(nbits)
                o = blk * bs + bit // 8
                how = rng.below(3)
                if how == 0:
                    s.w(o, bytes([s.d[o] ^ (1 << (bit % 8))]))
                    what, cls = "%s[%d] bit %d flipped" % (kind, g, bit), kind + ".bit"
                else:
                    ln = min(rng.choice([1, 2, 8, 32]), (nbits + 7) // 8 - bit // 8)
                    s.w(o, (b"\0" if how == 1 else b"\xff") * ln)
                    what, cls = "%s[%d] %d byte(s)@%d %s" % (kind, g, ln, bit // 8, "zeroed" if how == 1 else "set"), \
                        kind + (".zero" if how == 1 else ".ones")
                if seal:
                    s.seal_bitmaps(g)
            elif kind == "gd_count":
                name, off = rng.choice([("bg_free_blocks_count_lo", 12), ("bg_free_inodes_count_lo", 14), ("bg_used_dirs_count_lo", 16)])
                cur = s.u16(goff + off)
                new = new_value(rng, cur, 2)
                s.p16(goff + off, new)
                if seal:
                    s.seal_gd(g)
                what, cls = "gd[%d].%s %d->%d" % (g, name, cur, new), "gd." + name
            elif kind == "gd_flags":
                cur = s.u16(goff + 18)
                new = cur ^ rng.choice([1, 2, 4])
                s.p16(goff + 18, new)
                if seal:
                    s.seal_gd(g)
                what, cls = "gd[%d].bg_flags %#x->%#x" % (g, cur, new), "gd.bg_flags"
            elif kind == "itable_unused":
                cur = s.u16(goff + 28)
                new = rng.choice([0, fs.inodes_per_group, max(0, cur - 1), min(0xFFFF, cur + 1), rng.below(fs.inodes_per_group + 1)])
                if new == cur:
                    new = cur ^ 1
                s.p16(goff + 28, new)
                if seal:
                    s.seal_gd(g)
                what, cls = "gd[%d].bg_itable_unused %d->%d" % (g, cur, new), "gd.bg_itable_unused"
            elif kind == "gd_csum":
                cur = s.u16(goff + 30)
                s.p16(goff + 30, new_value(rng, cur, 2))
                what, cls = "gd[%d].bg_checksum" % g, "gd.bg_checksum"
            elif kind == "bitmap_csum":
                off = rng.choice([24, 26] + ([56, 58] if fs.desc_size >= 64 else []))
                cur = s.u16(goff + off)
                s.p16(goff + off, new_value(rng, cur, 2))
                if seal:
                    s.seal_gd(g)
                what, cls = "gd[%d] bitmap checksum field @%d" % (g, off), "gd.bitmap_csum"
            elif kind == "sb_count":
                name, off = rng.choice([("s_free_blocks_count_lo", 12), ("s_free_inodes_count", 16)])
                cur = s.u32(1024 + off)
                new = new_value(rng, cur, 4)
                s.p32(1024 + off, new)
                if seal:
                    s.seal_super()
                what, cls = "sb.%s %d->%d" % (name, cur, new), "sb." + name
            elif kind == "sb_csum":
                if not fs.csum:
                    continue
                cur = s.u32(1024 + 1020)
                s.p32(1024 + 1020, new_value(rng, cur, 4))
                what, cls = "sb.s_checksum", "sb.s_checksum"
            else:
                if not fs.csum:
                    continue
                if live is None:
                    live = [(n_, i) for n_, i in fs.iter_inodes() if i.mode and i.links_count and not i.dtime
                            and n_ >= fs.sb["s_first_ino"] or n_ == 2][:3000]
                if not live:
                    continue
                ino, i = rng.choice(live)
                ioff = fs.inode_loc(ino)
                if kind == "inode_csum":
                    off = 0x7C if (rng.chance(0.6) or fs.inode_size <= 128) else 0x82
                    if off == 0x82 and s.u16(ioff + 0x80) < 4:
                        off = 0x7C
                    cur = s.u16(ioff + off)
                    s.p16(ioff + off, new_value(rng, cur, 2))
                    what, cls = "inode[%d] checksum field @%#x" % (ino, off), "inode.checksum"
                elif kind == "dir_csum":
                    dirs = [(n_, x) for n_, x in live if (x.mode & 0xF000) == 0x4000 and not (x.flags & 0x10000000)]
                    if not dirs:
                        continue
                    ino, i = rng.choice(dirs)
                    blocks = fs.dir_blocks(i)
                    if not blocks:
                        continue
                    lblk, pblk = rng.choice(blocks)
                    o = pblk * bs
                    if bytes(s.d[o + bs - 12:o + bs - 4]) != b"\0\0\0\0\x0c\0\0\xde":
                        continue      # an htree interior node: its checksum lives elsewhere; leave it alone
                    cur = s.u32(o + bs - 4)
                    s.p32(o + bs - 4, new_value(rng, cur, 4))
                    what, cls = "dir inode[%d] lblk %d leaf checksum" % (ino, lblk), "dir.leaf_checksum"
                elif kind == "extent_csum":
                    cand = [(n_, x) for n_, x in live if (x.flags & 0x80000) and not (x.flags & 0x10000000)]
                    rng.shuffle(cand)
                    hit = False
                    for ino, i in cand[:60]:
                        _e, tree = fs.extents(i)
                        if tree:
                            blk = rng.choice(tree)
                            o = blk * bs
                            emax = s.u16(o + 4)
                            co = o + 12 + 12 * emax
                            cur = s.u32(co)
                            s.p32(co, new_value(rng, cur, 4))
                            what, cls = "inode[%d] extent block %d checksum" % (ino, blk), "extent_block.checksum"
                            hit = True
                            break
                    if not hit:
                        continue
                else:
                    cand = [(n_, x) for n_, x in live if x.file_acl]
                    if not cand:
                        continue
                    ino, i = rng.choice(cand)
                    o = i.file_acl * bs
                    cur = s.u32(o + 0x10)
                    s.p32(o + 0x10, new_value(rng, cur, 4))
                    what, cls = "xattr block %d (inode %d) checksum" % (i.file_acl, ino), "xattr_block.checksum"
        except (refext4.FormatError, struct.error, IndexError, KeyError):
            continue
        if not what or not s.touched:
            continue
        if seal and fs.csum and "checksum" not in cls and "csum" not in cls:
            cls += "~sealed"
            what += " (checksum re-sealed)"
        out.append(s.faults(what, cls))
        data = bytes(s.d)
        try:
            fs = RefFS(data=data)
        except Exception:
            break
        live = None
    flat = []
    for recs in out:
        flat.extend(recs)
    return flat
