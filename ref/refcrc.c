/* Tiny CRC helper for refext4.py (optional, loaded through ctypes).
 * gcc -O2 -shared -fPIC -o librefcrc.so refcrc.c
 * Tables are generated bit by bit from the polynomials; no code shared with e2fsprogs.
 */
#include <stdint.h>
#include <stddef.h>

static uint32_t t32c[256];
static uint16_t t16[256];
static uint32_t t32be[256];
static int ready;

static void init(void)
{
	unsigned i, k;
	for (i = 0; i < 256; i++) {
		uint32_t c = i;
		uint16_t d = (uint16_t) i;
		uint32_t e = (uint32_t) i << 24;
		for (k = 0; k < 8; k++) {
			c = (c >> 1) ^ ((c & 1) ? 0x82F63B78u : 0);
			d = (uint16_t) ((d >> 1) ^ ((d & 1) ? 0xA001u : 0));
			e = (e << 1) ^ ((e & 0x80000000u) ? 0x04C11DB7u : 0);
		}
		t32c[i] = c;
		t16[i] = d;
		t32be[i] = e;
	}
	ready = 1;
}

uint32_t ref_crc32c(uint32_t crc, const void *buf, size_t len)
{
	const unsigned char *p = buf;
	if (!ready)
		init();
	while (len--)
		crc = t32c[(crc ^ *p++) & 0xff] ^ (crc >> 8);
	return crc;
}

uint16_t ref_crc16(uint16_t crc, const void *buf, size_t len)
{
	const unsigned char *p = buf;
	if (!ready)
		init();
	while (len--)
		crc = (uint16_t) (t16[(crc ^ *p++) & 0xff] ^ (crc >> 8));
	return crc;
}

uint32_t ref_crc32_be(uint32_t crc, const void *buf, size_t len)
{
	const unsigned char *p = buf;
	if (!ready)
		init();
	while (len--)
		crc = t32be[((crc >> 24) ^ *p++) & 0xff] ^ (crc << 8);
	return crc;
}
