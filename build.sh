#!/bin/bash
# build.sh [flavour...] — build /repo's *current working tree* for simulation.
#
#   asan (default): gcc, -fsanitize=address,bounds, -DE2FSPROGS_VERIF, every tool linked with the shim
#   tsan          : clang, -fsanitize=thread, lib/ext2fs + support libs only (for the C17 race check)
#
# The tree is copied to $VERIF_BUILD/<flavour>/src (tracked + untracked-unignored files of /repo),
# configured out of tree in $VERIF_BUILD/<flavour>/obj and built there.  A content hash of the
# copied tree decides whether anything has to be done; concurrent callers serialise on a lock.
set -euo pipefail
VERIF=$(cd "$(dirname "$0")" && pwd)
REPO=${VERIF_REPO:-/repo}
B=${VERIF_BUILD:-/var/tmp/e2fs-verif-build}
FLAVOURS=("$@")
[ ${#FLAVOURS[@]} -eq 0 ] && FLAVOURS=(asan)
mkdir -p "$B"
exec 9>"$B/.lock"
flock 9

WRAPS=$(tr -s ' \n' '\n' < "$VERIF/sim/shim/wrap_syms.txt" | sed '/^$/d' | sed 's/^/-Wl,--wrap=/' | tr '\n' ' ')

tree_hash() {
	( cd "$REPO" && git ls-files --cached --others --exclude-standard -z \
	  | { xargs -0 sha1sum 2>/dev/null || true; } | sha1sum | cut -d' ' -f1 )
}
verif_hash() {
	{ cat "$VERIF/sim/shim/simshim.c" "$VERIF/sim/shim/wrap_syms.txt" "$VERIF/build.sh" \
	    "$VERIF"/sim/harness/*.c "$VERIF"/sim/harness/*.h "$VERIF"/sim/harness/Makefile "$VERIF"/ref/refcrc.c 2>/dev/null || true; } | sha1sum | cut -d' ' -f1
}

sync_tree() {  # $1 = dest src dir
	local dst=$1
	mkdir -p "$dst"
	( cd "$REPO" && git ls-files --cached --others --exclude-standard -z ) > "$B/.files0"
	rsync -a --from0 --files-from="$B/.files0" "$REPO/" "$dst/" 2>/dev/null || true
	# remove files that disappeared from the working tree
	( cd "$dst" && find . -type f -print0 | sed -z 's|^\./||' | sort -z ) > "$B/.have0"
	sort -z "$B/.files0" > "$B/.want0"
	comm -z -23 "$B/.have0" "$B/.want0" | ( cd "$dst" && xargs -0 -r rm -f )
}

TH=$(tree_hash)
VH=$(verif_hash)

for FL in "${FLAVOURS[@]}"; do
	D="$B/$FL"
	STAMP="$D/.stamp"
	if [ -f "$STAMP" ] && [ "$(cat "$STAMP")" = "$TH $VH" ]; then
		continue
	fi
	echo "build.sh: building flavour $FL in $D" >&2
	mkdir -p "$D/obj"
	sync_tree "$D/src"
	case "$FL" in
	asan)
		SAN="-fsanitize=address -fsanitize=bounds"
		if [ ! -f "$D/obj/Makefile" ]; then
			( cd "$D/obj" && CC=gcc CFLAGS="-g -O1 -fno-omit-frame-pointer -DE2FSPROGS_VERIF $SAN" \
			  LDFLAGS="$SAN" \
			  ../src/configure --quiet --disable-nls --disable-fuse2fs --without-libarchive \
			  --disable-uuidd --disable-e2initrd-helper --disable-defrag >"$D/configure.log" 2>&1 ) \
			  || { echo "HARNESS-ERROR: configure failed, see $D/configure.log"; exit 2; }
		fi
		gcc -O1 -g -c "$VERIF/sim/shim/simshim.c" -o "$D/simshim.o.new"
		if ! cmp -s "$D/simshim.o.new" "$D/simshim.o" 2>/dev/null; then
			# the shim is not a make dependency of the tools: force a relink
			mv "$D/simshim.o.new" "$D/simshim.o"
			rm -f "$D/obj/misc/mke2fs" "$D/obj/misc/tune2fs" "$D/obj/misc/dumpe2fs" "$D/obj/misc/e2image" "$D/obj/misc/e2undo" \
			      "$D/obj/misc/e2freefrag" "$D/obj/misc/badblocks" "$D/obj/e2fsck/e2fsck" "$D/obj/debugfs/debugfs" \
			      "$D/obj/resize/resize2fs" "$D"/harness/* 2>/dev/null || true
		else
			rm -f "$D/simshim.o.new"
		fi
		( cd "$D/obj" && make -j16 V=0 libs >"$D/make.log" 2>&1 && \
		  make -j16 V=0 progs LDFLAGS="$SAN $WRAPS" SYSLIBS="$D/simshim.o -lpthread" >>"$D/make.log" 2>&1 ) \
		  || { echo "HARNESS-ERROR: build of /repo's working tree failed, see $D/make.log"; tail -30 "$D/make.log"; exit 2; }
		# the tools must actually contain the shim; relink if an earlier link was done without it
		if [ -f "$VERIF/sim/harness/Makefile" ]; then
			make -s -C "$VERIF/sim/harness" OBJ="$D/obj" SRC="$D/src" OUT="$D/harness" SAN="$SAN" WRAPS="$WRAPS" SHIM="$D/simshim.o" \
			  >>"$D/make.log" 2>&1 || { echo "HARNESS-ERROR: harness drivers failed to build, see $D/make.log"; tail -30 "$D/make.log"; exit 2; }
		fi
		;;
	tsan)
		SAN="-fsanitize=thread"
		if [ ! -f "$D/obj/Makefile" ]; then
			( cd "$D/obj" && CC=clang CFLAGS="-g -O1 -fno-omit-frame-pointer -DE2FSPROGS_VERIF $SAN" \
			  LDFLAGS="$SAN" \
			  ../src/configure --quiet --disable-nls --disable-fuse2fs --without-libarchive \
			  --disable-uuidd --disable-e2initrd-helper --disable-defrag >"$D/configure.log" 2>&1 ) \
			  || { echo "HARNESS-ERROR: configure (tsan) failed, see $D/configure.log"; exit 2; }
		fi
		clang -O1 -g -c "$VERIF/sim/shim/simshim.c" -o "$D/simshim.o"
		( cd "$D/obj" && make -j16 V=0 libs >"$D/make.log" 2>&1 ) \
		  || { echo "HARNESS-ERROR: tsan build failed, see $D/make.log"; tail -30 "$D/make.log"; exit 2; }
		if [ -f "$VERIF/sim/harness/Makefile" ]; then
			make -s -C "$VERIF/sim/harness" tsan CC=clang OBJ="$D/obj" SRC="$D/src" OUT="$D/harness" SAN="$SAN" WRAPS="$WRAPS" SHIM="$D/simshim.o" \
			  >>"$D/make.log" 2>&1 || { echo "HARNESS-ERROR: tsan harness failed to build, see $D/make.log"; tail -30 "$D/make.log"; exit 2; }
		fi
		;;
	*) echo "unknown flavour $FL"; exit 2 ;;
	esac
	echo "$TH $VH" > "$STAMP"
done
# optional C helper for the reference CRCs
if [ -f "$VERIF/ref/refcrc.c" ] && { [ ! -f "$VERIF/ref/librefcrc.so" ] || [ "$VERIF/ref/refcrc.c" -nt "$VERIF/ref/librefcrc.so" ]; }; then
	gcc -O2 -shared -fPIC -o "$VERIF/ref/librefcrc.so.tmp" "$VERIF/ref/refcrc.c" && mv "$VERIF/ref/librefcrc.so.tmp" "$VERIF/ref/librefcrc.so"
fi
exit 0
