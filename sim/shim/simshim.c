/*
 * simshim.c — the simulator side that lives inside every simulated e2fsprogs process.
 *
 * Linked into each tool with -Wl,--wrap=<sym> for the libc symbols listed in
 * wrap_syms.txt, so that every call the *repository's* objects make to the device,
 * the clock, the random source, the CPU count and the pthread scheduler ends up here.
 * Nothing inside libc/libasan/libuuid is redirected.
 *
 * The process draws nothing from the real world: its plan file (env SIM_PLAN) decides
 * which paths are simulated devices, what the clock says, what the random stream is,
 * how many CPUs exist, which thread runs next, and which faults fire at which events.
 * Without SIM_PLAN every wrapper is a pure pass-through.
 *
 * Compiled WITHOUT sanitizer instrumentation (also in the TSan flavour: the futex
 * hand-off of the scheduler must be invisible to TSan's happens-before analysis).
 */
#define _GNU_SOURCE
#define _LARGEFILE64_SOURCE
#include <errno.h>
#include <fcntl.h>
#include <limits.h>
#include <linux/falloc.h>
#include <linux/fs.h>
#include <linux/futex.h>
#include <pthread.h>
#include <stdarg.h>
#include <stdint.h>
#include <stdio.h>
#include <stdlib.h>
#include <string.h>
#include <sys/ioctl.h>
#include <sys/stat.h>
#include <sys/sysmacros.h>
#include <linux/fiemap.h>
#include <sys/syscall.h>
#include <sys/time.h>
#include <sys/types.h>
#include <sys/uio.h>
#include <time.h>
#include <unistd.h>

/* ------------------------------------------------------------------ real symbols */
int __real_open(const char *, int, ...);
int __real_open64(const char *, int, ...);
int __real_close(int);
ssize_t __real_read(int, void *, size_t);
ssize_t __real_write(int, const void *, size_t);
ssize_t __real_pread(int, void *, size_t, off_t);
ssize_t __real_pread64(int, void *, size_t, off64_t);
ssize_t __real_pwrite(int, const void *, size_t, off_t);
ssize_t __real_pwrite64(int, const void *, size_t, off64_t);
off_t __real_lseek(int, off_t, int);
off64_t __real_lseek64(int, off64_t, int);
int __real_fsync(int);
int __real_fdatasync(int);
int __real_ftruncate(int, off_t);
int __real_ftruncate64(int, off64_t);
int __real_fallocate(int, int, off_t, off_t);
int __real_fallocate64(int, int, off64_t, off64_t);
int __real_posix_fadvise(int, off_t, off_t, int);
int __real_posix_fadvise64(int, off64_t, off64_t, int);
int __real_fstat(int, struct stat *);
int __real_fstat64(int, struct stat64 *);
int __real_stat(const char *, struct stat *);
int __real_stat64(const char *, struct stat64 *);
int __real_lstat(const char *, struct stat *);
int __real_lstat64(const char *, struct stat64 *);
int __real_ioctl(int, unsigned long, ...);
time_t __real_time(time_t *);
int __real_gettimeofday(struct timeval *, void *);
int __real_clock_gettime(clockid_t, struct timespec *);
unsigned int __real_sleep(unsigned int);
int __real_usleep(useconds_t);
int __real_nanosleep(const struct timespec *, struct timespec *);
long __real_sysconf(int);
int __real_gethostname(char *, size_t);
long __real_random(void);
void __real_srandom(unsigned int);
int __real_rand(void);
void __real_srand(unsigned int);
__attribute__((weak)) void __real_uuid_generate(unsigned char *);
__attribute__((weak)) void __real_uuid_generate_random(unsigned char *);
__attribute__((weak)) void __real_uuid_generate_time(unsigned char *);
int __real_pthread_create(pthread_t *, const pthread_attr_t *, void *(*)(void *), void *);
int __real_pthread_join(pthread_t, void **);
int __real_pthread_mutex_lock(pthread_mutex_t *);
int __real_pthread_mutex_unlock(pthread_mutex_t *);
__attribute__((weak)) char *__real_blkid_get_devname(void *, const char *, const char *);

/* ------------------------------------------------------------------ plan */
#define MAXDEV 8
#define MAXFD 4096
#define MAXFAULT 64
#define MAXT 64

enum {
	FK_CRASH = 1,  /* die before the nth mutating/barrier event                  */
	FK_TORN,       /* nth W: write first a sectors, then die                     */
	FK_EIO_W,      /* nth W (a consecutive): -1/EIO, device untouched             */
	FK_EIO_R,      /* nth R (a consecutive): -1/EIO                               */
	FK_SHORT_W,    /* nth W: transfer a bytes                                     */
	FK_SHORT_R,    /* nth R: transfer a bytes                                     */
	FK_ENOSPC,     /* nth W (a consecutive): -1/ENOSPC                            */
	FK_FSYNC_FAIL, /* nth F (a consecutive): -1/EIO                               */
	FK_LOST_W,     /* nth W: success reported, nothing written                    */
	FK_MISDIR_W,   /* nth W: payload lands at offset a                            */
	FK_FLIP_W,     /* nth W: bit b of byte a%len of the payload inverted          */
	FK_BAD_R,      /* persistent: reads overlapping [a, a+b) fail with EIO        */
	FK_BAD_W,      /* persistent: writes overlapping [a, a+b) fail with EIO       */
	FK_SRC_SHORT,  /* host-tree reads return at most a bytes (every b-th read)    */
	FK_SRC_NOSEEKDATA, /* lseek(SEEK_DATA/SEEK_HOLE) on host files: -1/EINVAL      */
	FK_SRC_NOFIEMAP,   /* ioctl(FS_IOC_FIEMAP) on host files: -1/EOPNOTSUPP        */
	FK_EOF_R,      /* persistent: device appears to end at byte a (reads beyond return 0 / short) */
};

struct fault {
	int kind, dev;          /* dev < 0: any device */
	long nth;               /* 1-based index among matching events */
	long long a, b;
	long seen;
	int id;
};

struct simdev {
	char path[PATH_MAX];
	char abspath[PATH_MAX];   /* the same file named from "/" (plans name devices relative to the cwd) */
	int blk;                /* personality: 0 regular file, 1 block device            */
	int discard_zeroes;     /* blk personality: does BLKDISCARD zero?                  */
	int no_discard;         /* blk personality: BLKDISCARD -> EOPNOTSUPP                */
	int ro;                 /* blk personality: BLKROGET says read-only                 */
};

static struct {
	int active;
	int logfd;
	struct simdev dev[MAXDEV];
	int ndev;
	char src_prefix[PATH_MAX];
	int64_t clock_us, clock_start_us, cost_us;
	uint64_t rng;
	int ncpu;
	int sched_on;
	uint64_t sched_rng;
	struct fault faults[MAXFAULT];
	int nfault;
	long budget;            /* max device events; 0 = unlimited */
	char extjournal[PATH_MAX];
} P;

static unsigned char fdmap[MAXFD];   /* 0 none, 1..MAXDEV device index+1, 200 host-tree source */
static uint32_t ev_seq;
static long n_events;
static volatile int biglock;

static void die(const char *msg)
{
	(void)!__real_write(2, "simshim: ", 9);
	(void)!__real_write(2, msg, strlen(msg));
	(void)!__real_write(2, "\n", 1);
	_exit(99);
}

static int fault_kind(const char *s)
{
	static const struct { const char *n; int k; } t[] = {
		{"crash", FK_CRASH}, {"torn", FK_TORN}, {"eio_w", FK_EIO_W}, {"eio_r", FK_EIO_R},
		{"short_w", FK_SHORT_W}, {"short_r", FK_SHORT_R}, {"enospc", FK_ENOSPC},
		{"fsync_fail", FK_FSYNC_FAIL}, {"lost_w", FK_LOST_W}, {"misdir_w", FK_MISDIR_W},
		{"flip_w", FK_FLIP_W}, {"bad_r", FK_BAD_R}, {"bad_w", FK_BAD_W},
		{"src_short", FK_SRC_SHORT}, {"src_noseekdata", FK_SRC_NOSEEKDATA},
		{"src_nofiemap", FK_SRC_NOFIEMAP}, {"eof_r", FK_EOF_R}, {0, 0} };
	for (int i = 0; t[i].n; i++)
		if (!strcmp(t[i].n, s))
			return t[i].k;
	return 0;
}

static int inited;
static void sim_atexit(void);

static void sim_init(void)
{
	if (inited)
		return;
	inited = 1;
	const char *pp = getenv("SIM_PLAN");
	if (!pp || !*pp)
		return;
	FILE *f = fopen(pp, "r");
	if (!f)
		die("cannot open SIM_PLAN");
	char line[2 * PATH_MAX], key[64];
	P.logfd = -1;
	P.ncpu = 1;
	P.cost_us = 100;
	P.clock_start_us = 1500000000LL * 1000000LL;
	P.rng = 0x9E3779B97F4A7C15ull;
	while (fgets(line, sizeof line, f)) {
		char a1[PATH_MAX] = "", a2[64] = "";
		long long v1 = 0, v2 = 0, v3 = 0, v4 = 0;
		if (sscanf(line, "%63s", key) != 1 || key[0] == '#')
			continue;
		if (!strcmp(key, "log")) {
			sscanf(line, "%*s %4095s", a1);
			P.logfd = __real_open(a1, O_WRONLY | O_CREAT | O_APPEND | O_CLOEXEC, 0644);
			if (P.logfd < 0)
				die("cannot open event log");
			/* keep the log fd out of the way of the low fd numbers tools may print */
			int nfd = fcntl(P.logfd, F_DUPFD_CLOEXEC, 1000);
			if (nfd >= 0) {
				__real_close(P.logfd);
				P.logfd = nfd;
			}
		} else if (!strcmp(key, "dev")) {
			/* dev <index> <path> [blk|reg] [dz|nodz] [nodiscard] [ro] */
			char o1[32] = "", o2[32] = "", o3[32] = "", o4[32] = "";
			int idx;
			if (sscanf(line, "%*s %d %4095s %31s %31s %31s %31s", &idx, a1, o1, o2, o3, o4) < 2 ||
			    idx < 0 || idx >= MAXDEV)
				die("bad dev line");
			struct simdev *d = &P.dev[idx];
			strncpy(d->path, a1, sizeof d->path - 1);
			if (a1[0] != '/') {
				char cwd[PATH_MAX];
				if (getcwd(cwd, sizeof cwd))
					snprintf(d->abspath, sizeof d->abspath, "%s/%s", cwd, a1);
			}
			const char *os[] = {o1, o2, o3, o4};
			for (int i = 0; i < 4; i++) {
				if (!strcmp(os[i], "blk")) d->blk = 1;
				else if (!strcmp(os[i], "dz")) d->discard_zeroes = 1;
				else if (!strcmp(os[i], "nodiscard")) d->no_discard = 1;
				else if (!strcmp(os[i], "ro")) d->ro = 1;
			}
			if (idx >= P.ndev)
				P.ndev = idx + 1;
		} else if (!strcmp(key, "src")) {
			sscanf(line, "%*s %4095s", P.src_prefix);
		} else if (!strcmp(key, "extjournal")) {
			sscanf(line, "%*s %4095s", P.extjournal);
		} else if (!strcmp(key, "clock")) {
			sscanf(line, "%*s %lld %lld", &v1, &v2);
			P.clock_start_us = v1 * 1000000LL;
			if (v2 > 0)
				P.cost_us = v2;
		} else if (!strcmp(key, "rand")) {
			sscanf(line, "%*s %llu", (unsigned long long *)&v1);
			P.rng = (uint64_t)v1 * 0x9E3779B97F4A7C15ull + 0x2545F4914F6CDD1Dull;
			if (!P.rng)
				P.rng = 1;
		} else if (!strcmp(key, "ncpu")) {
			sscanf(line, "%*s %lld", &v1);
			P.ncpu = (int)v1;
		} else if (!strcmp(key, "sched")) {
			sscanf(line, "%*s %63s", a2);
			if (strcmp(a2, "off")) {
				P.sched_on = 1;
				P.sched_rng = strtoull(a2, 0, 0) * 0xD1342543DE82EF95ull + 1;
			}
		} else if (!strcmp(key, "budget")) {
			sscanf(line, "%*s %lld", &v1);
			P.budget = v1;
		} else if (!strcmp(key, "fault")) {
			/* fault <kind> <dev> <nth> <a> <b> */
			if (P.nfault >= MAXFAULT)
				die("too many faults");
			if (sscanf(line, "%*s %63s %lld %lld %lld %lld", a2, &v1, &v2, &v3, &v4) < 3)
				die("bad fault line");
			struct fault *ft = &P.faults[P.nfault];
			ft->kind = fault_kind(a2);
			if (!ft->kind)
				die("unknown fault kind");
			ft->dev = (int)v1;
			ft->nth = (long)v2;
			ft->a = v3;
			ft->b = v4;
			ft->id = ++P.nfault;
		}
	}
	fclose(f);
	P.clock_us = P.clock_start_us;
	P.active = 1;
	atexit(sim_atexit);
}

__attribute__((constructor)) static void sim_ctor(void) { sim_init(); }

/* ------------------------------------------------------------------ small utilities */
static uint64_t xs(uint64_t *s)
{
	uint64_t x = *s;
	x ^= x << 13;
	x ^= x >> 7;
	x ^= x << 17;
	*s = x;
	return x * 0x2545F4914F6CDD1Dull;
}

static void lock(void)
{
	while (__atomic_exchange_n(&biglock, 1, __ATOMIC_ACQUIRE))
		syscall(SYS_sched_yield);
}
static void unlock(void) { __atomic_store_n(&biglock, 0, __ATOMIC_RELEASE); }

static __thread int my_id;            /* simulated thread id, 0 = main */

struct evrec {
	uint32_t magic, seq;
	uint8_t kind, dev, fault, flags;
	uint32_t tid;
	int64_t off, len, res;
	uint32_t plen, pad;
};
#define EV_MAGIC 0x31564553u /* "SEV1" */

static void log_event(int kind, int dev, int fault, int64_t off, int64_t len, int64_t res,
		      const void *payload, size_t plen)
{
	if (P.logfd < 0)
		return;
	struct evrec r = { EV_MAGIC, ++ev_seq, (uint8_t)kind, (uint8_t)dev, (uint8_t)fault, 0,
			   (uint32_t)my_id, off, len, res, (uint32_t)plen, 0 };
	struct iovec iov[2] = { { &r, sizeof r }, { (void *)payload, plen } };
	ssize_t w = writev(P.logfd, iov, plen ? 2 : 1);
	(void)w;
}

static int dev_of_path(const char *p)
{
	if (!P.active || !p)
		return -1;
	for (int i = 0; i < P.ndev; i++) {
		if (P.dev[i].path[0] && !strcmp(P.dev[i].path, p))
			return i;
		if (P.dev[i].abspath[0] && !strcmp(P.dev[i].abspath, p))
			return i;
	}
	return -1;
}

static int is_src_path(const char *p)
{
	size_t n = strlen(P.src_prefix);
	if (!P.active || !n || !p)
		return 0;
	if (p[0] == '/')
		return !strncmp(p, P.src_prefix, n);
	/* mke2fs -d walks the source tree with chdir() and relative names */
	char cwd[PATH_MAX];
	if (!getcwd(cwd, sizeof cwd))
		return 0;
	size_t c = strlen(cwd);
	if (c >= n)
		return !strncmp(cwd, P.src_prefix, n);
	return 0;
}

/* The simulated host filesystem has no access-time or change-time clock of its own: atime and
 * ctime always equal mtime.  (Real ctime/atime are set by the kernel from the real clock when the
 * orchestrator creates the tree and when a tool reads it -- a source of nondeterminism.) */
#define NORM_TIMES(st) do { (st)->st_atim = (st)->st_mtim; (st)->st_ctim = (st)->st_mtim; } while (0)

static inline int fd_dev(int fd)
{
	if (!P.active || fd < 0 || fd >= MAXFD)
		return -1;
	int v = fdmap[fd];
	return (v >= 1 && v <= MAXDEV) ? v - 1 : -1;
}
static inline int fd_src(int fd) { return P.active && fd >= 0 && fd < MAXFD && fdmap[fd] == 200; }

/* ------------------------------------------------------------------ scheduler */
static volatile int turn;
static volatile int nthreads = 1;
static volatile int alive[MAXT] = { 1 };
static void *volatile blocked_mutex[MAXT];
static volatile int blocked_join[MAXT];  /* id+1 of the thread waited for, 0 none */
static pthread_t tids[MAXT];
static uint64_t sched_digest = 1469598103934665603ull;
static long sched_points;

static void fwait(volatile int *addr, int val) { syscall(SYS_futex, addr, FUTEX_WAIT, val, NULL, NULL, 0); }
static void fwake(volatile int *addr) { syscall(SYS_futex, addr, FUTEX_WAKE, INT_MAX, NULL, NULL, 0); }

static void wait_turn(void)
{
	int t;
	while ((t = __atomic_load_n(&turn, __ATOMIC_ACQUIRE)) != my_id)
		fwait(&turn, t);
}

static int runnable(int i)
{
	if (!alive[i])
		return 0;
	if (blocked_mutex[i])
		return 0;
	if (blocked_join[i] && alive[blocked_join[i] - 1])
		return 0;
	return 1;
}

static void pick_next(void)
{
	int cand[MAXT], n = 0;
	for (int i = 0; i < nthreads; i++)
		if (runnable(i))
			cand[n++] = i;
	if (!n)
		die("scheduler: deadlock (no runnable thread)");
	int nx = n == 1 ? cand[0] : cand[xs(&P.sched_rng) % n];
	sched_digest = (sched_digest ^ (uint64_t)(nx + 1)) * 1099511628211ull;
	sched_points++;
	__atomic_store_n(&turn, nx, __ATOMIC_RELEASE);
	fwake(&turn);
}

static void sim_yield(void)
{
	if (!P.sched_on || nthreads <= 1)
		return;
	pick_next();
	wait_turn();
}

struct start { void *(*fn)(void *); void *arg; int id; };

static void *tramp(void *p)
{
	struct start s = *(struct start *)p;
	free(p);
	my_id = s.id;
	wait_turn();
	void *r = s.fn(s.arg);
	alive[my_id] = 0;
	pick_next();
	return r;
}

int __wrap_pthread_create(pthread_t *t, const pthread_attr_t *a, void *(*fn)(void *), void *arg)
{
	sim_init();
	if (!P.active || !P.sched_on)
		return __real_pthread_create(t, a, fn, arg);
	if (nthreads >= MAXT)
		die("too many threads");
	struct start *s = malloc(sizeof *s);
	s->fn = fn;
	s->arg = arg;
	s->id = nthreads;
	alive[s->id] = 1;
	blocked_mutex[s->id] = 0;
	blocked_join[s->id] = 0;
	__atomic_store_n(&nthreads, nthreads + 1, __ATOMIC_RELEASE);
	int r = __real_pthread_create(t, a, tramp, s);
	if (r) {
		alive[s->id] = 0;
		free(s);
		return r;
	}
	tids[s->id] = *t;
	sim_yield();
	return 0;
}

int __wrap_pthread_join(pthread_t t, void **rv)
{
	if (!P.active || !P.sched_on)
		return __real_pthread_join(t, rv);
	int id = -1;
	for (int i = 1; i < nthreads; i++)
		if (pthread_equal(tids[i], t))
			id = i;
	if (id > 0 && alive[id]) {
		blocked_join[my_id] = id + 1;
		pick_next();
		wait_turn();
		blocked_join[my_id] = 0;
	}
	return __real_pthread_join(t, rv);
}

int __wrap_pthread_mutex_lock(pthread_mutex_t *m)
{
	if (!P.active || !P.sched_on || nthreads <= 1)
		return __real_pthread_mutex_lock(m);
	sim_yield();
	while (pthread_mutex_trylock(m) != 0) {
		blocked_mutex[my_id] = m;
		pick_next();
		wait_turn();
	}
	return 0;
}

int __wrap_pthread_mutex_unlock(pthread_mutex_t *m)
{
	if (!P.active || !P.sched_on || nthreads <= 1)
		return __real_pthread_mutex_unlock(m);
	int r = __real_pthread_mutex_unlock(m);
	for (int i = 0; i < nthreads; i++)
		if (blocked_mutex[i] == m)
			blocked_mutex[i] = 0;
	sim_yield();
	return r;
}

/* ------------------------------------------------------------------ event core */
#define CL_R 1
#define CL_W 2
#define CL_F 4
#define CL_M 8   /* mutating or barrier: crash points */

static void crash_now(int dev, int fid)
{
	log_event('K', dev, fid, 0, 0, 0, 0, 0);
	_exit(137);
}

/* Called with the big lock held, before the event is performed.  Returns the fault that
 * fires on this event (or NULL).  Crash faults do not return. */
static struct fault *match_fault(int dev, int cls, int64_t off, int64_t len)
{
	struct fault *hit = 0;
	n_events++;
	P.clock_us += P.cost_us;
	if (P.budget && n_events > P.budget) {
		log_event('B', dev, 0, n_events, 0, 0, 0, 0);
		_exit(124);
	}
	for (int i = 0; i < P.nfault; i++) {
		struct fault *f = &P.faults[i];
		if (f->dev >= 0 && f->dev != dev)
			continue;
		int want;
		switch (f->kind) {
		case FK_CRASH: want = CL_M; break;
		case FK_TORN: case FK_EIO_W: case FK_SHORT_W: case FK_ENOSPC: case FK_LOST_W:
		case FK_MISDIR_W: case FK_FLIP_W: want = CL_W; break;
		case FK_EIO_R: case FK_SHORT_R: want = CL_R; break;
		case FK_FSYNC_FAIL: want = CL_F; break;
		case FK_BAD_R:
			if ((cls & CL_R) && off < f->a + f->b && off + len > f->a && !hit)
				hit = f;
			continue;
		case FK_BAD_W:
			if ((cls & CL_W) && off < f->a + f->b && off + len > f->a && !hit)
				hit = f;
			continue;
		case FK_EOF_R:
			if ((cls & CL_R) && off + len > f->a && !hit)
				hit = f;
			continue;
		default: continue;
		}
		if (!(cls & want))
			continue;
		f->seen++;
		long reps = 1;
		if (f->kind == FK_EIO_W || f->kind == FK_EIO_R || f->kind == FK_ENOSPC ||
		    f->kind == FK_FSYNC_FAIL || f->kind == FK_LOST_W)
			reps = f->a > 0 ? f->a : 1;
		if (f->seen >= f->nth && f->seen < f->nth + reps) {
			if (f->kind == FK_CRASH)
				crash_now(dev, f->id);
			if (!hit)
				hit = f;
		}
	}
	return hit;
}

static ssize_t do_read(int fd, int dev, void *buf, size_t n, int64_t off, int positional)
{
	sim_yield();
	lock();
	struct fault *f = match_fault(dev, CL_R, off, (int64_t)n);
	ssize_t r;
	int fid = f ? f->id : 0;
	size_t want = n;
	if (f && (f->kind == FK_EIO_R || f->kind == FK_BAD_R)) {
		errno = EIO;
		r = -1;
		goto out;
	}
	if (f && f->kind == FK_SHORT_R && (size_t)f->a < n)
		want = (size_t)f->a;
	if (f && f->kind == FK_EOF_R)
		want = off >= f->a ? 0 : (size_t)(f->a - off);
	if (positional)
		r = want ? __real_pread64(fd, buf, want, off) : 0;
	else
		r = want ? __real_read(fd, buf, want) : 0;
out:
	{
		int e = errno;
		log_event('R', dev, fid, off, (int64_t)n, r, 0, 0);
		unlock();
		errno = e;
	}
	return r;
}

static ssize_t do_write(int fd, int dev, const void *buf, size_t n, int64_t off, int positional)
{
	sim_yield();
	lock();
	struct fault *f = match_fault(dev, CL_W | CL_M, off, (int64_t)n);
	ssize_t r;
	int fid = f ? f->id : 0, e;
	if (!f) {
		r = positional ? __real_pwrite64(fd, buf, n, off) : __real_write(fd, buf, n);
		e = errno;
		log_event('W', dev, 0, off, (int64_t)n, r, buf, r > 0 ? (size_t)r : 0);
		unlock();
		errno = e;
		return r;
	}
	switch (f->kind) {
	case FK_EIO_W: case FK_BAD_W:
		log_event('W', dev, fid, off, (int64_t)n, -1, 0, 0);
		unlock();
		errno = EIO;
		return -1;
	case FK_ENOSPC:
		log_event('W', dev, fid, off, (int64_t)n, -1, 0, 0);
		unlock();
		errno = ENOSPC;
		return -1;
	case FK_LOST_W:
		/* the caller is told everything went fine; the medium never sees it */
		if (!positional)
			__real_lseek64(fd, (off64_t)n, SEEK_CUR);
		log_event('L', dev, fid, off, (int64_t)n, (int64_t)n, buf, n);
		unlock();
		return (ssize_t)n;
	case FK_SHORT_W: {
		size_t k = (size_t)f->a < n ? (size_t)f->a : n;
		r = k ? (positional ? __real_pwrite64(fd, buf, k, off) : __real_write(fd, buf, k)) : 0;
		e = errno;
		log_event('W', dev, fid, off, (int64_t)n, r, buf, r > 0 ? (size_t)r : 0);
		unlock();
		errno = e;
		return r;
	}
	case FK_TORN: {
		size_t k = (size_t)f->a * 512;
		if (k > n)
			k = n;
		r = k ? __real_pwrite64(fd, buf, k, off) : 0;
		log_event('W', dev, fid, off, (int64_t)n, r, buf, r > 0 ? (size_t)r : 0);
		crash_now(dev, fid);
		return -1;
	}
	case FK_MISDIR_W:
		r = __real_pwrite64(fd, buf, n, (off64_t)f->a);
		if (!positional)
			__real_lseek64(fd, (off64_t)n, SEEK_CUR);
		log_event('W', dev, fid, f->a, (int64_t)n, r, buf, r > 0 ? (size_t)r : 0);
		unlock();
		return (ssize_t)n;
	case FK_FLIP_W: {
		unsigned char *c = malloc(n ? n : 1);
		memcpy(c, buf, n);
		if (n)
			c[(size_t)f->a % n] ^= (unsigned char)(1u << (f->b & 7));
		r = positional ? __real_pwrite64(fd, c, n, off) : __real_write(fd, c, n);
		e = errno;
		log_event('W', dev, fid, off, (int64_t)n, r, c, r > 0 ? (size_t)r : 0);
		free(c);
		unlock();
		errno = e;
		return r;
	}
	default:
		r = positional ? __real_pwrite64(fd, buf, n, off) : __real_write(fd, buf, n);
		e = errno;
		log_event('W', dev, 0, off, (int64_t)n, r, buf, r > 0 ? (size_t)r : 0);
		unlock();
		errno = e;
		return r;
	}
}

/* a mutating event without payload (truncate, zero range, punch, discard) or a barrier */
static struct fault *pre_simple(int dev, int cls, int64_t off, int64_t len)
{
	sim_yield();
	lock();
	return match_fault(dev, cls, off, len);
}
static void post_simple(int kind, int dev, struct fault *f, int64_t off, int64_t len, int64_t res)
{
	int e = errno;
	log_event(kind, dev, f ? f->id : 0, off, len, res, 0, 0);
	unlock();
	errno = e;
}

/* ------------------------------------------------------------------ open/close */
static int after_open(int fd, const char *path, int flags)
{
	if (fd < 0 || fd >= MAXFD || !P.active)
		return fd;
	int d = dev_of_path(path);
	if (d >= 0) {
		fdmap[fd] = (unsigned char)(d + 1);
		lock();
		n_events++;
		log_event('O', d, 0, flags, 0, fd, 0, 0);
		unlock();
	} else if (is_src_path(path)) {
		fdmap[fd] = 200;
	} else {
		fdmap[fd] = 0;
	}
	return fd;
}

int __wrap_open(const char *path, int flags, ...)
{
	mode_t mode = 0;
	sim_init();
	if (flags & (O_CREAT | O_TMPFILE)) {
		va_list ap;
		va_start(ap, flags);
		mode = va_arg(ap, mode_t);
		va_end(ap);
	}
	int d = dev_of_path(path);
	int f2 = flags;
	if (d >= 0)
		f2 &= ~(O_DIRECT | O_EXCL);   /* tmpfs has no O_DIRECT; O_EXCL on a "block device" means busy-check */
	return after_open(__real_open(path, f2, mode), path, flags);
}

int __wrap_open64(const char *path, int flags, ...)
{
	mode_t mode = 0;
	sim_init();
	if (flags & (O_CREAT | O_TMPFILE)) {
		va_list ap;
		va_start(ap, flags);
		mode = va_arg(ap, mode_t);
		va_end(ap);
	}
	int d = dev_of_path(path);
	int f2 = flags;
	if (d >= 0)
		f2 &= ~(O_DIRECT | O_EXCL);
	return after_open(__real_open64(path, f2, mode), path, flags);
}

int __wrap_close(int fd)
{
	int d = fd_dev(fd);
	if (d >= 0) {
		lock();
		log_event('C', d, 0, 0, 0, fd, 0, 0);
		unlock();
	}
	if (fd >= 0 && fd < MAXFD)
		fdmap[fd] = 0;
	return __real_close(fd);
}

/* ------------------------------------------------------------------ data path */
static ssize_t src_read(int fd, void *buf, size_t n, int64_t off, int positional)
{
	static long nreads;
	size_t want = n;
	for (int i = 0; i < P.nfault; i++) {
		struct fault *f = &P.faults[i];
		if (f->kind != FK_SRC_SHORT)
			continue;
		nreads++;
		long every = f->b > 0 ? (long)f->b : 1;
		if (nreads % every == 0 && (size_t)f->a < want && f->a > 0) {
			want = (size_t)f->a;
			f->seen++;
		}
		break;
	}
	return positional ? __real_pread64(fd, buf, want, off) : __real_read(fd, buf, want);
}

ssize_t __wrap_pread64(int fd, void *buf, size_t n, off64_t off)
{
	int d = fd_dev(fd);
	if (d >= 0)
		return do_read(fd, d, buf, n, off, 1);
	if (fd_src(fd))
		return src_read(fd, buf, n, off, 1);
	return __real_pread64(fd, buf, n, off);
}
ssize_t __wrap_pread(int fd, void *buf, size_t n, off_t off) { return __wrap_pread64(fd, buf, n, off); }

ssize_t __wrap_read(int fd, void *buf, size_t n)
{
	int d = fd_dev(fd);
	if (d >= 0)
		return do_read(fd, d, buf, n, __real_lseek64(fd, 0, SEEK_CUR), 0);
	if (fd_src(fd))
		return src_read(fd, buf, n, 0, 0);
	return __real_read(fd, buf, n);
}

ssize_t __wrap_pwrite64(int fd, const void *buf, size_t n, off64_t off)
{
	int d = fd_dev(fd);
	if (d >= 0)
		return do_write(fd, d, buf, n, off, 1);
	return __real_pwrite64(fd, buf, n, off);
}
ssize_t __wrap_pwrite(int fd, const void *buf, size_t n, off_t off) { return __wrap_pwrite64(fd, buf, n, off); }

ssize_t __wrap_write(int fd, const void *buf, size_t n)
{
	int d = fd_dev(fd);
	if (d >= 0)
		return do_write(fd, d, buf, n, __real_lseek64(fd, 0, SEEK_CUR), 0);
	return __real_write(fd, buf, n);
}

off64_t __wrap_lseek64(int fd, off64_t off, int whence)
{
	if (fd_src(fd) && (whence == SEEK_DATA || whence == SEEK_HOLE)) {
		for (int i = 0; i < P.nfault; i++)
			if (P.faults[i].kind == FK_SRC_NOSEEKDATA) {
				P.faults[i].seen++;
				errno = EINVAL;
				return -1;
			}
	}
	return __real_lseek64(fd, off, whence);
}
off_t __wrap_lseek(int fd, off_t off, int whence) { return __wrap_lseek64(fd, off, whence); }

static int do_fsync(int fd, int data)
{
	int d = fd_dev(fd);
	if (d < 0)
		return data ? __real_fdatasync(fd) : __real_fsync(fd);
	struct fault *f = pre_simple(d, CL_F | CL_M, 0, 0);
	int r = 0;
	if (f && f->kind == FK_FSYNC_FAIL) {
		errno = EIO;
		r = -1;
	}
	/* the real fsync of a tmpfs file is a no-op; the barrier is the log record */
	post_simple('F', d, f, 0, 0, r);
	return r;
}
int __wrap_fsync(int fd) { return do_fsync(fd, 0); }
int __wrap_fdatasync(int fd) { return do_fsync(fd, 1); }

int __wrap_ftruncate64(int fd, off64_t len)
{
	int d = fd_dev(fd);
	if (d < 0)
		return __real_ftruncate64(fd, len);
	struct fault *f = pre_simple(d, CL_M, 0, len);
	int r = __real_ftruncate64(fd, len);
	post_simple('T', d, f, 0, len, r);
	return r;
}
int __wrap_ftruncate(int fd, off_t len) { return __wrap_ftruncate64(fd, len); }

int __wrap_fallocate64(int fd, int mode, off64_t off, off64_t len)
{
	int d = fd_dev(fd);
	if (d < 0)
		return __real_fallocate64(fd, mode, off, len);
	if (P.dev[d].blk) {
		/* a block device node has no fallocate in this model */
		errno = EOPNOTSUPP;
		return -1;
	}
	int kind = (mode & FALLOC_FL_PUNCH_HOLE) ? 'P' : (mode & FALLOC_FL_ZERO_RANGE) ? 'Z' : 'A';
	struct fault *f = pre_simple(d, CL_M, off, len);
	int r = __real_fallocate64(fd, mode, off, len);
	post_simple(kind, d, f, off, len, r);
	return r;
}
int __wrap_fallocate(int fd, int mode, off_t off, off_t len) { return __wrap_fallocate64(fd, mode, off, len); }

int __wrap_posix_fadvise64(int fd, off64_t off, off64_t len, int adv)
{
	if (fd_dev(fd) >= 0)
		return 0;
	return __real_posix_fadvise64(fd, off, len, adv);
}
int __wrap_posix_fadvise(int fd, off_t off, off_t len, int adv) { return __wrap_posix_fadvise64(fd, off, len, adv); }

/* ------------------------------------------------------------------ stat / ioctl personality */
static void blkify64(int d, struct stat64 *st)
{
	if (d >= 0 && P.dev[d].blk) {
		st->st_mode = (st->st_mode & ~S_IFMT) | S_IFBLK;
		st->st_rdev = makedev(7, 100 + d);
	}
}
int __wrap_fstat64(int fd, struct stat64 *st)
{
	int r = __real_fstat64(fd, st);
	if (!r)
		blkify64(fd_dev(fd), st);
	if (!r && P.active && fd_dev(fd) < 0)
		NORM_TIMES(st);
	return r;
}
int __wrap_fstat(int fd, struct stat *st)
{
	int r = __real_fstat(fd, st);
	int d = fd_dev(fd);
	if (!r && d >= 0 && P.dev[d].blk) {
		st->st_mode = (st->st_mode & ~S_IFMT) | S_IFBLK;
		st->st_rdev = makedev(7, 100 + d);
	}
	if (!r && P.active && d < 0)
		NORM_TIMES(st);
	return r;
}
int __wrap_stat64(const char *p, struct stat64 *st)
{
	sim_init();
	int r = __real_stat64(p, st);
	if (!r)
		blkify64(dev_of_path(p), st);
	if (!r && P.active && dev_of_path(p) < 0)
		NORM_TIMES(st);
	return r;
}
int __wrap_lstat64(const char *p, struct stat64 *st)
{
	sim_init();
	int r = __real_lstat64(p, st);
	if (!r)
		blkify64(dev_of_path(p), st);
	if (!r && P.active && dev_of_path(p) < 0)
		NORM_TIMES(st);
	return r;
}
int __wrap_lstat(const char *p, struct stat *st)
{
	sim_init();
	int r = __real_lstat(p, st);
	if (!r && P.active && dev_of_path(p) < 0)
		NORM_TIMES(st);
	return r;
}
int __wrap_stat(const char *p, struct stat *st)
{
	sim_init();
	int r = __real_stat(p, st);
	int d = dev_of_path(p);
	if (!r && d >= 0 && P.dev[d].blk) {
		st->st_mode = (st->st_mode & ~S_IFMT) | S_IFBLK;
		st->st_rdev = makedev(7, 100 + d);
	}
	if (!r && P.active && d < 0)
		NORM_TIMES(st);
	return r;
}

int __wrap_ioctl(int fd, unsigned long req, ...)
{
	va_list ap;
	va_start(ap, req);
	void *arg = va_arg(ap, void *);
	va_end(ap);
	int d = fd_dev(fd);
	if (d >= 0 && P.dev[d].blk) {
		struct stat64 st;
		switch (req) {
		case BLKGETSIZE64:
			__real_fstat64(fd, &st);
			*(uint64_t *)arg = (uint64_t)st.st_size;
			return 0;
		case BLKGETSIZE:
			__real_fstat64(fd, &st);
			*(unsigned long *)arg = (unsigned long)(st.st_size / 512);
			return 0;
		case BLKSSZGET:
			*(int *)arg = 512;
			return 0;
		case BLKPBSZGET:
			*(unsigned int *)arg = 512;
			return 0;
		case BLKROGET:
			*(int *)arg = P.dev[d].ro;
			return 0;
		case BLKDISCARDZEROES:
			*(unsigned int *)arg = (unsigned int)P.dev[d].discard_zeroes;
			return 0;
		case BLKFLSBUF:
			return 0;
		case BLKDISCARD: {
			uint64_t *range = arg;
			if (P.dev[d].no_discard) {
				errno = EOPNOTSUPP;
				return -1;
			}
			struct fault *f = pre_simple(d, CL_M, (int64_t)range[0], (int64_t)range[1]);
			int r = 0;
			if (P.dev[d].discard_zeroes)
				r = __real_fallocate64(fd, FALLOC_FL_PUNCH_HOLE | FALLOC_FL_KEEP_SIZE,
						       (off64_t)range[0], (off64_t)range[1]);
			post_simple(P.dev[d].discard_zeroes ? 'P' : 'D', d, f, (int64_t)range[0],
				    (int64_t)range[1], r);
			return r;
		}
		default:
			errno = ENOTTY;
			return -1;
		}
	}
	if (fd_src(fd) && req == FS_IOC_FIEMAP) {
		for (int i = 0; i < P.nfault; i++)
			if (P.faults[i].kind == FK_SRC_NOFIEMAP) {
				P.faults[i].seen++;
				errno = EOPNOTSUPP;
				return -1;
			}
	}
	return __real_ioctl(fd, req, arg);
}

/* ------------------------------------------------------------------ clock */
static int64_t now_us(void)
{
	lock();
	P.clock_us += P.cost_us;
	int64_t v = P.clock_us;
	unlock();
	return v;
}

time_t __wrap_time(time_t *t)
{
	sim_init();
	if (!P.active)
		return __real_time(t);
	time_t v = (time_t)(now_us() / 1000000);
	if (t)
		*t = v;
	return v;
}
int __wrap_gettimeofday(struct timeval *tv, void *tz)
{
	sim_init();
	if (!P.active)
		return __real_gettimeofday(tv, tz);
	int64_t v = now_us();
	if (tv) {
		tv->tv_sec = v / 1000000;
		tv->tv_usec = v % 1000000;
	}
	return 0;
}
int __wrap_clock_gettime(clockid_t c, struct timespec *ts)
{
	sim_init();
	if (!P.active)
		return __real_clock_gettime(c, ts);
	int64_t v = now_us();
	if (ts) {
		ts->tv_sec = v / 1000000;
		ts->tv_nsec = (v % 1000000) * 1000;
	}
	return 0;
}
unsigned int __wrap_sleep(unsigned int s)
{
	sim_init();
	if (!P.active)
		return __real_sleep(s);
	lock();
	P.clock_us += (int64_t)s * 1000000;
	unlock();
	return 0;
}
int __wrap_usleep(useconds_t us)
{
	sim_init();
	if (!P.active)
		return __real_usleep(us);
	lock();
	P.clock_us += us;
	unlock();
	return 0;
}
int __wrap_nanosleep(const struct timespec *rq, struct timespec *rm)
{
	sim_init();
	if (!P.active)
		return __real_nanosleep(rq, rm);
	lock();
	P.clock_us += (int64_t)rq->tv_sec * 1000000 + rq->tv_nsec / 1000;
	unlock();
	if (rm)
		rm->tv_sec = rm->tv_nsec = 0;
	return 0;
}

/* ------------------------------------------------------------------ randomness, CPUs */
static uint64_t rnd64(void)
{
	lock();
	uint64_t v = xs(&P.rng);
	unlock();
	return v;
}
long __wrap_random(void)
{
	sim_init();
	return P.active ? (long)(rnd64() >> 33) : __real_random();
}
void __wrap_srandom(unsigned int s)
{
	sim_init();
	if (!P.active)
		__real_srandom(s);
}
int __wrap_rand(void)
{
	sim_init();
	return P.active ? (int)(rnd64() >> 33) : __real_rand();
}
void __wrap_srand(unsigned int s)
{
	sim_init();
	if (!P.active)
		__real_srand(s);
}
static void sim_uuid(unsigned char *out)
{
	uint64_t a = rnd64(), b = rnd64();
	memcpy(out, &a, 8);
	memcpy(out + 8, &b, 8);
	out[6] = (out[6] & 0x0F) | 0x40;
	out[8] = (out[8] & 0x3F) | 0x80;
}
void __wrap_uuid_generate(unsigned char *out)
{
	sim_init();
	if (P.active)
		sim_uuid(out);
	else
		__real_uuid_generate(out);
}
void __wrap_uuid_generate_random(unsigned char *out)
{
	sim_init();
	if (P.active)
		sim_uuid(out);
	else
		__real_uuid_generate_random(out);
}
void __wrap_uuid_generate_time(unsigned char *out)
{
	sim_init();
	if (P.active)
		sim_uuid(out);
	else
		__real_uuid_generate_time(out);
}

long __wrap_sysconf(int name)
{
	sim_init();
	if (P.active && (name == _SC_NPROCESSORS_CONF || name == _SC_NPROCESSORS_ONLN))
		return P.ncpu;
	return __real_sysconf(name);
}

int __wrap_gethostname(char *name, size_t len)
{
	sim_init();
	if (!P.active)
		return __real_gethostname(name, len);
	snprintf(name, len, "simhost");
	return 0;
}

char *__wrap_blkid_get_devname(void *cache, const char *token, const char *value)
{
	sim_init();
	/* only the lookup of a journal device by UUID is answered from the plan; a plain device name
	 * (e2fsck and tune2fs resolve their device argument through blkid too) goes to the real library */
	if (P.active && P.extjournal[0] && token && value && !strcmp(token, "UUID"))
		return strdup(P.extjournal);
	return __real_blkid_get_devname(cache, token, value);
}

/* ------------------------------------------------------------------ end of process */
static void sim_atexit(void)
{
	if (!P.active)
		return;
	/* E: off = simulated microseconds elapsed, len = device events, res = schedule digest */
	lock();
	log_event('E', 0, 0, P.clock_us - P.clock_start_us, n_events, (int64_t)sched_digest, 0, 0);
	for (int i = 0; i < P.nfault; i++) {
		struct fault *f = &P.faults[i];
		/* S: per-fault statistics: off = fault id, len = matching events seen */
		log_event('S', f->dev < 0 ? 255 : f->dev, f->id, f->kind, f->seen, sched_points, 0, 0);
	}
	unlock();
}

/* exported for harness drivers that want a scheduling point or the simulated clock */
void simshim_yield(void) { sim_yield(); }
long simshim_events(void) { return n_events; }
