/* h_iochan — drives one I/O channel of libext2fs through a scripted history.
 *
 *   h_iochan <script>
 * script lines (blank / # ignored):
 *   open <path> <rw|ro> [cacheoff] [writethrough] [undo=<file>] [offset=<n>] [werr]
 *   setbs <n>
 *   r  <blk> <count>              read_blk64   (count < 0: -count bytes)
 *   w  <blk> <count> <dataoff>    write_blk64, payload taken from the data file at dataoff
 *   wb <offset> <size> <dataoff>  write_byte
 *   z  <blk> <count>              zeroout
 *   d  <blk> <count>              discard
 *   ra <blk> <count>              cache_readahead
 *   f                             flush
 *   c                             close
 * Every op prints "<n> <op> ret=<errcode> [crc=<crc32c of the bytes read> len=<n> head=<hex>]".
 * The payload file is given by a "data <path>" line.
 */
#include <stdio.h>
#include <stdlib.h>
#include <string.h>
#include <unistd.h>
#include <fcntl.h>
#include "ext2fs/ext2_fs.h"
#include "ext2fs/ext2fs.h"

static io_channel ch;
static int blksize = 1024;
static FILE *dataf, *readout;
static char snapbase[2048], devpath[2048];
static int werr_seen;

static errcode_t werr_handler(io_channel channel, unsigned long block, int count, const void *data,
			      size_t size, int actual, errcode_t error)
{
	(void)channel; (void)data;
	werr_seen++;
	printf("  WERR block=%lu count=%d size=%zu actual=%d error=%ld\n", block, count, size, actual, (long)error);
	return error;
}

static unsigned char *payload(long off, long n)
{
	unsigned char *b = malloc(n ? n : 1);
	if (fseek(dataf, off, SEEK_SET) || fread(b, 1, n, dataf) != (size_t)n) {
		fprintf(stderr, "payload read failed\n");
		exit(3);
	}
	return b;
}

int main(int argc, char **argv)
{
	char line[4096], op[32];
	int n = 0;
	FILE *f;
	if (argc < 2 || !(f = fopen(argv[1], "r"))) {
		fprintf(stderr, "usage: h_iochan script\n");
		return 2;
	}
	setvbuf(stdout, NULL, _IOLBF, 0);
	while (fgets(line, sizeof line, f)) {
		long a = 0, b = 0, c = 0;
		errcode_t ret = 0;
		if (sscanf(line, "%31s", op) != 1 || op[0] == '#')
			continue;
		n++;
		if (!strcmp(op, "data")) {
			char p[2048];
			sscanf(line, "%*s %2047s", p);
			dataf = fopen(p, "rb");
			if (!dataf) { perror("data"); return 3; }
			continue;
		}
		if (!strcmp(op, "snap")) {
			sscanf(line, "%*s %2047s", snapbase);
			continue;
		}
		if (!strcmp(op, "readout")) {
			char p[2048];
			sscanf(line, "%*s %2047s", p);
			readout = fopen(p, "wb");
			continue;
		}
		if (!strcmp(op, "open")) {
			char path[2048], mode[16], o1[256] = "", o2[256] = "", o3[256] = "", o4[256] = "", o5[256] = "";
			char *opts[5] = { o1, o2, o3, o4, o5 };
			io_manager mgr = unix_io_manager;
			int flags, i, writethrough = 0, werr = 0;
			char setopt[300] = "";
			sscanf(line, "%*s %2047s %15s %255s %255s %255s %255s %255s", path, mode, o1, o2, o3, o4, o5);
			flags = !strcmp(mode, "rw") ? IO_FLAG_RW : 0;
			for (i = 0; i < 5; i++) {
				if (!strncmp(opts[i], "undo=", 5)) {
					set_undo_io_backing_manager(unix_io_manager);
					set_undo_io_backup_file(opts[i] + 5);
					mgr = undo_io_manager;
				} else if (!strcmp(opts[i], "writethrough"))
					writethrough = 1;
				else if (!strcmp(opts[i], "werr"))
					werr = 1;
			}
			strcpy(devpath, path);
			ret = mgr->open(path, flags, &ch);
			if (!ret) {
				for (i = 0; i < 5; i++) {
					if (!strcmp(opts[i], "cacheoff"))
						strcpy(setopt, "cache=off");
					else if (!strncmp(opts[i], "offset=", 7))
						strcpy(setopt, opts[i]);
					else
						continue;
					ret = io_channel_set_options(ch, setopt);
					if (ret)
						printf("  set_options(%s) ret=%ld\n", setopt, (long)ret);
					ret = 0;
				}
				if (writethrough)
					ch->flags |= CHANNEL_FLAGS_WRITETHROUGH;
				if (werr)
					ch->write_error = werr_handler;
				io_channel_set_blksize(ch, blksize);
			}
			printf("%d open ret=%ld\n", n, (long)ret);
			if (ret)
				return 4;
			continue;
		}
		if (!ch) {
			printf("%d %s ret=-1 (no channel)\n", n, op);
			continue;
		}
		if (!strcmp(op, "setbs")) {
			sscanf(line, "%*s %ld", &a);
			ret = io_channel_set_blksize(ch, (int)a);
			if (!ret)
				blksize = (int)a;
			printf("%d setbs ret=%ld\n", n, (long)ret);
			if (ret) {
				/* every later operation of the script was sized for the new block size: the history ends here */
				printf("END setbs failed\n");
				fflush(stdout);
				return 0;
			}
		} else if (!strcmp(op, "r")) {
			long bytes;
			unsigned char *buf;
			sscanf(line, "%*s %ld %ld", &a, &b);
			bytes = b < 0 ? -b : b * blksize;
			buf = malloc(bytes + 16);
			memset(buf, 0xEE, bytes + 16);
			ret = io_channel_read_blk64(ch, (unsigned long long)a, (int)b, buf);
			printf("%d r ret=%ld crc=%08x len=%ld head=%02x%02x%02x%02x%02x%02x%02x%02x guard=%02x\n", n, (long)ret,
			       ext2fs_crc32c_le(~0U, buf, bytes), bytes, buf[0], buf[1], buf[2], buf[3], buf[4], buf[5], buf[6], buf[7],
			       buf[bytes]);
			/* the exact bytes go to the readout file, so that the model can compare them */
			if (readout)
				fwrite(buf, 1, bytes, readout);
			free(buf);
		} else if (!strcmp(op, "w")) {
			long bytes;
			unsigned char *p;
			sscanf(line, "%*s %ld %ld %ld", &a, &b, &c);
			bytes = b < 0 ? -b : b * blksize;
			p = payload(c, bytes);
			ret = io_channel_write_blk64(ch, (unsigned long long)a, (int)b, p);
			printf("%d w ret=%ld\n", n, (long)ret);
			free(p);
		} else if (!strcmp(op, "wb")) {
			unsigned char *p;
			sscanf(line, "%*s %ld %ld %ld", &a, &b, &c);
			p = payload(c, b);
			ret = io_channel_write_byte(ch, (unsigned long)a, (int)b, p);
			printf("%d wb ret=%ld\n", n, (long)ret);
			free(p);
		} else if (!strcmp(op, "z")) {
			sscanf(line, "%*s %ld %ld", &a, &b);
			ret = io_channel_zeroout(ch, (unsigned long long)a, (unsigned long long)b);
			printf("%d z ret=%ld\n", n, (long)ret);
		} else if (!strcmp(op, "d")) {
			sscanf(line, "%*s %ld %ld", &a, &b);
			ret = io_channel_discard(ch, (unsigned long long)a, (unsigned long long)b);
			printf("%d d ret=%ld\n", n, (long)ret);
		} else if (!strcmp(op, "ra")) {
			sscanf(line, "%*s %ld %ld", &a, &b);
			ret = io_channel_cache_readahead(ch, (unsigned long long)a, (unsigned long long)b);
			printf("%d ra ret=%ld\n", n, (long)ret);
		} else if (!strcmp(op, "f")) {
			ret = io_channel_flush(ch);
			printf("%d f ret=%ld\n", n, (long)ret);
			if (!ret && snapbase[0] && devpath[0]) {
				/* what the device holds right after a successful flush, read through a descriptor of our own */
				char sp[2200];
				int dfd = open(devpath, O_RDONLY);
				FILE *sf;
				snprintf(sp, sizeof sp, "%s.%d", snapbase, n);
				sf = fopen(sp, "wb");
				if (dfd >= 0 && sf) {
					static char cb[65536];
					ssize_t got;
					off_t pos = 0;
					while ((got = pread(dfd, cb, sizeof cb, pos)) > 0) {
						fwrite(cb, 1, got, sf);
						pos += got;
					}
				}
				if (sf)
					fclose(sf);
				if (dfd >= 0)
					close(dfd);
			}
		} else if (!strcmp(op, "c")) {
			ret = io_channel_close(ch);
			ch = 0;
			printf("%d c ret=%ld\n", n, (long)ret);
		} else {
			printf("%d %s unknown\n", n, op);
		}
	}
	if (ch) {
		errcode_t ret = io_channel_close(ch);
		printf("%d c(final) ret=%ld\n", n + 1, (long)ret);
	}
	if (readout)
		fclose(readout);
	printf("END werr=%d\n", werr_seen);
	return 0;
}
