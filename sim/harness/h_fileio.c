/* h_fileio — executes a scripted history of file operations through libext2fs.
 *
 *   h_fileio <script>
 * lines:
 *   data <path>                       payload file
 *   readout <path>                    bytes returned by reads are appended here
 *   openfs <image>
 *   mk <slot> <name> <ext|blk|inline> create a regular file in / ; slot = small integer naming it in later ops
 *   fo <slot> <rw|ro>                 ext2fs_file_open
 *   wr <slot> <off> <len> <dataoff>   llseek + write
 *   rd <slot> <off> <len>             llseek + read
 *   sz <slot> <size>                  ext2fs_file_set_size2
 *   gs <slot>                         ext2fs_file_get_lsize
 *   fl <slot>                         ext2fs_file_flush
 *   fc <slot>                         ext2fs_file_close
 *   pu <slot> <start> <end>           ext2fs_punch  (blocks; end = -1 for ~0)
 *   fa <slot> <flags> <start> <len>   ext2fs_fallocate (blocks)
 *   closefs / reopenfs
 * Output: "<n> <op> ret=<errcode> [got=<n> crc=<..>] [size=<n>]".
 */
#include <stdio.h>
#include <stdlib.h>
#include <string.h>
#include "ext2fs/ext2_fs.h"
#include "ext2fs/ext2fs.h"

#define NSLOT 16
static ext2_filsys fs;
static char image[2048];
static ext2_ino_t inos[NSLOT];
static ext2_file_t files[NSLOT];
static FILE *dataf, *readout;

static unsigned char *payload(long off, long n)
{
	unsigned char *b = malloc(n ? n : 1);
	if (fseek(dataf, off, SEEK_SET) || fread(b, 1, n, dataf) != (size_t)n) {
		fprintf(stderr, "payload read failed\n");
		exit(3);
	}
	return b;
}

static errcode_t mkfile(int slot, const char *name, const char *type)
{
	struct ext2_inode_large inode;
	ext2_ino_t ino;
	errcode_t ret;
	ret = ext2fs_new_inode(fs, EXT2_ROOT_INO, 0100644, 0, &ino);
	if (ret)
		return ret;
	ret = ext2fs_link(fs, EXT2_ROOT_INO, name, ino, EXT2_FT_REG_FILE);
	if (ret == EXT2_ET_DIR_NO_SPACE) {
		ret = ext2fs_expand_dir(fs, EXT2_ROOT_INO);
		if (ret)
			return ret;
		ret = ext2fs_link(fs, EXT2_ROOT_INO, name, ino, EXT2_FT_REG_FILE);
	}
	if (ret)
		return ret;
	ext2fs_inode_alloc_stats2(fs, ino, +1, 0);
	memset(&inode, 0, sizeof inode);
	inode.i_mode = 0100644;
	inode.i_links_count = 1;
	inode.i_atime = inode.i_ctime = inode.i_mtime = 1500000000;
	inode.i_extra_isize = sizeof(struct ext2_inode_large) - EXT2_GOOD_OLD_INODE_SIZE;
	if (!strcmp(type, "ext")) {
		ext2_extent_handle_t h;
		inode.i_flags |= EXT4_EXTENTS_FL;
		ret = ext2fs_write_new_inode(fs, ino, (struct ext2_inode *)&inode);
		if (ret)
			return ret;
		ret = ext2fs_extent_open2(fs, ino, (struct ext2_inode *)&inode, &h);
		if (ret)
			return ret;
		ext2fs_extent_free(h);
		ret = ext2fs_write_inode_full(fs, ino, (struct ext2_inode *)&inode, sizeof inode);
	} else if (!strcmp(type, "inline")) {
		inode.i_flags |= EXT4_INLINE_DATA_FL;
		ret = ext2fs_write_new_inode(fs, ino, (struct ext2_inode *)&inode);
		if (ret)
			return ret;
		ret = ext2fs_inline_data_init(fs, ino);
	} else {
		ret = ext2fs_write_new_inode(fs, ino, (struct ext2_inode *)&inode);
	}
	if (!ret)
		inos[slot] = ino;
	return ret;
}

int main(int argc, char **argv)
{
	char line[4096], op[32];
	int n = 0, s;
	FILE *f;
	if (argc < 2 || !(f = fopen(argv[1], "r")))
		return 2;
	setvbuf(stdout, NULL, _IOLBF, 0);
	while (fgets(line, sizeof line, f)) {
		long long a = 0, b = 0, c = 0, d = 0;
		errcode_t ret = 0;
		char s1[2048] = "", s2[64] = "";
		if (sscanf(line, "%31s", op) != 1 || op[0] == '#')
			continue;
		n++;
		if (!strcmp(op, "data")) {
			sscanf(line, "%*s %2047s", s1);
			dataf = fopen(s1, "rb");
			if (!dataf) return 3;
		} else if (!strcmp(op, "readout")) {
			sscanf(line, "%*s %2047s", s1);
			readout = fopen(s1, "wb");
		} else if (!strcmp(op, "openfs") || !strcmp(op, "reopenfs")) {
			if (!strcmp(op, "openfs"))
				sscanf(line, "%*s %2047s", image);
			else if (fs) {
				for (s = 0; s < NSLOT; s++)
					if (files[s]) { ext2fs_file_close(files[s]); files[s] = 0; }
				ret = ext2fs_close_free(&fs);
				printf("%d closefs(for reopen) ret=%ld\n", n, (long)ret);
			}
			ret = ext2fs_open(image, EXT2_FLAG_RW | EXT2_FLAG_64BITS, 0, 0, unix_io_manager, &fs);
			if (!ret)
				ret = ext2fs_read_bitmaps(fs);
			printf("%d %s ret=%ld\n", n, op, (long)ret);
			if (ret)
				return 4;
		} else if (!strcmp(op, "closefs")) {
			for (s = 0; s < NSLOT; s++)
				if (files[s]) { ext2fs_file_close(files[s]); files[s] = 0; }
			ret = fs ? ext2fs_close_free(&fs) : 0;
			printf("%d closefs ret=%ld\n", n, (long)ret);
		} else if (!fs) {
			printf("%d %s ret=-1 (no fs)\n", n, op);
		} else if (!strcmp(op, "mk")) {
			sscanf(line, "%*s %lld %2047s %63s", &a, s1, s2);
			ret = mkfile((int)a, s1, s2);
			printf("%d mk ret=%ld ino=%u\n", n, (long)ret, inos[a]);
		} else {
			sscanf(line, "%*s %lld %lld %lld %lld", &a, &b, &c, &d);
			s = (int)a;
			if (s < 0 || s >= NSLOT || !inos[s]) {
				printf("%d %s ret=-1 (bad slot)\n", n, op);
				continue;
			}
			if (!strcmp(op, "fo")) {
				sscanf(line, "%*s %*s %63s", s2);
				if (files[s]) { ext2fs_file_close(files[s]); files[s] = 0; }
				ret = ext2fs_file_open(fs, inos[s], !strcmp(s2, "rw") ? EXT2_FILE_WRITE : 0, &files[s]);
				printf("%d fo ret=%ld\n", n, (long)ret);
			} else if (!strcmp(op, "pu")) {
				ret = ext2fs_punch(fs, inos[s], NULL, NULL, (blk64_t)b, c < 0 ? ~0ULL : (blk64_t)c);
				printf("%d pu ret=%ld\n", n, (long)ret);
			} else if (!strcmp(op, "fa")) {
				ret = ext2fs_fallocate(fs, (int)b, inos[s], NULL, ~0ULL, (blk64_t)c, (blk64_t)d);
				printf("%d fa ret=%ld\n", n, (long)ret);
			} else if (!files[s]) {
				printf("%d %s ret=-1 (not open)\n", n, op);
			} else if (!strcmp(op, "wr")) {
				unsigned int wrote = 0;
				unsigned char *p = payload((long)d, (long)c);
				ret = ext2fs_file_llseek(files[s], (__u64)b, EXT2_SEEK_SET, NULL);
				if (!ret)
					ret = ext2fs_file_write(files[s], p, (unsigned int)c, &wrote);
				printf("%d wr ret=%ld wrote=%u\n", n, (long)ret, wrote);
				free(p);
			} else if (!strcmp(op, "rd")) {
				unsigned int got = 0;
				unsigned char *buf = malloc(c + 16);
				memset(buf, 0xEE, c + 16);
				ret = ext2fs_file_llseek(files[s], (__u64)b, EXT2_SEEK_SET, NULL);
				if (!ret)
					ret = ext2fs_file_read(files[s], buf, (unsigned int)c, &got);
				if (got > (unsigned int)c)
					got = (unsigned int)c + 1;      /* report, but do not read beyond the buffer */
				printf("%d rd ret=%ld got=%u crc=%08x guard=%02x\n", n, (long)ret, got,
				       ext2fs_crc32c_le(~0U, buf, got <= c ? got : c), buf[c]);
				if (readout)
					fwrite(buf, 1, got <= c ? got : c, readout);
				free(buf);
			} else if (!strcmp(op, "sz")) {
				ret = ext2fs_file_set_size2(files[s], (ext2_off64_t)b);
				printf("%d sz ret=%ld\n", n, (long)ret);
			} else if (!strcmp(op, "gs")) {
				__u64 sz = 0;
				ret = ext2fs_file_get_lsize(files[s], &sz);
				printf("%d gs ret=%ld size=%llu\n", n, (long)ret, (unsigned long long)sz);
			} else if (!strcmp(op, "fl")) {
				ret = ext2fs_file_flush(files[s]);
				printf("%d fl ret=%ld\n", n, (long)ret);
			} else if (!strcmp(op, "fc")) {
				ret = ext2fs_file_close(files[s]);
				files[s] = 0;
				printf("%d fc ret=%ld\n", n, (long)ret);
			} else
				printf("%d %s unknown\n", n, op);
		}
	}
	if (fs) {
		errcode_t ret;
		for (s = 0; s < NSLOT; s++)
			if (files[s]) ext2fs_file_close(files[s]);
		ret = ext2fs_close_free(&fs);
		printf("%d closefs(final) ret=%ld\n", n + 1, (long)ret);
	}
	if (readout)
		fclose(readout);
	printf("END\n");
	return 0;
}
