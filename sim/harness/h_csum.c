/* h_csum — read one metadata object through the library API and report the error code.
 *
 *   h_csum <image> super
 *   h_csum <image> gd <group>            (ext2fs_open without IGNORE_CSUM_ERRORS verifies descriptors)
 *   h_csum <image> bbitmap | ibitmap     (ext2fs_read_bitmaps)
 *   h_csum <image> inode <ino>
 *   h_csum <image> dirblock <ino> <pblk>
 *   h_csum <image> extent <ino>          (walk the whole extent tree)
 *   h_csum <image> xattr <ino>           (ext2fs_xattrs_read)
 *   h_csum <image> mmp
 *   h_csum <image> htree <ino> <pblk>    (ext2fs_read_dir_block4 + dx csum verify via e2fsck is not a library API: uses ext2fs_dx_csum_verify through ext2fs_dir_block_csum_verify)
 */
#include <stdio.h>
#include <stdlib.h>
#include <string.h>
#include "ext2fs/ext2_fs.h"
#include "ext2fs/ext2fs.h"

int main(int argc, char **argv)
{
	ext2_filsys fs;
	errcode_t ret;
	const char *what;
	int flags = EXT2_FLAG_64BITS;
	if (argc < 3)
		return 2;
	what = argv[2];
	ret = ext2fs_open(argv[1], flags, 0, 0, unix_io_manager, &fs);
	printf("open ret=%ld\n", (long)ret);
	if (ret)
		return 0;
	if (!strcmp(what, "super")) {
		/* verified by ext2fs_open */
	} else if (!strcmp(what, "gd")) {
		/* ext2fs_open does not verify descriptors; the library's API for that is ext2fs_group_desc_csum_verify() */
		ret = ext2fs_group_desc_csum_verify(fs, atoi(argv[3])) ? 0 : EXT2_ET_BAD_CRC;
		printf("group_desc_csum_verify ret=%ld\n", (long)ret);
	} else if (!strcmp(what, "bbitmap") || !strcmp(what, "ibitmap")) {
		ret = ext2fs_read_bitmaps(fs);
		printf("read_bitmaps ret=%ld\n", (long)ret);
	} else if (!strcmp(what, "inode")) {
		struct ext2_inode_large in;
		ret = ext2fs_read_inode_full(fs, atoi(argv[3]), (struct ext2_inode *)&in, sizeof in);
		printf("read_inode ret=%ld\n", (long)ret);
	} else if (!strcmp(what, "dirblock") || !strcmp(what, "htree")) {
		char *buf = malloc(fs->blocksize);
		ret = ext2fs_read_dir_block4(fs, strtoull(argv[4], 0, 0), buf, 0, atoi(argv[3]));
		printf("read_dir_block ret=%ld\n", (long)ret);
	} else if (!strcmp(what, "extent")) {
		ext2_extent_handle_t h;
		struct ext2fs_extent e;
		ret = ext2fs_extent_open(fs, atoi(argv[3]), &h);
		if (!ret) {
			ret = ext2fs_extent_get(h, EXT2_EXTENT_ROOT, &e);
			while (!ret)
				ret = ext2fs_extent_get(h, EXT2_EXTENT_NEXT, &e);
			if (ret == EXT2_ET_EXTENT_NO_NEXT)
				ret = 0;
			ext2fs_extent_free(h);
		}
		printf("extent_walk ret=%ld\n", (long)ret);
	} else if (!strcmp(what, "xattr")) {
		struct ext2_xattr_handle *h;
		ret = ext2fs_xattrs_open(fs, atoi(argv[3]), &h);
		if (!ret) {
			ret = ext2fs_xattrs_read(h);
			ext2fs_xattrs_close(&h);
		}
		printf("xattrs_read ret=%ld\n", (long)ret);
	} else if (!strcmp(what, "mmp")) {
		char *buf = malloc(fs->blocksize);
		ret = ext2fs_mmp_read(fs, fs->super->s_mmp_block, buf);
		printf("mmp_read ret=%ld\n", (long)ret);
	}
	ext2fs_close_free(&fs);
	return 0;
}
