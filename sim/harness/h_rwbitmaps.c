/* h_rwbitmaps — load the allocation bitmaps of a filesystem (possibly with threads, as decided by
 * the simulated CPU count) and print a digest of what was loaded.
 *
 *   h_rwbitmaps <image> [rbtree|bitarray] [nothreads]
 */
#include <stdio.h>
#include <stdlib.h>
#include <string.h>
#include "ext2fs/ext2_fs.h"
#include "ext2fs/ext2fs.h"

static unsigned long long fnv(unsigned long long h, unsigned long long v)
{
	return (h ^ v) * 1099511628211ULL;
}

int main(int argc, char **argv)
{
	ext2_filsys fs;
	errcode_t ret;
	int flags = EXT2_FLAG_64BITS | EXT2_FLAG_THREADS | EXT2_FLAG_IGNORE_CSUM_ERRORS;
	int type = EXT2FS_BMAP64_RBTREE;
	unsigned long long hb = 1469598103934665603ULL, hi = hb, nb = 0, ni = 0;
	blk64_t b;
	ext2_ino_t i;
	int k;
	if (argc < 2)
		return 2;
	for (k = 2; k < argc; k++) {
		if (!strcmp(argv[k], "bitarray"))
			type = EXT2FS_BMAP64_BITARRAY;
		else if (!strcmp(argv[k], "nothreads"))
			flags &= ~EXT2_FLAG_THREADS;
		else if (!strcmp(argv[k], "csum"))
			flags &= ~EXT2_FLAG_IGNORE_CSUM_ERRORS;
	}
	ret = ext2fs_open(argv[1], flags, 0, 0, unix_io_manager, &fs);
	if (ret) {
		printf("open ret=%ld\n", (long)ret);
		return 0;
	}
	fs->default_bitmap_type = type;
	ret = ext2fs_read_bitmaps(fs);
	printf("read_bitmaps ret=%ld\n", (long)ret);
	if (!ret) {
		for (b = fs->super->s_first_data_block; b < ext2fs_blocks_count(fs->super); b++)
			if (ext2fs_test_block_bitmap2(fs->block_map, b)) {
				hb = fnv(hb, b);
				nb++;
			}
		for (i = 1; i <= fs->super->s_inodes_count; i++)
			if (ext2fs_test_inode_bitmap2(fs->inode_map, i)) {
				hi = fnv(hi, i);
				ni++;
			}
		printf("blocks=%llu bhash=%016llx inodes=%llu ihash=%016llx flags=%#x\n", nb, hb, ni, hi,
		       fs->flags & (EXT2_FLAG_IBITMAP_TAIL_PROBLEM | EXT2_FLAG_BBITMAP_TAIL_PROBLEM | EXT2_FLAG_DIRTY | EXT2_FLAG_CHANGED));
	}
	ext2fs_close_free(&fs);
	return 0;
}
