"""framework — the part every check shares: seeds, workers, violation gate, shrinking,
replay files, known findings, evidence.

A check is a subclass of Check with
    generate(rng, tier)        -> spec   (JSON-serialisable; the complete description of one run)
    execute(spec, workdir)     -> Outcome
    shrink(spec, violation)    -> iterable of smaller candidate specs   (optional)
One run's result is a pure function of its spec and of /repo's code; the spec is a pure
function of (VERIF_SEED, property id, run index, tier).
"""
import argparse
import collections
import hashlib
import json
import multiprocessing
import os
import re
import shutil
import sys
import time
import traceback

import simcore
from simcore import (VERIF, Rng, derive_seed, disable_aslr, ensure_build, make_scratch)

REAL_CODE = ["all of e2fsprogs built from /repo's working tree (tools, libext2fs incl. unix_io cache and undo_io, "
             "libe2p, libsupport, e2fsck/recovery.c)", "glibc", "system libuuid/libblkid parsing code",
             "ASan/UBSan(bounds) runtimes"]
STUBBED = ["kernel block layer, page cache and medium -> simdisk (sim/shim/simshim.c + crash-state reconstruction)",
           "wall clock and sleeping -> simclock", "uuid/random sources -> simrand",
           "CPU count -> plan value", "pthread scheduling -> simsched (only when a run asks for threads)",
           "blkid device lookup -> plan value"]


class Violation:
    def __init__(self, key, detail, extra=None):
        self.key = key          # violation class: a short stable string
        self.detail = detail    # human-readable description of this instance
        self.extra = extra or {}

    def to_json(self):
        return {"key": self.key, "detail": self.detail, "extra": self.extra}


class Outcome:
    def __init__(self):
        self.violations = []            # list of Violation
        self.evals = 0                  # evaluations of the oracle in this run
        self.distinct = set()           # hashable descriptions of distinct non-trivial cases
        self.stats = collections.Counter()   # faults fired, probes, statuses ...  ("fault.eio_w", "probe.xyz")
        self.sample = None              # a JSON-able description of the case, for the evidence file
        self.trace = ""                 # digest identifying the execution (event-log hashes ...)
        self.sim_us = 0
        self.observations = []          # measure-only remarks
        self.harness_error = None

    def violate(self, key, detail, **extra):
        self.violations.append(Violation(key, detail, extra))


class Check:
    pid = "C00"
    level = "exploration"
    rule = ""
    assumptions = []
    reference_models = []
    flavours = ("asan",)
    max_shrink_runs = 150
    max_shrunk_violations = 40

    def budget(self, tier):
        return {"runs": 50, "wall_s": 90} if tier == "quick" else {"runs": 2000, "wall_s": 900}

    def generate(self, rng, tier):
        raise NotImplementedError

    def execute(self, spec, workdir):
        raise NotImplementedError

    def shrink(self, spec, violation):
        return ()

    def prepare(self, tier):
        """Called once in the parent before workers start (e.g. calibration of oracles)."""

    def extra_evidence(self, merged):
        return {}


# ----------------------------------------------------------------------------- worker side
_CHECK = None


def _worker_init(check_cls_module, check_cls_name):
    global _CHECK
    disable_aslr()
    mod = __import__(check_cls_module, fromlist=[check_cls_name])
    _CHECK = getattr(mod, check_cls_name)()


def _execute_spec(check, spec, tag):
    wd = make_scratch("%s-%s" % (check.pid, tag))
    try:
        try:
            out = check.execute(spec, wd)
        except Exception:
            out = Outcome()
            out.harness_error = traceback.format_exc()
        return out
    finally:
        if os.environ.get("VERIF_KEEP"):
            sys.stderr.write("kept scratch directory %s\n" % wd)
        else:
            simcore.rmtree(wd)


def _run_index(args):
    verif_seed, tier, idx = args
    check = _CHECK
    seed = derive_seed(verif_seed, check.pid, idx, tier)
    try:
        spec = check.generate(Rng(seed), tier)
    except Exception:
        out = Outcome()
        out.harness_error = traceback.format_exc()
        return idx, seed, None, _pack(out)
    spec["_seed"] = seed
    spec["_index"] = idx
    out = _execute_spec(check, spec, "w")
    return idx, seed, spec, _pack(out)


def _pack(out):
    return {"violations": [v.to_json() for v in out.violations], "evals": out.evals,
            "distinct": sorted(out.distinct), "stats": dict(out.stats), "sample": out.sample,
            "trace": out.trace, "sim_us": out.sim_us, "observations": out.observations,
            "harness_error": out.harness_error}


def _exec_in_child(check, spec):
    """Execute a spec in a fresh process (used by the violation gate, shrinking and replay)."""
    ctx = multiprocessing.get_context("fork")
    q = ctx.Queue()

    def child():
        disable_aslr()
        o = _execute_spec(check, spec, "g")
        q.put(_pack(o))

    p = ctx.Process(target=child)
    p.start()
    try:
        res = q.get(timeout=1800)
    except Exception:
        res = {"violations": [], "harness_error": "child produced no result", "trace": "", "evals": 0,
               "distinct": [], "stats": {}, "sample": None, "sim_us": 0, "observations": []}
    p.join(30)
    if p.is_alive():
        p.kill()
    return res


def _dump_known(f, fkey):
    # survey aid (VERIF_DUMP_KNOWN=file): which concrete classes a family entry absorbed
    p = os.environ.get("VERIF_DUMP_KNOWN")
    if p:
        with open(p, "a") as fh:
            fh.write("%s\t%s\n" % (f["key"], fkey))


# ----------------------------------------------------------------------------- known findings
def load_findings(pid):
    path = os.path.join(VERIF, "KNOWN_FINDINGS.jsonl")
    out = []
    if os.path.exists(path):
        for line in open(path):
            line = line.strip()
            if not line or line.startswith("#"):
                continue
            j = json.loads(line)
            if j.get("property") == pid:
                out.append(j)
    return out


def finding_for(findings, key):
    """The open known finding that lists this violation class, if any.  An entry matches by exact
    `key`, or -- for a finding recorded as a family -- by the regular expression `regex`.
    Entries with status "fixed" suppress nothing."""
    for f in findings:
        if f.get("status") != "open":
            continue
        if f.get("regex"):
            if re.search(f["regex"], key):
                return f
        elif f["key"] == key:
            return f
    return None


# ----------------------------------------------------------------------------- main
def main(check_cls):
    ap = argparse.ArgumentParser()
    ap.add_argument("--tier", default=os.environ.get("VERIF_TIER", "quick"), choices=["quick", "thorough"])
    ap.add_argument("--seed", type=int, default=int(os.environ.get("VERIF_SEED", "1")))
    ap.add_argument("--jobs", type=int, default=int(os.environ.get("VERIF_JOBS", "16")))
    ap.add_argument("--replay")
    ap.add_argument("--runs", type=int)
    ap.add_argument("--wall", type=float)
    ap.add_argument("--no-evidence", action="store_true")
    ap.add_argument("--dump-traces", help="write 'index trace' lines to this file (determinism checks)")
    ap.add_argument("--index", type=int, help="run just this run index, verbosely")
    a = ap.parse_args()

    check = check_cls()
    ensure_build(check.flavours)
    disable_aslr()
    t0 = time.time()
    findings = load_findings(check.pid)

    if a.replay:
        sys.exit(_replay(check, a.replay, findings))

    if a.index is not None:
        _worker_init(check_cls.__module__, check_cls.__name__)
        idx, seed, spec, res = _run_index((a.seed, a.tier, a.index))
        print(json.dumps({"seed": seed, "spec": spec, "result": res}, indent=1, default=str)[:20000])
        sys.exit(1 if res["violations"] else (2 if res["harness_error"] else 0))

    check.prepare(a.tier)
    b = check.budget(a.tier)
    nruns = a.runs or b["runs"]
    wall = a.wall or b["wall_s"]

    merged = {"evals": 0, "distinct": set(), "stats": collections.Counter(), "samples": [], "sim_us": 0,
              "observations": [], "runs": 0}
    viols = []       # (idx, seed, spec, violation json, trace)
    herrs = []
    traces = {}
    ctx = multiprocessing.get_context("fork")
    pool = ctx.Pool(a.jobs, initializer=_worker_init, initargs=(check_cls.__module__, check_cls.__name__))
    try:
        pending = collections.deque()
        next_idx = 0
        results = {}
        # keep the pool saturated but stop issuing once the wall budget is spent
        while True:
            while len(pending) < a.jobs * 2 and next_idx < nruns and time.time() - t0 < wall:
                pending.append(pool.apply_async(_run_index, ((a.seed, a.tier, next_idx),)))
                next_idx += 1
            if not pending:
                break
            got = False
            for _ in range(len(pending)):
                r = pending.popleft()
                if r.ready():
                    idx, seed, spec, res = r.get(timeout=60)
                    results[idx] = (seed, spec, res)
                    got = True
                else:
                    pending.append(r)
            if not got:
                time.sleep(0.005)
    finally:
        pool.terminate()
        pool.join()

    for idx in sorted(results):
        seed, spec, res = results[idx]
        merged["runs"] += 1
        merged["evals"] += res["evals"]
        merged["distinct"].update(res["distinct"])
        merged["stats"].update(res["stats"])
        merged["sim_us"] += res["sim_us"]
        for o in res["observations"]:
            if len(merged["observations"]) < 40:
                merged["observations"].append(o)
        if res["sample"] is not None and len(merged["samples"]) < 4:
            merged["samples"].append({"run_index": idx, "run_seed": seed, "case": res["sample"]})
        traces[idx] = res["trace"]
        if res["harness_error"]:
            herrs.append((idx, res["harness_error"]))
        for v in res["violations"]:
            viols.append((idx, seed, spec, v, res["trace"]))

    if a.dump_traces:
        with open(a.dump_traces, "w") as f:
            for idx in sorted(traces):
                f.write("%d %s\n" % (idx, traces[idx]))

    exit_code = 0
    if herrs:
        for idx, h in herrs[:5]:
            print("HARNESS-ERROR: property=%s run=%d\n%s" % (check.pid, idx, h))
        exit_code = 2

    # ---- violations: gate, shrink, final class key, known-findings lookup, replay file
    reported = {}
    known_hit = collections.Counter()
    nviol = 0
    resolved = {}      # unshrunk key -> (final key, path or None)
    shrunk = 0
    for idx, seed, spec, v, trace in viols:
        key0 = v["key"]
        if key0 in resolved:
            fkey = resolved[key0]
            if fkey is None:
                continue
            f = finding_for(findings, fkey)
            if f:
                known_hit[f["key"]] += 1
                _dump_known(f, fkey)
            continue
        # gate 1: the same spec in a fresh process must give the same execution and the same class
        again = _exec_in_child(check, spec)
        keys_again = [x["key"] for x in again["violations"]]
        # (a process stopped by the CPU-time limit is cut at a point that depends on the machine: for such a violation the
        # class must reproduce, the event-log digest cannot)
        trace_free = bool(v.get("extra", {}).get("trace_free"))
        if again["harness_error"] or key0 not in keys_again or (again["trace"] != trace and not trace_free):
            print("HARNESS-ERROR: property=%s run=%d violation '%s' did not reproduce in a fresh process "
                  "(keys %s, trace %s vs %s)%s" % (check.pid, idx, key0, keys_again, again["trace"][:12], trace[:12],
                                               ("\n" + again["harness_error"]) if again["harness_error"] else ""))
            exit_code = 2
            resolved[key0] = None
            continue
        f0 = finding_for(findings, key0)
        if f0 is not None or shrunk >= check.max_shrunk_violations:
            small, fv = spec, v
        else:
            shrunk += 1
            small = _shrink(check, spec, v)
            fres = _exec_in_child(check, small)
            fv = None
            for x in fres["violations"]:
                if _skey(x) == _skey(v):
                    fv = x
                    break
            if fv is None:
                small, fv = spec, v
        fkey = fv["key"]
        resolved[key0] = fkey
        f = finding_for(findings, fkey)
        if f:
            known_hit[f["key"]] += 1
            _dump_known(f, fkey)
            if f["key"] not in reported:
                reported[f["key"]] = 1
                print("KNOWN-FINDING: property=%s %s [%s] (e.g. run %d: %s)" %
                      (check.pid, f.get("what", ""), f["key"], idx, fv["detail"][:300].replace("\n", " ")))
            continue
        if fkey in reported:
            continue
        reported[fkey] = 1
        path = _write_replay(check, a, idx, seed, small, fv)
        rc = _replay(check, path, findings, quiet=True)
        if rc != 1:
            print("HARNESS-ERROR: property=%s replay file %s did not reproduce (rc=%d)" % (check.pid, path, rc))
            exit_code = 2
            continue
        nviol += 1
        print("VIOLATION property=%s replay=%s" % (check.pid, path))
        print("  class: %s\n  detail: %s" % (fkey, fv["detail"][:2500]))
        if exit_code == 0:
            exit_code = 1

    wall_s = time.time() - t0
    if not a.no_evidence:
        _write_evidence(check, a, merged, wall_s, nviol, known_hit, len(herrs))
    print("%s %s: runs=%d evaluations=%d distinct=%d violations=%d known=%d harness_errors=%d wall=%.1fs" %
          (check.pid, a.tier, merged["runs"], merged["evals"], len(merged["distinct"]), nviol,
           sum(known_hit.values()), len(herrs), wall_s))
    sys.exit(exit_code)


def _skey(x):
    return (x.get("extra") or {}).get("skey") or x["key"]


def _shrink(check, spec, v):
    """Greedy: accept any candidate that still shows the same violation class."""
    best = spec
    runs = 0
    progress = True
    while progress and runs < check.max_shrink_runs:
        progress = False
        for cand in check.shrink(best, v):
            runs += 1
            cand = dict(cand)
            cand["_seed"] = spec.get("_seed")
            cand["_index"] = spec.get("_index")
            res = _exec_in_child(check, cand)
            if not res["harness_error"] and _skey(v) in [_skey(x) for x in res["violations"]]:
                best = cand
                progress = True
                break
            if runs >= check.max_shrink_runs:
                break
    return best


def _write_replay(check, a, idx, seed, spec, v):
    d = os.path.join(VERIF, "replays", check.pid)
    os.makedirs(d, exist_ok=True)
    res = _exec_in_child(check, spec)
    h = hashlib.sha256(json.dumps(spec, sort_keys=True, default=str).encode()).hexdigest()[:10]
    path = os.path.join(d, "%d-%d-%s.json" % (a.seed, idx, h))
    with open(path, "w") as f:
        json.dump({"property": check.pid, "tier": a.tier, "verif_seed": a.seed, "run_index": idx,
                   "run_seed": seed, "spec": spec,
                   "expected": {"class_key": v["key"], "detail": v["detail"]},
                   "trace": res["trace"]}, f, indent=1, default=str)
    return path


def _replay(check, path, findings, quiet=False):
    j = json.load(open(path))
    res = _exec_in_child(check, j["spec"])
    if res["harness_error"]:
        if not quiet:
            print("HARNESS-ERROR: %s" % res["harness_error"])
        return 2
    keys = [x["key"] for x in res["violations"]]
    want = j["expected"]["class_key"]
    if want in keys:
        if j.get("trace") and res["trace"] != j["trace"] and not quiet:
            print("note: execution trace differs from the recorded one (the code under test changed?)")
        if not quiet:
            f = finding_for(findings, want)
            if f:
                print("KNOWN-FINDING: property=%s %s [%s]" % (check.pid, f.get("what", ""), f["key"]))
                return 0
            print("VIOLATION property=%s replay=%s" % (check.pid, path))
            for x in res["violations"]:
                print("  class: %s\n  detail: %s" % (x["key"], x["detail"][:3000]))
        return 1
    if not quiet:
        print("replay %s: violation class '%s' not reproduced (got %s)" % (path, want, keys))
        for x in res["violations"]:
            print("VIOLATION property=%s replay=%s\n  class: %s\n  detail: %s" % (check.pid, path, x["key"], x["detail"][:2000]))
    return 1 if keys and not quiet else 0


def _write_evidence(check, a, merged, wall_s, nviol, known_hit, nherr):
    stats = merged["stats"]
    faults = {k[6:]: v for k, v in stats.items() if k.startswith("fault.")}
    probes = {k[6:]: v for k, v in stats.items() if k.startswith("probe.")}
    other = {k: v for k, v in stats.items() if not k.startswith(("fault.", "probe."))}
    cov = {
        "evaluations": merged["evals"],
        "distinct_nontrivial": len(merged["distinct"]),
        "rule": check.rule,
        "samples": merged["samples"] or [{"note": "no sample recorded"}],
        "runs": merged["runs"],
        "runs_per_hour": int(merged["runs"] / wall_s * 3600) if wall_s > 0 else 0,
        "seeds": {"verif_seed": a.seed, "derivation": "splitmix64(VERIF_SEED, property id, run index, tier)"},
        "sim_seconds": round(merged["sim_us"] / 1e6, 3),
        "faults_fired": faults,
        "probes": probes,
        "counters": other,
        "distinct_states": {"measure": check.rule, "n": len(merged["distinct"])},
        "observations": merged["observations"],
        "known_findings_hit": dict(known_hit),
        "harness_errors": nherr,
        "real_code": REAL_CODE,
        "stubbed": STUBBED,
        "reference_models": check.reference_models,
        "exhaustive": False,
    }
    cov.update(check.extra_evidence(merged))
    ev = {"property_id": check.pid, "tier": a.tier, "seed": a.seed, "level": check.level,
          "coverage": cov, "assumptions": check.assumptions, "wall_s": round(wall_s, 2), "violations": nviol}
    d = os.path.join(VERIF, "evidence")
    os.makedirs(d, exist_ok=True)
    tmp = os.path.join(d, ".%s.json.tmp" % check.pid)
    with open(tmp, "w") as f:
        json.dump(ev, f, indent=1, default=str)
        f.write("\n")
    os.replace(tmp, os.path.join(d, "%s.json" % check.pid))
