"""jworld — filesystems whose journal was written by the independent model writer (ref/jbd2model.py)
and then "crashed": the worlds of C03 (replay semantics) and C04 (interrupted recovery).
"""
import os
import re
import struct

import jbd2model as J
import minifs
from simcore import Plan, Rng, run_sim, tool
from world import debugfs_script, e2fsck, gen_config, gen_population, mkfs

FORMATS = [(False, "none", False), (True, "none", False), (False, "v1", False), (True, "v1", False),
           (False, "v2", False), (True, "v2", False), (False, "v3", False), (True, "v3", False),
           (True, "v3", True), (False, "v2", True), (True, "v1", True), (False, "none", True)]


def set_needs_recovery(img, on=True):
    with open(img, "r+b") as f:
        f.seek(1024)
        sb = bytearray(f.read(1024))
        inc = struct.unpack_from("<I", sb, 96)[0]
        inc = (inc | 4) if on else (inc & ~4)
        struct.pack_into("<I", sb, 96, inc)
        if struct.unpack_from("<I", sb, 100)[0] & 0x400:      # metadata_csum
            struct.pack_into("<I", sb, 1020, J.crc32c(0xFFFFFFFF, bytes(sb[:1020])))
        f.seek(1024)
        f.write(sb)


def jplan_kw(jw):
    """Plan keyword arguments every tool run on this world needs (external journal lookup)."""
    return {"extjournal": jw["jdev"]} if jw.get("jdev") else {}


def build_journal_world(rng, wd, want_formats=None, external=None):
    """Returns a dict describing the world, or None if the configuration was rejected.
    external: the journal lives on its own device (own barrier, found through the blkid lookup)."""
    if external is None:
        external = rng.chance(0.3)
    cfg = gen_config(rng, small=True, want=["has_journal"], avoid=["mmp", "bigalloc", "journal_dev"] + (["orphan_file"] if external else []))
    cfg["size_kib"] = max(cfg["size_kib"], 8192 if cfg["bs"] <= 2048 else 16384)
    cfg["jsize"] = cfg["bs"] // 1024     # the minimum: 1024 journal blocks
    cfg["lazy"] = rng.chance(0.5)
    img = os.path.join(wd, "img")
    jdev = None
    pkw = {}
    devs = None
    if external:
        jdev = os.path.join(wd, "jdev")
        jblk = rng.choice([1024, 1024, 1100, 1536, 2048])
        with open(jdev, "wb") as f:
            f.truncate(jblk * cfg["bs"])
        rj = run_sim([tool("mke2fs"), "-q", "-F", "-O", "journal_dev", "-b", str(cfg["bs"]), jdev, str(jblk)],
                     Plan([(jdev, "blk dz")], None, clock=1499999000, rand_seed=rng.u64() >> 1), wd, tag="mkj")
        if rj.status != 0 or rj.san:
            return None
        cfg = dict(cfg)
        cfg.pop("jsize", None)
        pkw = {"extjournal": jdev}
        devs = [img, (jdev, "blk dz")]
        with open(img, "wb") as f:
            f.truncate(cfg["size_kib"] * 1024)
        from world import mkfs_argv
        argv = mkfs_argv(cfg, img, extra=["-J", "device=" + jdev])
        r = run_sim(argv, Plan(devs, None, clock=1500000000, rand_seed=rng.u64() >> 1, **pkw), wd, tag="mkfs")
    else:
        r = mkfs(cfg, img, wd, rand_seed=rng.u64() >> 1)
    if r.status != 0 or r.san:
        return None
    cmds, _desc = gen_population(rng, cfg, wd, scale=0.4, big_dir=0)
    ntarget = rng.range(40, 160)
    host = os.path.join(wd, "jtarget.host")
    with open(host, "wb") as f:
        for i in range(ntarget):
            f.write((b"TGT%05d" % i) * (cfg["bs"] // 8))
    cmds.append('write "%s" /jtarget' % host)
    pr = debugfs_script(img, cmds, wd, tag="pop", rand_seed=rng.u64() >> 1, plan_kw=pkw, devices=devs)
    m = re.findall(rb"Allocated inode: (\d+)", pr.out)
    if not m:
        return None
    tino = int(m[-1])
    e2fsck(img, ["-fy"], wd, tag="settle", problems=False, devices=devs, plan_kw=pkw)
    data = open(img, "rb").read()
    fs = minifs.MiniFS(data)
    targets = [b for b in minifs.file_blocks(fs, tino) if b]
    bs = fs.bs
    if external:
        jdata = open(jdev, "rb").read()
        jsb_blk = 2 if bs == 1024 else 1
        jsb_raw = jdata[jsb_blk * bs:jsb_blk * bs + bs]
        jsb = J.parse_jsb(jsb_raw)
        if jsb["magic"] != J.MAGIC or jsb["nr_users"] != 1:
            return None
        jblocks = list(range(jsb["maxlen"]))
        if len(jdata) < jsb["maxlen"] * bs or len(targets) < 20:
            return None
    else:
        if not fs.journal_inum:
            return None
        jblocks = minifs.file_blocks(fs, fs.journal_inum)
        if len(jblocks) < 1024 or 0 in jblocks or len(targets) < 20:
            return None
        jsb_blk = jblocks[0]
        jsb_raw = data[jblocks[0] * bs:jblocks[0] * bs + bs]
        jsb = J.parse_jsb(jsb_raw)
        if jsb["magic"] != J.MAGIC:
            return None
        jdata = None
    maxlen, first = jsb["maxlen"], jsb["first"]
    fmtspec = rng.choice(want_formats or FORMATS)
    fmt = J.JournalFormat(*fmtspec)
    # ---- transactions
    ntx = rng.weighted([(1, 3), (2, 3), (3, 2), (rng.range(4, 9), 2)])
    seq0 = rng.weighted([(rng.range(2, 50), 4), (rng.range(1000, 1 << 30), 3), (0xFFFFFFFF - rng.range(0, 6), 1)])
    start = rng.weighted([(first, 3), (rng.range(first, maxlen - 1), 3), (maxlen - rng.range(1, 12), 4)])
    budget = maxlen - first - 8
    pool = list(targets)
    txns = []
    used = 0
    logged = []
    for i in range(ntx):
        t = J.Txn((seq0 + i) & 0xFFFFFFFF)
        nb = rng.weighted([(rng.range(1, 4), 4), (rng.range(5, 30), 3), (rng.range(31, 90), 1)])
        nb = min(nb, max(1, (budget - used) // 2))
        blks = rng.sample(pool, min(nb, len(pool)))
        for b in blks:
            kind = rng.below(10)
            if kind == 0:
                d = struct.pack(">I", J.MAGIC) + rng.bytes(bs - 4)          # needs ESCAPE
            elif kind == 1:
                d = b"\0" * bs
            else:
                d = (b"T%08xB%08d" % (t.seq, b)) + rng.bytes(16) * ((bs - 18) // 16 + 1)
                d = d[:bs]
            t.blocks.append((b, d))
        # revokes: blocks logged earlier, blocks logged in this transaction, blocks never logged
        for _ in range(rng.weighted([(0, 5), (1, 3), (rng.range(2, 12), 2)])):
            src = rng.below(3)
            if src == 0 and logged:
                t.revokes.append(rng.choice(logged))
            elif src == 1 and t.blocks and rng.chance(0.3):
                t.revokes.append(rng.choice(t.blocks)[0])
            else:
                t.revokes.append(rng.choice(pool))
        t.revokes = sorted(set(t.revokes))
        logged += [b for b, _ in t.blocks]
        used += len(t.blocks) + 3 + len(t.revokes) // 100
        txns.append(t)
        if used >= budget:
            break
    if rng.chance(0.3):
        txns[-1].committed = False
    # ---- stale previous lap: older, valid-looking transactions all over the log
    journal = {}      # position -> bytes  (what is on the medium)
    stale_mode = rng.weighted([("zero", 3), ("keep", 2), ("old_lap", 5)])
    if stale_mode == "zero":
        for p in range(first, maxlen):
            journal[p] = b"\0" * bs
    elif stale_mode == "old_lap":
        oldseq = (seq0 - 400) & 0xFFFFFFFF
        w0 = J.JournalWriter(bs, maxlen, first, jsb["uuid"], fmt, rng.range(first, maxlen - 1), oldseq, commit_time0=100)
        k = 0
        filled = 0
        while filled < maxlen - first:
            t0 = J.Txn((oldseq + k) & 0xFFFFFFFF)
            for b in rng.sample(pool, rng.range(1, 12)):
                t0.blocks.append((b, (b"STALE%08x" % t0.seq) * (bs // 13 + 1)))
                t0.blocks[-1] = (b, t0.blocks[-1][1][:bs])
            if rng.chance(0.2):
                t0.revokes = rng.sample(pool, 2)
            for pos, blk, _role in w0.write_txn(t0):
                journal[pos] = blk
                filled += 1
            k += 1
    w = J.JournalWriter(bs, maxlen, first, jsb["uuid"], fmt, start, seq0, commit_time0=5000)
    stream = []      # (txn index, position, bytes, role)
    for i, t in enumerate(txns):
        for pos, blk, role in w.write_txn(t, max_tags=rng.choice([None, None, 3, 7])):
            stream.append((i, pos, blk, role))
    return {"cfg": cfg, "img": img, "fs": fs, "bs": bs, "jblocks": jblocks, "jsb_raw": jsb_raw, "jsb": jsb, "fmt": fmt,
            "txns": txns, "stream": stream, "journal_pre": journal, "start": start, "seq0": seq0, "targets": targets,
            "stale": stale_mode, "wrapped": w.wrapped, "pre": data, "jdev": jdev, "jsb_blk": jsb_blk, "jpre": jdata,
            "jimg": jdev or img}


def crash_log(rng, jw, mode=None):
    """Decide which journal writes reached the medium.  Returns (applied flags per stream entry, complete flags
    per transaction, description)."""
    stream, txns = jw["stream"], jw["txns"]
    n = len(stream)
    mode = mode or rng.weighted([("all", 3), ("prefix", 5), ("prefix+holes", 4), ("torn", 2)])
    applied = [True] * n
    desc = {"mode": mode}
    torn = None
    if mode != "all" and n > 1:
        k = rng.range(1, n)          # the first k writes were issued
        for i in range(k, n):
            applied[i] = False
        desc["issued"] = k
        cur = stream[k - 1][0]       # transaction being written when the crash happened
        commit_issued = any(s[0] == cur and s[3] == "commit" for s in stream[:k])
        if mode in ("prefix+holes", "torn") and not commit_issued:
            # no barrier inside a transaction: any of its blocks issued so far may be missing
            idx = [i for i in range(k) if stream[i][0] == cur]
            if mode == "prefix+holes":
                for i in idx:
                    if rng.chance(0.4):
                        applied[i] = False
                desc["holes"] = sum(1 for i in idx if not applied[i])
            elif idx and jw["bs"] >= 1024:
                torn = (rng.choice(idx), rng.range(1, jw["bs"] // 512 - 1) if jw["bs"] > 1024 else 1)
                desc["torn"] = list(torn)
    complete = []
    for ti in range(len(txns)):
        complete.append(all(applied[i] and not (torn and torn[0] == i) for i in range(n) if stream[i][0] == ti))
    return applied, complete, desc, torn


def install_journal(jw, applied, torn=None):
    """Write the journal (stale content + applied stream), the journal superblock and needs_recovery."""
    bs = jw["bs"]
    with open(jw["jimg"], "r+b") as f:
        for pos, blk in jw["journal_pre"].items():
            f.seek(jw["jblocks"][pos] * bs)
            f.write(blk)
        for i, (ti, pos, blk, role) in enumerate(jw["stream"]):
            if not applied[i]:
                continue
            f.seek(jw["jblocks"][pos] * bs)
            if torn and torn[0] == i:
                f.write(blk[:torn[1] * 512])
            else:
                f.write(blk)
        jsb = J.make_jsb(jw["jsb_raw"][:1024], bs, jw["fmt"], jw["start"], jw["seq0"])
        f.seek(jw["jsb_blk"] * bs)
        f.write(jsb)
    set_needs_recovery(jw["img"], True)


def mask_volatile(data, jw):
    """Image bytes with the fields that recovery front-ends legitimately set differently blanked:
    primary superblock times / counters / checksum.  Used for front-end parity only."""
    d = bytearray(data)
    sb = 1024
    for off, ln in ((44, 4), (48, 4), (52, 2), (58, 2), (64, 4), (0x178, 8), (0x274, 1), (0x275, 1), (0x277, 1), (1020, 4)):
        d[sb + off:sb + off + ln] = b"\0" * ln
    return bytes(d)


def check_replayed(post, jw, exp, untouched, o=None, jpost=None):
    """Compare the image after recovery with the reference semantics.  Returns list of (clause, detail)."""
    bs = jw["bs"]
    pre = jw["pre"]
    bad = []
    for b, want in sorted(exp.items()):
        got = post[b * bs:(b + 1) * bs]
        if got != want:
            src = "pre-image" if got == pre[b * bs:(b + 1) * bs] else "other content"
            bad.append(("content", "fs block %d should hold its logged image from the last committed transaction but holds %s (%r...)" %
                        (b, src, got[:18])))
            if len(bad) > 3:
                break
    for b in sorted(untouched):
        if post[b * bs:(b + 1) * bs] != pre[b * bs:(b + 1) * bs]:
            bad.append(("untouched", "fs block %d appears only in uncommitted/unreplayed transactions or is revoked, yet it was "
                        "rewritten (%r...)" % (b, post[b * bs:b * bs + 18])))
            break
    # every other block outside the journal and the primary superblock is byte-identical
    skip = set(jw["jblocks"]) if not jw.get("jdev") else set()
    skip.add(1024 // bs)
    skip.add(0)
    named = set(exp) | untouched
    nblocks = min(len(pre), len(post)) // bs
    for b in range(nblocks):
        if b in skip or b in named:
            continue
        if post[b * bs:(b + 1) * bs] != pre[b * bs:(b + 1) * bs]:
            bad.append(("collateral", "fs block %d is named by no transaction but changed during recovery" % b))
            break
    # journal empty, recovery no longer requested
    jsrc = post if not jw.get("jdev") else (jpost if jpost is not None else open(jw["jdev"], "rb").read())
    jsb = J.parse_jsb(jsrc[jw["jsb_blk"] * bs:jw["jsb_blk"] * bs + 1024])
    if jsb["start"] != 0:
        bad.append(("journal_not_empty", "journal superblock s_start=%d after recovery" % jsb["start"]))
    inc = struct.unpack_from("<I", post, 1024 + 96)[0]
    if inc & 4:
        bad.append(("needs_recovery_set", "the filesystem still requests recovery after recovery"))
    return bad
