"""minifs — just enough on-disk layout knowledge to *address* media faults by structure.

This is not an oracle and judges nothing: it only decides where a fault lands (superblock
field, descriptor field, bitmap block, inode field, ...).  Written from the format, shares no
code with libext2fs.
"""
import struct

SB_OFF = 1024

# (name, offset in superblock, size)
SB_FIELDS = [
    ("s_inodes_count", 0, 4), ("s_blocks_count_lo", 4, 4), ("s_r_blocks_count_lo", 8, 4),
    ("s_free_blocks_count_lo", 12, 4), ("s_free_inodes_count", 16, 4), ("s_first_data_block", 20, 4),
    ("s_log_block_size", 24, 4), ("s_log_cluster_size", 28, 4), ("s_blocks_per_group", 32, 4),
    ("s_clusters_per_group", 36, 4), ("s_inodes_per_group", 40, 4), ("s_mtime", 44, 4), ("s_wtime", 48, 4),
    ("s_mnt_count", 52, 2), ("s_max_mnt_count", 54, 2), ("s_magic", 56, 2), ("s_state", 58, 2),
    ("s_errors", 60, 2), ("s_minor_rev_level", 62, 2), ("s_lastcheck", 64, 4), ("s_checkinterval", 68, 4),
    ("s_creator_os", 72, 4), ("s_rev_level", 76, 4), ("s_def_resuid", 80, 2), ("s_def_resgid", 82, 2),
    ("s_first_ino", 84, 4), ("s_inode_size", 88, 2), ("s_block_group_nr", 90, 2),
    ("s_feature_compat", 92, 4), ("s_feature_incompat", 96, 4), ("s_feature_ro_compat", 100, 4),
    ("s_reserved_gdt_blocks", 206, 2), ("s_journal_inum", 224, 4), ("s_journal_dev", 228, 4),
    ("s_last_orphan", 232, 4), ("s_def_hash_version", 252, 1), ("s_jnl_backup_type", 253, 1),
    ("s_desc_size", 254, 2), ("s_default_mount_opts", 256, 4), ("s_first_meta_bg", 260, 4),
    ("s_mkfs_time", 264, 4), ("s_blocks_count_hi", 336, 4), ("s_r_blocks_count_hi", 340, 4),
    ("s_free_blocks_count_hi", 344, 4), ("s_min_extra_isize", 348, 2), ("s_want_extra_isize", 350, 2),
    ("s_flags", 352, 4), ("s_raid_stride", 356, 2), ("s_mmp_update_interval", 358, 2), ("s_mmp_block", 360, 8),
    ("s_raid_stripe_width", 368, 4), ("s_log_groups_per_flex", 372, 1), ("s_checksum_type", 373, 1),
    ("s_kbytes_written", 376, 8), ("s_usr_quota_inum", 576, 4), ("s_grp_quota_inum", 580, 4),
    ("s_overhead_clusters", 584, 4), ("s_backup_bgs0", 588, 4), ("s_backup_bgs1", 592, 4),
    ("s_prj_quota_inum", 620, 4), ("s_checksum_seed", 624, 4), ("s_orphan_file_inum", 0x288, 4),
    ("s_checksum", 1020, 4),
]

# 32-byte descriptor, then the 64-bit extension
GD_FIELDS = [
    ("bg_block_bitmap_lo", 0, 4), ("bg_inode_bitmap_lo", 4, 4), ("bg_inode_table_lo", 8, 4),
    ("bg_free_blocks_count_lo", 12, 2), ("bg_free_inodes_count_lo", 14, 2), ("bg_used_dirs_count_lo", 16, 2),
    ("bg_flags", 18, 2), ("bg_exclude_bitmap_lo", 20, 4), ("bg_block_bitmap_csum_lo", 24, 2),
    ("bg_inode_bitmap_csum_lo", 26, 2), ("bg_itable_unused_lo", 28, 2), ("bg_checksum", 30, 2),
]
GD_FIELDS_HI = [
    ("bg_block_bitmap_hi", 32, 4), ("bg_inode_bitmap_hi", 36, 4), ("bg_inode_table_hi", 40, 4),
    ("bg_free_blocks_count_hi", 44, 2), ("bg_free_inodes_count_hi", 46, 2), ("bg_used_dirs_count_hi", 48, 2),
    ("bg_itable_unused_hi", 50, 2),
]

INODE_FIELDS = [
    ("i_mode", 0, 2), ("i_uid", 2, 2), ("i_size_lo", 4, 4), ("i_atime", 8, 4), ("i_ctime", 12, 4),
    ("i_mtime", 16, 4), ("i_dtime", 20, 4), ("i_gid", 24, 2), ("i_links_count", 26, 2), ("i_blocks_lo", 28, 4),
    ("i_flags", 32, 4), ("i_version", 36, 4),
    ("i_block0", 40, 4), ("i_block1", 44, 4), ("i_block2", 48, 4), ("i_block3", 52, 4), ("i_block4", 56, 4),
    ("i_block5", 60, 4), ("i_block6", 64, 4), ("i_block12", 88, 4), ("i_block13", 92, 4), ("i_block14", 96, 4),
    ("i_generation", 100, 4), ("i_file_acl_lo", 104, 4), ("i_size_high", 108, 4),
    ("l_i_blocks_high", 116, 2), ("l_i_file_acl_high", 118, 2), ("l_i_uid_high", 120, 2), ("l_i_gid_high", 122, 2),
    ("l_i_checksum_lo", 124, 2), ("i_extra_isize", 128, 2), ("i_checksum_hi", 130, 2), ("i_projid", 156, 4),
]

INCOMPAT = {"filetype": 0x2, "needs_recovery": 0x4, "journal_dev": 0x8, "meta_bg": 0x10, "extent": 0x40,
            "64bit": 0x80, "mmp": 0x100, "flex_bg": 0x200, "ea_inode": 0x400, "dirdata": 0x1000,
            "csum_seed": 0x2000, "large_dir": 0x4000, "inline_data": 0x8000, "encrypt": 0x10000}
RO_COMPAT = {"sparse_super": 0x1, "large_file": 0x2, "huge_file": 0x8, "gdt_csum": 0x10, "dir_nlink": 0x20,
             "extra_isize": 0x40, "quota": 0x100, "bigalloc": 0x200, "metadata_csum": 0x400, "project": 0x2000,
             "orphan_present": 0x10000}
COMPAT = {"has_journal": 0x4, "ext_attr": 0x8, "resize_inode": 0x10, "dir_index": 0x20, "sparse_super2": 0x200,
          "orphan_file": 0x1000}


class MiniFS:
    def __init__(self, data):
        self.d = data
        sb = data[SB_OFF:SB_OFF + 1024]
        g = lambda off, n: int.from_bytes(sb[off:off + n], "little")
        if g(56, 2) != 0xEF53:
            raise ValueError("no ext2 magic")
        self.bs = 1024 << g(24, 4)
        self.blocks = g(4, 4) | (g(336, 4) << 32 if g(96, 4) & 0x80 else 0)
        self.first_data_block = g(20, 4)
        self.bpg = g(32, 4)
        self.ipg = g(40, 4)
        self.inodes = g(0, 4)
        self.inode_size = g(88, 2) if g(76, 4) >= 1 else 128
        self.incompat = g(96, 4)
        self.ro_compat = g(100, 4)
        self.compat = g(92, 4)
        self.desc_size = g(254, 2) if (self.incompat & 0x80) and g(254, 2) >= 64 else 32
        self.groups = (self.blocks - self.first_data_block + self.bpg - 1) // self.bpg
        self.first_meta_bg = g(260, 4)
        self.reserved_gdt = g(206, 2)
        self.journal_inum = g(224, 4)
        self.first_ino = g(84, 4) if g(76, 4) >= 1 else 11
        self.mmp_block = g(360, 8)
        self.sb = sb

    def has(self, name):
        if name in INCOMPAT:
            return bool(self.incompat & INCOMPAT[name])
        if name in RO_COMPAT:
            return bool(self.ro_compat & RO_COMPAT[name])
        if name in COMPAT:
            return bool(self.compat & COMPAT[name])
        raise KeyError(name)

    def desc_per_block(self):
        return self.bs // self.desc_size

    def gd_offset(self, g):
        """byte offset of the primary descriptor of group g"""
        dpb = self.desc_per_block()
        blk_index = g // dpb
        # the primary superblock lives at byte 1024: block 1 when blocks are 1 KiB (even when
        # s_first_data_block is 0, as with bigalloc), block 0 otherwise
        sb_blk = 1 if self.bs == 1024 else 0
        if self.has("meta_bg") and blk_index >= self.first_meta_bg:
            first_group = blk_index * dpb
            blk = self.first_data_block + first_group * self.bpg
            if self.group_has_super(first_group):
                blk += 1
            if first_group == 0 and self.bs == 1024 and self.first_data_block == 0:
                blk += 1
        else:
            blk = sb_blk + 1 + blk_index
        return blk * self.bs + (g % dpb) * self.desc_size

    def group_has_super(self, g):
        if g == 0:
            return True
        if self.has("sparse_super2"):
            b0 = int.from_bytes(self.sb[588:592], "little")
            b1 = int.from_bytes(self.sb[592:596], "little")
            return g in (b0, b1)
        if not self.has("sparse_super"):
            return True
        if g == 1:
            return True
        for p in (3, 5, 7):
            x = p
            while x < g:
                x *= p
            if x == g:
                return True
        return False

    def gd(self, g):
        off = self.gd_offset(g)
        raw = self.d[off:off + self.desc_size]
        f = lambda o, n: int.from_bytes(raw[o:o + n], "little")
        hi = self.desc_size >= 64
        return {"off": off,
                "block_bitmap": f(0, 4) | (f(32, 4) << 32 if hi else 0),
                "inode_bitmap": f(4, 4) | (f(36, 4) << 32 if hi else 0),
                "inode_table": f(8, 4) | (f(40, 4) << 32 if hi else 0),
                "flags": f(18, 2), "itable_unused": f(28, 2)}

    def inode_offset(self, ino):
        g = (ino - 1) // self.ipg
        idx = (ino - 1) % self.ipg
        return self.gd(g)["inode_table"] * self.bs + idx * self.inode_size

    def inode_raw(self, ino):
        o = self.inode_offset(ino)
        return self.d[o:o + self.inode_size]

    def inodes_in_use(self, limit=4000):
        """inode numbers whose bitmap bit is set (reads the on-disk inode bitmaps)."""
        out = []
        for g in range(self.groups):
            gd = self.gd(g)
            if gd["flags"] & 1:   # INODE_UNINIT
                continue
            off = gd["inode_bitmap"] * self.bs
            bm = self.d[off:off + (self.ipg + 7) // 8]
            for i in range(self.ipg):
                if i // 8 < len(bm) and bm[i // 8] >> (i % 8) & 1:
                    out.append(g * self.ipg + i + 1)
                    if len(out) >= limit:
                        return out
        return out

    def inode_first_blocks(self, ino, maxn=4):
        """A few physical blocks the inode maps directly from i_block (extent leaf in the inode
        or direct pointers), plus the first index/indirect block.  -> (data blocks, tree blocks)"""
        raw = self.inode_raw(ino)
        if len(raw) < 128:
            return [], []
        flags = int.from_bytes(raw[32:36], "little")
        ib = raw[40:100]
        data, tree = [], []
        if flags & 0x10000000:   # inline data
            return [], []
        if flags & 0x80000:     # extents
            magic, entries, _mx, depth = struct.unpack_from("<HHHH", ib, 0)
            if magic != 0xF30A:
                return [], []
            for i in range(min(entries, 4)):
                e = ib[12 + 12 * i:24 + 12 * i]
                if depth == 0:
                    _lblk, ln, hi, lo = struct.unpack("<IHHI", e)
                    start = lo | (hi << 32)
                    for k in range(min(ln & 0x7FFF, maxn)):
                        data.append(start + k)
                else:
                    _lblk, lo, hi, _u = struct.unpack("<IIHH", e)
                    tree.append(lo | (hi << 32))
        else:
            mode = int.from_bytes(raw[0:2], "little") & 0xF000
            blocks_lo = int.from_bytes(raw[28:32], "little")
            if mode == 0xA000 and blocks_lo == 0:
                return [], []      # fast symlink
            if mode in (0x1000, 0x2000, 0x6000, 0xC000):
                return [], []
            for i in range(12):
                b = int.from_bytes(ib[4 * i:4 * i + 4], "little")
                if b and len(data) < maxn:
                    data.append(b)
            for i in range(12, 15):
                b = int.from_bytes(ib[4 * i:4 * i + 4], "little")
                if b:
                    tree.append(b)
        ok = lambda b: self.first_data_block <= b < self.blocks
        return [b for b in data if ok(b)], [b for b in tree if ok(b)]


def file_blocks(fs, ino, maxblocks=1 << 20):
    """[physical block or 0 (hole)] indexed by logical block, for inode `ino` (extent or indirect mapped).
    Used to *locate* things (journal blocks, target blocks); no oracle depends on it alone."""
    raw = fs.inode_raw(ino)
    flags = int.from_bytes(raw[32:36], "little")
    ib = raw[40:100]
    size = int.from_bytes(raw[4:8], "little") | (int.from_bytes(raw[108:112], "little") << 32)
    nblk = min((size + fs.bs - 1) // fs.bs, maxblocks)
    out = [0] * nblk
    d = fs.d

    def walk_ext(node, depth_guard):
        magic, entries, _mx, depth = struct.unpack_from("<HHHH", node, 0)
        if magic != 0xF30A or depth_guard > 6:
            return
        for i in range(entries):
            e = node[12 + 12 * i:24 + 12 * i]
            if depth == 0:
                lblk, ln, hi, lo = struct.unpack("<IHHI", e)
                start = lo | (hi << 32)
                ln = ln & 0x7FFF if ln > 32768 else ln
                for k in range(ln):
                    if lblk + k < nblk:
                        out[lblk + k] = start + k
            else:
                _lblk, lo, hi, _u = struct.unpack("<IIHH", e)
                blk = lo | (hi << 32)
                walk_ext(d[blk * fs.bs:(blk + 1) * fs.bs], depth_guard + 1)

    if flags & 0x80000:
        walk_ext(ib, 0)
        return out
    per = fs.bs // 4

    def ind(blk, level, base):
        if not blk:
            return
        tbl = d[blk * fs.bs:(blk + 1) * fs.bs]
        span = per ** (level - 1)
        for i in range(per):
            b = int.from_bytes(tbl[4 * i:4 * i + 4], "little")
            if base + i * span >= nblk:
                break
            if level == 1:
                if b:
                    out[base + i] = b
            else:
                ind(b, level - 1, base + i * span)

    for i in range(12):
        b = int.from_bytes(ib[4 * i:4 * i + 4], "little")
        if i < nblk:
            out[i] = b
    ind(int.from_bytes(ib[48:52], "little"), 1, 12)
    ind(int.from_bytes(ib[52:56], "little"), 2, 12 + per)
    ind(int.from_bytes(ib[56:60], "little"), 3, 12 + per + per * per)
    return out


# ----------------------------------------------------------------------------- fault generation
INTERESTING = [0, 1, 2, 0x7F, 0x80, 0xFF, 0x100, 0x7FFF, 0x8000, 0xFFFF, 0x10000, 0x7FFFFFFF, 0x80000000, 0xFFFFFFFF]


def field_fault(rng, base_off, fields, data, label):
    """One fault on a named field: {'off','bytes','what'}"""
    name, off, size = rng.choice(fields)
    cur = int.from_bytes(data[base_off + off:base_off + off + size], "little")
    how = rng.below(6)
    mask = (1 << (8 * size)) - 1
    if how == 0:
        new = cur ^ (1 << rng.below(8 * size))
    elif how == 1:
        new = (cur + rng.choice([1, -1, 2, -2, 8, -8])) & mask
    elif how == 2:
        new = rng.choice(INTERESTING) & mask
    elif how == 3:
        new = 0
    elif how == 4:
        new = mask
    else:
        new = rng.u64() & mask
    if new == cur:
        new = cur ^ 1
    return {"off": base_off + off, "bytes": new.to_bytes(size, "little").hex(),
            "what": "%s.%s" % (label, name), "cls": label.split("[")[0] + "." + name}


def gen_faults(rng, data, n=1, extra_meta_blocks=(), classes=None):
    """n at-rest media faults addressed by structure.  Each fault is a dict
    {off, bytes(hex), what, cls}.  extra_meta_blocks: block numbers known to hold metadata
    (directory, extent, xattr, journal ... blocks) from any source."""
    fs = MiniFS(data)
    out = []
    inuse = None
    for _ in range(n):
        kinds = [("sb", 3), ("gd", 4), ("bbitmap", 3), ("ibitmap", 2), ("inode", 8), ("inode_raw", 2),
                 ("iblock", 4), ("dirblock", 4), ("meta", 6 if extra_meta_blocks else 0), ("sector", 1)]
        if classes:
            kinds = [(k, w) for k, w in kinds if k in classes]
        kind = rng.weighted(kinds)
        if kind == "sb":
            out.append(field_fault(rng, SB_OFF, SB_FIELDS, data, "sb"))
        elif kind == "gd":
            g = rng.below(fs.groups)
            fields = GD_FIELDS + (GD_FIELDS_HI if fs.desc_size >= 64 else [])
            out.append(field_fault(rng, fs.gd_offset(g), fields, data, "gd[%d]" % g))
        elif kind in ("bbitmap", "ibitmap"):
            g = rng.below(fs.groups)
            gd = fs.gd(g)
            blk = gd["block_bitmap"] if kind == "bbitmap" else gd["inode_bitmap"]
            if not (0 < blk < fs.blocks):
                continue
            nbits = (fs.bpg if kind == "bbitmap" else fs.ipg)
            bit = rng.below(max(1, nbits))
            off = blk * fs.bs + bit // 8
            how = rng.below(3)
            if how == 0:
                out.append({"off": off, "bytes": bytes([data[off] ^ (1 << (bit % 8))]).hex(),
                            "what": "%s[%d] bit %d" % (kind, g, bit), "cls": kind + ".bit"})
            elif how == 1:
                ln = rng.choice([1, 4, 64])
                out.append({"off": off, "bytes": (b"\0" * ln).hex(), "what": "%s[%d] zero %d@%d" % (kind, g, ln, bit // 8),
                            "cls": kind + ".zero"})
            else:
                ln = rng.choice([1, 4, 64])
                out.append({"off": off, "bytes": (b"\xff" * ln).hex(), "what": "%s[%d] ones %d@%d" % (kind, g, ln, bit // 8),
                            "cls": kind + ".ones"})
        elif kind in ("inode", "inode_raw", "iblock", "dirblock"):
            if inuse is None:
                inuse = fs.inodes_in_use()
            if not inuse:
                continue
            ino = rng.choice(inuse) if rng.chance(0.8) else rng.choice([1, 2, 7, 8, fs.journal_inum or 8, 11])
            if ino < 1 or ino > fs.inodes:
                continue
            ioff = fs.inode_offset(ino)
            if ioff + fs.inode_size > len(data):
                continue
            if kind == "inode":
                fields = [f for f in INODE_FIELDS if f[1] + f[2] <= fs.inode_size]
                out.append(field_fault(rng, ioff, fields, data, "inode[%d]" % ino))
            elif kind == "inode_raw":
                o = rng.below(fs.inode_size)
                out.append({"off": ioff + o, "bytes": bytes([data[ioff + o] ^ (1 << rng.below(8))]).hex(),
                            "what": "inode[%d] byte %d bitflip" % (ino, o), "cls": "inode.rawbit"})
            else:
                dblocks, tblocks = fs.inode_first_blocks(ino)
                mode = int.from_bytes(data[ioff:ioff + 2], "little") & 0xF000
                if kind == "dirblock":
                    if mode != 0x4000 or not dblocks:
                        # fall back to the root directory
                        dblocks, _t = fs.inode_first_blocks(2)
                        ino = 2
                        if not dblocks:
                            continue
                    blk = rng.choice(dblocks)
                    out.append(block_fault(rng, data, blk, fs.bs, "dirblock(ino %d)" % ino, "dirblock", dirlike=True))
                else:
                    if not tblocks:
                        continue
                    blk = rng.choice(tblocks)
                    out.append(block_fault(rng, data, blk, fs.bs, "treeblock(ino %d)" % ino, "treeblock"))
        elif kind == "meta":
            blk = rng.choice(list(extra_meta_blocks))
            if 0 <= blk < fs.blocks:
                out.append(block_fault(rng, data, blk, fs.bs, "metablock %d" % blk, "metablock"))
        else:
            sec = rng.below(min(len(data) // 512, 4096))
            how = rng.below(2)
            payload = b"\0" * 512 if how == 0 else rng.bytes(512)
            out.append({"off": sec * 512, "bytes": payload.hex(), "what": "sector %d %s" % (sec, "zeroed" if how == 0 else "random"),
                        "cls": "sector." + ("zero" if how == 0 else "random")})
    return [f for f in out if f and f["off"] + len(f["bytes"]) // 2 <= len(data)]


def block_fault(rng, data, blk, bs, label, cls, dirlike=False):
    base = blk * bs
    how = rng.below(6)
    if how == 0:
        o = rng.below(bs)
        return {"off": base + o, "bytes": bytes([data[base + o] ^ (1 << rng.below(8))]).hex(),
                "what": "%s byte %d bitflip" % (label, o), "cls": cls + ".bit"}
    if how == 1:
        # a 16/32-bit word near the start of the block (headers live there) or anywhere
        o = (rng.below(16) if rng.chance(0.5) else rng.below(bs // 4)) * 4
        size = rng.choice([2, 4])
        o = min(o, bs - size)
        new = rng.choice(INTERESTING) & ((1 << 8 * size) - 1)
        return {"off": base + o, "bytes": new.to_bytes(size, "little").hex(),
                "what": "%s word@%d=%#x" % (label, o, new), "cls": cls + ".word"}
    if how == 2:
        sec = rng.below(bs // 512)
        return {"off": base + sec * 512, "bytes": (b"\0" * 512).hex(), "what": "%s sector %d zeroed" % (label, sec),
                "cls": cls + ".zerosec"}
    if how == 3:
        sec = rng.below(bs // 512)
        return {"off": base + sec * 512, "bytes": rng.bytes(512).hex(), "what": "%s sector %d random" % (label, sec),
                "cls": cls + ".randsec"}
    if how == 4:
        return {"off": base, "bytes": (b"\0" * bs).hex(), "what": "%s zeroed" % label, "cls": cls + ".zero"}
    # small increment of a 16-bit little-endian word (rec_len, counts, lengths)
    o = rng.below(bs // 2) * 2
    cur = int.from_bytes(data[base + o:base + o + 2], "little")
    new = (cur + rng.choice([1, -1, 4, -4, 12])) & 0xFFFF
    return {"off": base + o, "bytes": new.to_bytes(2, "little").hex(), "what": "%s u16@%d %d->%d" % (label, o, cur, new),
            "cls": cls + ".u16"}


def apply_faults(path, faults):
    with open(path, "r+b") as f:
        for ft in faults:
            f.seek(ft["off"])
            f.write(bytes.fromhex(ft["bytes"]))


def metadata_blocks_via_e2image(img, workdir, run_sim, Plan, tool):
    """Blocks that e2image -r considers metadata (targets for faults only, never an oracle)."""
    out = img + ".e2i"
    pl = Plan([img], None)
    r = run_sim([tool("e2image"), "-r", img, out], pl, workdir, tag="e2i")
    blocks = []
    try:
        data = open(img, "rb").read(2048)
        bs = 1024 << int.from_bytes(data[1024 + 24:1024 + 28], "little")
        import os
        fd = os.open(out, os.O_RDONLY)
        try:
            end = os.fstat(fd).st_size
            off = 0
            while off < end:
                try:
                    s = os.lseek(fd, off, os.SEEK_DATA)
                except OSError:
                    break
                e = os.lseek(fd, s, os.SEEK_HOLE)
                for b in range(s // bs, (e + bs - 1) // bs):
                    blocks.append(b)
                off = e
        finally:
            os.close(fd)
            os.unlink(out)
    except Exception:
        pass
    return blocks
