"""simcore — orchestrator side of the deterministic simulation.

One simulated process = one tool (or harness driver) run under a plan file.  This module
writes plans, launches processes, parses the event log the shim leaves behind, and rebuilds
crash states of the simulated disk.  It draws no randomness of its own: every choice comes
from an Rng seeded by the caller, and nothing here reads a clock for anything but the
wall-time figures of the evidence file.
"""
import ctypes
import hashlib
import os
import resource
import shutil
import struct
import subprocess
import sys

VERIF = os.path.dirname(os.path.dirname(os.path.dirname(os.path.abspath(__file__))))
BUILD = os.environ.get("VERIF_BUILD", "/var/tmp/e2fs-verif-build")
OBJ = os.path.join(BUILD, "asan", "obj")
HARNESS = os.path.join(BUILD, "asan", "harness")
SCRATCH_ROOT = os.environ.get("VERIF_SCRATCH", "/dev/shm")

TOOLS = {
    "mke2fs": "misc/mke2fs", "e2fsck": "e2fsck/e2fsck", "debugfs": "debugfs/debugfs",
    "resize2fs": "resize/resize2fs", "tune2fs": "misc/tune2fs", "dumpe2fs": "misc/dumpe2fs",
    "e2image": "misc/e2image", "e2undo": "misc/e2undo", "e2freefrag": "misc/e2freefrag",
    "badblocks": "misc/badblocks", "e2label": "misc/tune2fs",
}


def tool(name):
    if name in TOOLS:
        return os.path.join(OBJ, TOOLS[name])
    return os.path.join(HARNESS, name)


# ----------------------------------------------------------------------------- randomness
MASK = (1 << 64) - 1


def splitmix64(x):
    x = (x + 0x9E3779B97F4A7C15) & MASK
    z = x
    z = ((z ^ (z >> 30)) * 0xBF58476D1CE4E5B9) & MASK
    z = ((z ^ (z >> 27)) * 0x94D049BB133111EB) & MASK
    return z ^ (z >> 31)


def derive_seed(*parts):
    """A 64-bit seed from VERIF_SEED, the property id, the run index, ... (order matters)."""
    h = 0x243F6A8885A308D3
    for p in parts:
        if isinstance(p, str):
            p = int.from_bytes(hashlib.sha256(p.encode()).digest()[:8], "little")
        h = splitmix64(h ^ (p & MASK))
    return h


class Rng:
    """Small deterministic PRNG (splitmix64 stream).  Independent of Python's random module so
    that a seed means the same run under any interpreter version or PYTHONHASHSEED."""

    def __init__(self, seed):
        self.s = seed & MASK

    def u64(self):
        self.s = (self.s + 0x9E3779B97F4A7C15) & MASK
        z = self.s
        z = ((z ^ (z >> 30)) * 0xBF58476D1CE4E5B9) & MASK
        z = ((z ^ (z >> 27)) * 0x94D049BB133111EB) & MASK
        return z ^ (z >> 31)

    def below(self, n):
        return self.u64() % n if n > 0 else 0

    def range(self, lo, hi):
        """integer in [lo, hi]"""
        return lo + self.below(hi - lo + 1)

    def chance(self, p):
        return (self.u64() >> 11) / float(1 << 53) < p

    def choice(self, seq):
        return seq[self.below(len(seq))]

    def weighted(self, pairs):
        tot = sum(w for _, w in pairs)
        x = self.below(tot)
        for v, w in pairs:
            if x < w:
                return v
            x -= w
        return pairs[-1][0]

    def sample(self, seq, k):
        seq = list(seq)
        out = []
        for _ in range(min(k, len(seq))):
            out.append(seq.pop(self.below(len(seq))))
        return out

    def shuffle(self, seq):
        for i in range(len(seq) - 1, 0, -1):
            j = self.below(i + 1)
            seq[i], seq[j] = seq[j], seq[i]

    def bytes(self, n):
        out = bytearray()
        while len(out) < n:
            out += self.u64().to_bytes(8, "little")
        return bytes(out[:n])

    def fork(self, tag):
        return Rng(derive_seed(self.u64(), tag))


# ----------------------------------------------------------------------------- process environment
_ADDR_NO_RANDOMIZE = 0x0040000


def disable_aslr():
    """personality(ADDR_NO_RANDOMIZE) is inherited by children; call once per worker."""
    try:
        libc = ctypes.CDLL(None, use_errno=True)
        cur = libc.personality(0xFFFFFFFF)
        if cur != -1:
            libc.personality(cur | _ADDR_NO_RANDOMIZE)
    except Exception:
        pass


BASE_ENV = {
    "LC_ALL": "C", "TZ": "GMT0", "PATH": "/usr/bin:/bin",
    "MKE2FS_CONFIG": "/dev/null", "E2FSCK_CONFIG": "/dev/null", "BLKID_FILE": "/dev/null",
    "E2FSPROGS_SKIP_PROGRESS": "yes", "EXT2FS_NO_MTAB_OK": "yes",
    "E2FSPROGS_LIBMAGIC_SUPPRESS": "yes", "MKE2FS_SKIP_CHECK_MSG": "yes",
    "ASAN_OPTIONS": ("detect_leaks=0:exitcode=77:allocator_may_return_null=1:"
                     "max_allocation_size_mb=1024:detect_stack_use_after_return=0:"
                     "handle_abort=1:abort_on_error=0:symbolize=1:fast_unwind_on_malloc=1"),
    "UBSAN_OPTIONS": "halt_on_error=1:exitcode=77:print_stacktrace=1",
    "TSAN_OPTIONS": "exitcode=66:halt_on_error=0:report_signal_unsafe=0",
}


# ----------------------------------------------------------------------------- plans
def rmtree(path):
    """shutil.rmtree recurses once per directory level; `debugfs rdump` of a damaged tree can legitimately
    create a path as deep as PATH_MAX allows (1000+ levels), which is deeper than Python's stack."""
    try:
        shutil.rmtree(path, ignore_errors=True)
    except RecursionError:
        subprocess.run(["rm", "-rf", path], check=False)


class Plan:
    """The complete description of the environment of one simulated process."""

    def __init__(self, devices, log, clock=1500000000, cost_us=100, rand_seed=1, ncpu=1,
                 sched=None, faults=(), budget=400000, src=None, extjournal=None):
        self.devices = list(devices)      # list of (path, options-string)  e.g. ("/dev/shm/x/img", "")
        self.log = log
        self.clock = clock
        self.cost_us = cost_us
        self.rand_seed = rand_seed
        self.ncpu = ncpu
        self.sched = sched
        self.faults = [tuple(f) for f in faults]  # (kind, dev, nth, a, b)
        self.budget = budget
        self.src = src
        self.extjournal = extjournal

    def text(self, relative_to=None):
        out = ["log %s" % self.log]
        pre = (relative_to.rstrip("/") + "/") if relative_to else None

        def rel(p):
            return p[len(pre):] if pre and p and p.startswith(pre) else p
        for i, d in enumerate(self.devices):
            if isinstance(d, str):
                d = (d, "")
            out.append("dev %d %s %s" % (i, rel(d[0]), d[1]))
        if self.src:
            out.append("src %s" % self.src)
        if self.extjournal:
            out.append("extjournal %s" % rel(self.extjournal))
        out.append("clock %d %d" % (self.clock, self.cost_us))
        out.append("rand %d" % (self.rand_seed & MASK))
        out.append("ncpu %d" % self.ncpu)
        out.append("sched %s" % ("off" if self.sched is None else str(self.sched & MASK)))
        out.append("budget %d" % self.budget)
        for f in self.faults:
            f = tuple(f) + (0,) * (5 - len(f))
            out.append("fault %s %d %d %d %d" % f[:5])
        return "\n".join(out) + "\n"

    def to_json(self):
        return {"devices": [list(d) if not isinstance(d, str) else [d, ""] for d in self.devices],
                "clock": self.clock, "cost_us": self.cost_us, "rand_seed": self.rand_seed,
                "ncpu": self.ncpu, "sched": self.sched, "faults": [list(f) for f in self.faults],
                "budget": self.budget, "src": self.src, "extjournal": self.extjournal}


# ----------------------------------------------------------------------------- event log
EV = struct.Struct("<IIBBBBIqqqII")
EV_MAGIC = 0x31564553
MUTATING = set("WTZPDA")


class Event:
    __slots__ = ("seq", "kind", "dev", "fault", "tid", "off", "len", "res", "payload")

    def __init__(self, seq, kind, dev, fault, tid, off, ln, res, payload):
        self.seq, self.kind, self.dev, self.fault, self.tid = seq, kind, dev, fault, tid
        self.off, self.len, self.res, self.payload = off, ln, res, payload

    def brief(self):
        return "%s%d@%d+%d=%d%s" % (self.kind, self.dev, self.off, self.len, self.res,
                                    ("!f%d" % self.fault) if self.fault else "")

    def __repr__(self):
        return "<" + self.brief() + ">"


def parse_log(path):
    evs = []
    try:
        data = open(path, "rb").read()
    except FileNotFoundError:
        return evs
    p = 0
    n = len(data)
    while p + EV.size <= n:
        magic, seq, kind, dev, fault, _fl, tid, off, ln, res, plen, _pad = EV.unpack_from(data, p)
        if magic != EV_MAGIC:
            raise ValueError("corrupt event log %s at %d" % (path, p))
        p += EV.size
        payload = data[p:p + plen] if plen else b""
        p += plen
        evs.append(Event(seq, chr(kind), dev, fault, tid, off, ln, res, payload))
    return evs


def log_hash(evs, with_reads=True):
    """Digest of an event sequence: the identity of an execution for the replay gate."""
    h = hashlib.sha256()
    for e in evs:
        if not with_reads and e.kind == "R":
            continue
        h.update(struct.pack("<BBBIqqq", ord(e.kind), e.dev, e.fault, e.tid, e.off, e.len, e.res))
        if e.payload:
            h.update(hashlib.sha256(e.payload).digest())
    return h.hexdigest()


def mutating_events(evs, dev=None):
    """Events that changed (or were meant to change) the medium of device dev."""
    out = []
    for e in evs:
        if dev is not None and e.dev != dev:
            continue
        if e.kind in MUTATING and (e.kind != "W" or e.res > 0 or e.fault):
            out.append(e)
        elif e.kind == "L":
            out.append(e)
    return out


def count_mutations(evs, dev=None):
    """Number of events that really changed bytes on the medium (a failed write changes nothing)."""
    n = 0
    for e in evs:
        if dev is not None and e.dev != dev:
            continue
        if e.kind == "W" and e.res > 0:
            n += 1
        elif e.kind in "TZPA" and e.res == 0:
            n += 1
    return n


def sim_stats(evs):
    """(simulated microseconds, device events, schedule digest, {fault id: seen}) from the E/S records."""
    us = nev = 0
    dig = 0
    fired = {}
    for e in evs:
        if e.kind == "E":
            us, nev, dig = e.off, e.len, e.res
        elif e.kind == "S":
            fired[e.fault] = e.len
    return us, nev, dig, fired


# ----------------------------------------------------------------------------- crash states
def apply_event(img, e, torn_sectors=None):
    """Apply one logged mutating event to a bytearray image (in place; may grow/shrink it)."""
    if e.kind == "W":
        data = e.payload
        if torn_sectors is not None:
            data = data[:torn_sectors * 512]
        if not data:
            return
        end = e.off + len(data)
        if end > len(img):
            img.extend(b"\0" * (end - len(img)))
        img[e.off:end] = data
    elif e.kind == "T":
        if e.res != 0:
            return
        if e.len < len(img):
            del img[e.len:]
        else:
            img.extend(b"\0" * (e.len - len(img)))
    elif e.kind in "ZP":
        if e.res != 0:
            return
        end = min(e.off + e.len, len(img))
        if e.kind == "Z" and e.off + e.len > len(img):
            img.extend(b"\0" * (e.off + e.len - len(img)))
            end = e.off + e.len
        if end > e.off:
            img[e.off:end] = b"\0" * (end - e.off)
    elif e.kind == "A":
        if e.res == 0 and e.off + e.len > len(img):
            img.extend(b"\0" * (e.off + e.len - len(img)))
    # 'D' (non-zeroing discard) and 'L' (lost write) leave the medium as it was


def split_at_barrier(evs, dev, upto=None):
    """(durable, inflight): the mutating events of `dev` among evs[:upto], split at the last
    completed barrier (successful F) on that device."""
    seq = evs if upto is None else evs[:upto]
    last_f = -1
    for i, e in enumerate(seq):
        if e.dev == dev and e.kind == "F" and e.res == 0:
            last_f = i
    durable = [e for e in seq[:last_f + 1] if e.dev == dev and e.kind in MUTATING]
    inflight = [e for e in seq[last_f + 1:] if e.dev == dev and e.kind in MUTATING]
    return durable, inflight


def crash_image(pre, evs, dev, upto=None, model="kill", keep=None, torn=None):
    """The content of device `dev` after a crash that happened once evs[:upto] had been issued.

    kill : every issued write is on the medium (the page cache survived the process).
    power: writes issued after the last completed barrier are in flight; keep[i] says whether
           the i-th in-flight write reached the medium (applied in issue order), and
           torn = {i: sectors} cuts the i-th in-flight write to a sector prefix.
    """
    img = bytearray(pre)
    durable, inflight = split_at_barrier(evs, dev, upto)
    if model == "kill":
        for e in durable + inflight:
            apply_event(img, e)
        return img
    for e in durable:
        apply_event(img, e)
    for i, e in enumerate(inflight):
        if keep is not None and not keep[i]:
            continue
        apply_event(img, e, (torn or {}).get(i))
    return img


# ----------------------------------------------------------------------------- running one process
class Result:
    __slots__ = ("argv", "status", "signal", "out", "err", "events", "timeout", "san", "crashed",
                 "budget_hit", "sim_us", "san_text", "problem_records")

    def ok(self):
        return self.status == 0 and not self.san

    def brief(self):
        return "status=%s sig=%s san=%s events=%d" % (self.status, self.signal, bool(self.san), len(self.events))


SAN_MARKERS = (b"ERROR: AddressSanitizer", b"runtime error:", b"ERROR: LeakSanitizer",
               b"WARNING: ThreadSanitizer")


def classify_sanitizer(err):
    """(kind, innermost repository frame) of the first sanitizer report in stderr, or None."""
    if not any(m in err for m in SAN_MARKERS):
        return None
    text = err.decode("latin1")
    kind = "sanitizer"
    for line in text.splitlines():
        if "ERROR: AddressSanitizer:" in line:
            kind = "asan:" + line.split("AddressSanitizer:")[1].split()[0]
            break
        if "runtime error:" in line:
            msg = line.split("runtime error:")[1].strip()
            kind = "ubsan:" + " ".join(msg.split()[:3])
            break
        if "WARNING: ThreadSanitizer:" in line:
            kind = "tsan:" + line.split("ThreadSanitizer:")[1].split("(")[0].strip()
            break
    frame = "?"
    for line in text.splitlines():
        ls = line.strip()
        if ls.startswith("#") and " in " in ls:
            fn = ls.split(" in ", 1)[1].split()[0]
            loc = ls.split()[-1]
            if "/src/" in loc and "sanitizer" not in loc:
                frame = fn + "@" + loc.split("/src/", 1)[1].split(":")[0]
                break
    return (kind, frame)


FSIZE_LIMIT = 768 << 20
OUT_CAP = 512 << 10


def _read_capped(path):
    """first and last OUT_CAP bytes of a captured stream"""
    sz = os.path.getsize(path)
    with open(path, "rb") as f:
        if sz <= 2 * OUT_CAP:
            return f.read()
        head = f.read(OUT_CAP)
        f.seek(sz - OUT_CAP)
        return head + b"\n...[%d bytes omitted]...\n" % (sz - 2 * OUT_CAP) + f.read()


def run_sim(argv, plan, workdir, tag="p", env=None, stdin=None, cpu_s=10, keep_log=False):
    """Run one simulated process.  Returns Result with parsed events."""
    plan_path = os.path.join(workdir, tag + ".plan")
    plan.log = os.path.join(workdir, tag + ".evlog")
    if os.path.exists(plan.log):
        os.unlink(plan.log)
    with open(plan_path, "w") as f:
        f.write(plan.text(relative_to=workdir))
    e = dict(BASE_ENV)
    if env:
        e.update(env)
    e["SIM_PLAN"] = plan_path
    # Simulated processes run with cwd = workdir and see every path below it as a relative path, so
    # that nothing a tool derives from a path (MMP device name, messages, hash of argv) depends on the
    # name of the scratch directory: a replay in another directory is the same execution.
    pre = workdir.rstrip("/") + "/"
    argv = [a[len(pre):] if isinstance(a, str) and a.startswith(pre) and len(a) > len(pre) else a for a in argv]
    r = Result()
    r.argv = argv
    r.timeout = False
    def _limits():
        # CPU time, not wall time, bounds a simulated process: the verdict "did not terminate" must not
        # depend on how loaded the machine is.  (The device-event budget bounds I/O loops exactly.)
        resource.setrlimit(resource.RLIMIT_CPU, (cpu_s, cpu_s + 2))
        resource.setrlimit(resource.RLIMIT_CORE, (0, 0))
        # `debugfs cat` of a file whose (damaged) size is a terabyte would otherwise fill memory
        resource.setrlimit(resource.RLIMIT_FSIZE, (FSIZE_LIMIT, FSIZE_LIMIT))
    outp = os.path.join(workdir, tag + ".stdout")
    errp = os.path.join(workdir, tag + ".stderr")
    with open(outp, "wb") as fo, open(errp, "wb") as fe:
        try:
            p = subprocess.run(argv, stdin=subprocess.DEVNULL if stdin is None else None, input=stdin,
                               stdout=fo, stderr=fe, env=e, cwd=workdir,
                               timeout=cpu_s * 6 + 30, preexec_fn=_limits)
            rc = p.returncode
            if rc in (-24, -9):     # SIGXCPU / SIGKILL from the CPU limit
                r.timeout = True
        except subprocess.TimeoutExpired:
            rc = -9
            r.timeout = True
    out = _read_capped(outp)
    err = _read_capped(errp)
    os.unlink(outp)
    os.unlink(errp)
    r.status = rc if rc >= 0 else None
    r.signal = -rc if rc < 0 else None
    r.out, r.err = out, err
    r.events = parse_log(plan.log)
    r.san = classify_sanitizer(err)
    r.san_text = ""
    if r.san:
        t = err.decode("latin1")
        i = min([t.find(m.decode()) for m in SAN_MARKERS if m.decode() in t] or [0])
        r.san_text = "\n".join(t[max(0, i - 20):].splitlines()[:26])
    r.crashed = any(ev.kind == "K" for ev in r.events)
    r.budget_hit = any(ev.kind == "B" for ev in r.events)
    r.sim_us = sim_stats(r.events)[0]
    if not keep_log:
        try:
            os.unlink(plan.log)
        except OSError:
            pass
    return r


def run_plain(argv, workdir, env=None, stdin=None, timeout=120):
    """Run a process outside the simulation (reference tools: cmp, the oracle e2fsck is NOT run this way)."""
    e = dict(BASE_ENV)
    if env:
        e.update(env)
    p = subprocess.run(argv, stdin=subprocess.DEVNULL if stdin is None else None, input=stdin,
                       stdout=subprocess.PIPE, stderr=subprocess.PIPE, env=e, cwd=workdir, timeout=timeout)
    return p.returncode, p.stdout, p.stderr


# ----------------------------------------------------------------------------- scratch
def make_scratch(tag):
    d = os.path.join(SCRATCH_ROOT, "verif-%s-%d" % (tag, os.getpid()))
    if os.path.exists(d):
        rmtree(d)
    os.makedirs(d)
    return d


def make_device(path, size, initial="zero", rng=None):
    """Create the backing file of a simulated device."""
    if initial == "zero":
        with open(path, "wb") as f:
            f.truncate(size)
    elif initial == "poison":
        pat = (b"POISON!\xa5" * 64)
        with open(path, "wb") as f:
            for _ in range(size // len(pat)):
                f.write(pat)
            f.write(pat[: size % len(pat)])
    elif initial == "random":
        with open(path, "wb") as f:
            left = size
            while left > 0:
                n = min(left, 1 << 20)
                f.write(rng.bytes(4096) * (n // 4096) + rng.bytes(n % 4096))
                left -= n
    else:
        raise ValueError(initial)


def file_sha(path):
    h = hashlib.sha256()
    with open(path, "rb") as f:
        while True:
            b = f.read(1 << 20)
            if not b:
                break
            h.update(b)
    return h.hexdigest()


def ensure_build(flavours=("asan",)):
    rc = subprocess.run([os.path.join(VERIF, "build.sh")] + list(flavours)).returncode
    if rc != 0:
        print("HARNESS-ERROR: build.sh failed")
        sys.exit(2)
