"""fcworld — a pending fast-commit area, written by an independent writer from the on-disk format
(lib/ext2fs/fast_commit.h, fs/ext4/fast_commit.c): no e2fsprogs code.

mke2fs -O fast_commit reserves the last s_num_fc_blks blocks of the journal; only the kernel ever
writes them.  e2fsck replays them (e2fsck/journal.c: ext4_fc_replay_scan / ext4_fc_replay) and
debugfs logdump prints them, so they are input these tools parse: tag-length-value records
  HEAD{features, tid}  (ADD_RANGE | DEL_RANGE | CREAT | LINK | UNLINK | INODE | PAD)*  TAIL{tid, crc}
with crc = crc32c chained from 0 over every record of the commit up to and including the tail's tid.

add_fast_commit() turns a clean fast_commit filesystem into one that asks for recovery with an empty
ordinary log and 1-3 fast commits in the area; with `damage` it then applies structure-addressed faults
to the records (lengths that run past the block, unknown tags, wrong tids, inode and block numbers at
and past the limits), re-sealing the tail crc most of the time so that the record reaches the replay
code.
"""
import struct

import minifs
from jbd2model import crc32c

TAG_ADD_RANGE, TAG_DEL_RANGE, TAG_CREAT, TAG_LINK, TAG_UNLINK, TAG_INODE, TAG_PAD, TAG_TAIL, TAG_HEAD = range(1, 10)
NAMES = {1: "add_range", 2: "del_range", 3: "creat", 4: "link", 5: "unlink", 6: "inode", 7: "pad", 8: "tail", 9: "head"}


def tlv(tag, val):
    return struct.pack("<HH", tag, len(val)) + val


def _lay_commit(records, tid, bs):
    """One commit laid out the way the kernel does it: a record never straddles a block (a PAD record runs to the
    end of the block instead), and the tail record's length runs to the end of its block, so that the next commit
    starts a new block.  The crc covers every record and the tail up to and including its tid."""
    out = b""
    crc = 0
    laid = []
    for tag, val in records:
        r = tlv(tag, val)
        room = bs - len(out) % bs
        if room - len(r) < 16:
            if len(r) > bs - 16:
                continue                    # cannot be laid down at all
            pad = tlv(TAG_PAD, b"\0" * (room - 4))
            crc = crc32c(crc, pad)
            out += pad
            laid.append(TAG_PAD)
        crc = crc32c(crc, r)
        out += r
        laid.append(tag)
    room = bs - len(out) % bs
    t = struct.pack("<HH", TAG_TAIL, room - 4) + struct.pack("<I", tid)
    crc = crc32c(crc, t)
    out += t + struct.pack("<I", crc) + b"\0" * (room - 12)
    return out, laid


def add_fast_commit(rng, img, damage=True):
    """Returns a description dict, or None when the image has no usable fast-commit area."""
    data = bytearray(open(img, "rb").read())
    fs = minifs.MiniFS(bytes(data))
    bs = fs.bs
    sb = data[1024:2048]
    compat, incompat, ro = struct.unpack_from("<III", sb, 92)
    if not (compat & 0x400) or not (compat & 0x4) or not fs.journal_inum:
        return None
    jblocks = minifs.file_blocks(fs, fs.journal_inum)
    if len(jblocks) < 1024 or 0 in jblocks:
        return None
    jo = jblocks[0] * bs
    jsb = bytearray(data[jo:jo + 1024])
    if struct.unpack_from(">I", jsb, 0)[0] != 0xC03B3998:
        return None
    maxlen, first = struct.unpack_from(">II", jsb, 0x10)
    numfc = struct.unpack_from(">I", jsb, 0x54)[0] or 256
    if maxlen > len(jblocks) or maxlen - numfc < 1024:
        return None
    fc_first = maxlen - numfc + 1
    tid = rng.weighted([(rng.range(2, 100), 3), (rng.range(1000, 1 << 30), 2), (0xFFFFFFFF, 1)])
    # ---- things to talk about
    ipg = struct.unpack_from("<I", sb, 40)[0]
    icount = struct.unpack_from("<I", sb, 0)[0]
    bcount = struct.unpack_from("<I", sb, 4)[0]
    first_ino = struct.unpack_from("<I", sb, 84)[0]
    isize = struct.unpack_from("<H", sb, 88)[0]
    live = []
    for ino in range(first_ino, min(icount, first_ino + 300) + 1):
        try:
            raw = fs.inode_raw(ino)
        except Exception:
            break
        mode, links = struct.unpack_from("<H", raw, 0)[0], struct.unpack_from("<H", raw, 26)[0]
        if mode and links:
            live.append((ino, mode & 0xF000, bytes(raw)))
    dirs = [2] + [i for i, m, _r in live if m == 0x4000]
    regs = [(i, r) for i, m, r in live if m == 0x8000 and struct.unpack_from("<I", r, 32)[0] & 0x80000]

    def some_ino():
        return rng.weighted([(rng.choice(live)[0] if live else 12, 6), (rng.range(first_ino, icount), 2), (icount, 1), (icount + 1, 1),
                             (0, 1), (rng.choice([1, 2, 7, 8, 11]), 1)])

    def some_blk():
        return rng.weighted([(rng.range(1, bcount - 1), 6), (bcount - 1, 1), (bcount, 1), (0, 1), (0xFFFFFFFF, 1)])

    def extent(lblk=None, ln=None, pblk=None):
        lblk = rng.below(200) if lblk is None else lblk
        ln = rng.weighted([(rng.range(1, 8), 6), (0, 1), (32768, 1), (32769, 1), (0xFFFF, 1)]) if ln is None else ln
        pblk = some_blk() if pblk is None else pblk
        return struct.pack("<IHHI", lblk, ln, (pblk >> 32) & 0xFFFF, pblk & 0xFFFFFFFF)

    def record():
        k = rng.weighted([(TAG_ADD_RANGE, 4), (TAG_DEL_RANGE, 3), (TAG_CREAT, 2), (TAG_LINK, 2), (TAG_UNLINK, 2), (TAG_INODE, 4), (TAG_PAD, 1)])
        if k == TAG_ADD_RANGE:
            ino = rng.choice(regs)[0] if regs and rng.chance(0.7) else some_ino()
            return [k, struct.pack("<I", ino) + extent()]
        if k == TAG_DEL_RANGE:
            ino = rng.choice(regs)[0] if regs and rng.chance(0.7) else some_ino()
            return [k, struct.pack("<III", ino, rng.below(300), rng.weighted([(rng.range(1, 50), 5), (0, 1), (0xFFFFFFFF, 1)]))]
        if k in (TAG_CREAT, TAG_LINK, TAG_UNLINK):
            parent = rng.choice(dirs) if rng.chance(0.8) else some_ino()
            name = rng.weighted([(b"fc%04d" % rng.below(10000), 6), (b"", 1), (b"x" * 255, 1), (b".", 1), (b"a/b", 1)])
            return [k, struct.pack("<II", parent, some_ino() if rng.chance(0.4) or not live else rng.choice(live)[0]) + name]
        if k == TAG_INODE:
            if live and rng.chance(0.8):
                ino, _m, raw = rng.choice(live)
                raw = bytearray(raw)
            else:
                ino, raw = some_ino(), bytearray(isize)
                struct.pack_into("<H", raw, 0, 0x81A4)
                struct.pack_into("<H", raw, 26, 1)
            how = rng.below(6)
            if how == 0:
                struct.pack_into("<I", raw, 4, rng.below(1 << 20))                 # size
            elif how == 1 and isize > 128:
                struct.pack_into("<H", raw, 128, rng.choice([0, 4, 32, isize - 128, isize, 0xFFFF]))   # i_extra_isize
            elif how == 2:
                struct.pack_into("<H", raw, 26, rng.choice([0, 1, 2, 65000]))      # links
            elif how == 3:
                raw = raw[:rng.choice([0, 4, 100, 128, 132, isize - 1])]            # short body
            return [k, struct.pack("<I", ino) + bytes(raw)]
        return [TAG_PAD, b"\0" * rng.below(64)]

    ncommits = rng.weighted([(1, 5), (2, 3), (3, 1)])
    blocks = []          # bytes of each fc block
    cur = b""
    desc = []
    for c in range(ncommits):
        recs = [[TAG_HEAD, struct.pack("<II", 0, tid)]]
        for _ in range(rng.weighted([(rng.range(1, 6), 6), (rng.range(7, 40), 2), (0, 1)])):
            recs.append(record())
        sealed, laid = _lay_commit(recs, tid, bs)
        cur += sealed
        desc.append([NAMES[t] for t in laid])
        # (every fast commit between two full commits carries the tid of the running transaction)
    tid0 = tid
    while cur:
        blocks.append(bytearray(cur[:bs]))
        cur = cur[bs:]
    blocks = blocks[:numfc - 2]
    faults = []
    if damage:
        for _ in range(rng.weighted([(0, 2), (1, 5), (2, 3), (4, 1)])):
            b = rng.below(len(blocks))
            blk = blocks[b]
            # walk the records of that block
            offs = []
            p = 0
            while p + 4 <= bs and len(offs) < 200:
                tag, ln = struct.unpack_from("<HH", blk, p)
                offs.append((p, tag, ln))
                p += 4 + ln
            p, tag, ln = rng.choice(offs)
            how = rng.below(6)
            if how == 0:
                v = rng.choice([0, 1, ln + 1, bs - p - 4, bs - p - 3, bs - p, 0x7FFF, 0xFFFF, max(0, ln - 1)])
                struct.pack_into("<H", blk, p + 2, v)
                faults.append("fc[%d]@%d %s.len=%d" % (b, p, NAMES.get(tag, tag), v))
            elif how == 1:
                v = rng.choice([0, 10, 11, 0xFFFF, 8, 9, 6, 1])
                struct.pack_into("<H", blk, p, v)
                faults.append("fc[%d]@%d %s.tag=%d" % (b, p, NAMES.get(tag, tag), v))
            elif how == 2 and ln >= 4 and p + 8 <= bs:
                v = rng.choice([0, 1, 2, 7, 8, icount, icount + 1, 0xFFFFFFFF])
                struct.pack_into("<I", blk, p + 4, v)
                faults.append("fc[%d]@%d %s.word0=%#x" % (b, p, NAMES.get(tag, tag), v))
            elif how == 3 and ln >= 1:
                q = p + 4 + rng.below(min(ln, bs - p - 4) or 1)
                if q < bs:
                    blk[q] ^= 1 << rng.below(8)
                    faults.append("fc[%d]@%d bit" % (b, q))
            elif how == 4:
                # move a record so that its header or body straddles the end of the block
                q = bs - rng.choice([1, 2, 3, 5, 9])
                blk[q:bs] = (struct.pack("<HH", rng.choice([1, 2, 3, 6, 8]), 200) + b"\xff" * 8)[:bs - q]
                faults.append("fc[%d] straddling record at %d" % (b, q))
            else:
                blk[p:bs] = b"\0" * (bs - p)
                faults.append("fc[%d]@%d rest zeroed" % (b, p))
        if faults and rng.chance(0.7):
            # re-seal every tail that can still be found by walking the records as they now are
            crc = 0
            for b, blk in enumerate(blocks):
                p = 0
                while p + 4 <= bs:
                    tag, ln = struct.unpack_from("<HH", blk, p)
                    if tag == TAG_TAIL and p + 12 <= bs:
                        crc = crc32c(crc, bytes(blk[p:p + 8]))
                        struct.pack_into("<I", blk, p + 8, crc)
                        crc = 0
                    elif p + 4 + ln <= bs:
                        crc = crc32c(crc, bytes(blk[p:p + 4 + ln]))
                    else:
                        break
                    p += 4 + ln
            faults.append("tails re-sealed")
    # ---- lay it down
    for b, blk in enumerate(blocks):
        o = jblocks[fc_first + b] * bs
        data[o:o + bs] = blk
    if len(blocks) < numfc - 1 and rng.chance(0.7):
        o = jblocks[fc_first + len(blocks)] * bs
        data[o:o + bs] = b"\0" * bs
    # empty ordinary log that still asks for recovery: s_start = first, nothing valid there
    o = jblocks[first] * bs
    data[o:o + bs] = b"\0" * bs
    struct.pack_into(">I", jsb, 0x18, tid0)
    struct.pack_into(">I", jsb, 0x1C, first)
    inc = struct.unpack_from(">I", jsb, 0x28)[0] | 0x20
    struct.pack_into(">I", jsb, 0x28, inc)
    if inc & (0x8 | 0x10):          # csum v2 / v3
        jsb[0xFC:0x100] = b"\0\0\0\0"
        struct.pack_into(">I", jsb, 0xFC, crc32c(0xFFFFFFFF, bytes(jsb)))
    data[jo:jo + 1024] = jsb
    incompat |= 0x4                 # needs_recovery
    struct.pack_into("<I", data, 1024 + 96, incompat)
    if ro & 0x400:
        struct.pack_into("<I", data, 1024 + 1020, crc32c(0xFFFFFFFF, bytes(data[1024:1024 + 1020])))
    with open(img, "wb") as f:
        f.write(data)
    return {"commits": desc, "tid": tid0, "fc_blocks": len(blocks), "fc_first": fc_first, "faults": faults}
