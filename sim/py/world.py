"""world — building blocks shared by the checks: seeded mke2fs configurations, population of a
filesystem through debugfs, the standard e2fsck invocations, and helpers around them.

Everything here runs the *real* tools under the simulator; nothing is judged here.
"""
import os
import re

from simcore import Plan, run_sim, tool

# offers to optimise, not inconsistencies (PR_NO_OK | PR_NOT_A_FIX, exit status unaffected):
# PR_1E_CAN_COLLAPSE_EXTENT_TREE, PR_1E_CAN_NARROW_EXTENT_TREE
NOT_PROBLEMS = {0x014006, 0x014007}

PROBLEM_RE = re.compile(rb'<problem code="(0x[0-9a-fA-F]+)"[^>]*?(?:answer="(\d)")?[^>]*?(?:fixed="(\d)")?')


# ----------------------------------------------------------------------------- configurations
def gen_config(rng, small=False, want=None, avoid=()):
    """A seeded filesystem configuration.  `want`: features forced on; `avoid`: features forced off."""
    want = set(want or ())
    avoid = set(avoid)
    bs = rng.weighted([(1024, 5), (2048, 2), (4096, 4)])
    modern = rng.chance(0.75)
    feats = set()

    def maybe(name, p):
        if name in avoid:
            return False
        if name in want or rng.chance(p):
            feats.add(name)
            return True
        return False

    maybe("sparse_super", 0.9)
    maybe("large_file", 0.9)
    maybe("filetype", 0.9)
    maybe("dir_index", 0.8)
    maybe("ext_attr", 0.85)
    maybe("resize_inode", 0.6)
    if modern:
        maybe("extent", 0.9)
        maybe("huge_file", 0.7)
        maybe("dir_nlink", 0.7)
        maybe("flex_bg", 0.7)
        if "extent" in feats:
            maybe("64bit", 0.6)
        cs = rng.weighted([("metadata_csum", 6), ("uninit_bg", 2), ("none", 2)])
        if cs != "none" and cs not in avoid:
            feats.add(cs)
        if "metadata_csum" in want:
            feats.discard("uninit_bg")
            feats.add("metadata_csum")
        if "metadata_csum" in feats:
            maybe("metadata_csum_seed", 0.2)
    maybe("has_journal", 0.45)
    inode_size = rng.weighted([(128, 2), (256, 6), (512, 1), (1024, 1)])
    if inode_size > bs:
        inode_size = 256
    if inode_size > 128:
        maybe("extra_isize", 0.8)
        if "ext_attr" in feats and modern:
            maybe("inline_data", 0.3)
        maybe("project", 0.15)
    if "ext_attr" in feats and modern:
        maybe("ea_inode", 0.2)
    if "extent" in feats and modern and not small:
        maybe("bigalloc", 0.12)
    if rng.chance(0.12) or "meta_bg" in want:
        if "meta_bg" not in avoid:
            feats.add("meta_bg")
            feats.discard("resize_inode")
    if "sparse_super" in feats and ("sparse_super2" in want or rng.chance(0.1)) and "sparse_super2" not in avoid:
        feats.add("sparse_super2")
    if modern:
        maybe("quota", 0.12)
        if "has_journal" in feats:
            maybe("orphan_file", 0.15)
        maybe("large_dir", 0.1)
        maybe("mmp", 0.06)
    if "project" in feats:
        feats.add("quota") if "quota" not in avoid else feats.discard("project")
    for w in want:
        feats.add(w)
    for x in avoid:
        feats.discard(x)
    if "64bit" in feats:
        feats.add("extent")
    if "bigalloc" in feats:
        feats.add("extent")
    if "inline_data" in feats:
        feats.add("ext_attr")
        if inode_size == 128:
            inode_size = 256
    if "metadata_csum" in feats:
        feats.discard("uninit_bg")
    if "metadata_csum_seed" in feats and "metadata_csum" not in feats:
        feats.discard("metadata_csum_seed")
    if "orphan_file" in feats and "has_journal" not in feats:
        feats.discard("orphan_file")
    if "meta_bg" in feats:
        feats.discard("resize_inode")
    if "resize_inode" in feats:
        feats.add("sparse_super")

    # size: small number of MiB, sometimes with a small group size to get many groups
    size_kib = rng.choice([2048, 3072, 4096, 6144, 8192, 8192, 12288, 16384, 16384, 24576, 32768]) if not small \
        else rng.choice([2048, 3072, 4096, 6144, 8192])
    if "bigalloc" in feats:
        size_kib = max(size_kib, 16384)
    if "has_journal" in feats:
        # the smallest journal is 1024 blocks
        size_kib = max(size_kib, 4 * bs)
    cfg = {"bs": bs, "inode_size": inode_size, "features": sorted(feats), "size_kib": size_kib}
    if "bigalloc" in feats:
        cfg["cluster"] = bs * rng.choice([2, 4, 16])
    elif rng.chance(0.3):
        # blocks per group: multiple of 8, >= 256 (mke2fs minimum) -- many small groups
        cfg["bpg"] = rng.choice([256, 512, 1024, 2048, 4096]) if bs == 1024 else rng.choice([512, 1024, 4096, 8192])
        if cfg["bpg"] > bs * 8:
            del cfg["bpg"]
    if "flex_bg" in feats and rng.chance(0.5):
        cfg["flex"] = rng.choice([1, 2, 4, 8, 32])
    if rng.chance(0.3):
        cfg["inode_ratio"] = rng.choice([4096, 8192, 16384, 32768])
    if "has_journal" in feats:
        cfg["jsize"] = bs // 1024 if rng.chance(0.7) or size_kib < 16384 else 4
    if "resize_inode" in feats and rng.chance(0.3):
        cfg["resize_max"] = rng.choice([2, 4, 16]) * (size_kib * 1024 // bs)
    cfg["uuid"] = "%08x-%04x-4%03x-8%03x-%012x" % (rng.below(1 << 32), rng.below(1 << 16), rng.below(1 << 12),
                                                    rng.below(1 << 12), rng.below(1 << 48))
    cfg["hash_seed"] = "%08x-%04x-4%03x-9%03x-%012x" % (rng.below(1 << 32), rng.below(1 << 16), rng.below(1 << 12),
                                                         rng.below(1 << 12), rng.below(1 << 48))
    cfg["lazy"] = rng.chance(0.5)
    return cfg


ALL_FEATURES = ["sparse_super", "large_file", "filetype", "dir_index", "ext_attr", "resize_inode", "extent",
                "huge_file", "dir_nlink", "flex_bg", "64bit", "metadata_csum", "uninit_bg", "metadata_csum_seed",
                "has_journal", "extra_isize", "inline_data", "project", "ea_inode", "bigalloc", "meta_bg",
                "sparse_super2", "quota", "orphan_file", "large_dir", "mmp", "casefold"]


def mkfs_argv(cfg, img, extra=()):
    feats = set(cfg["features"])
    olist = ["^" + f for f in ALL_FEATURES if f not in feats] + sorted(feats)
    argv = [tool("mke2fs"), "-q", "-F", "-b", str(cfg["bs"]), "-I", str(cfg["inode_size"]),
            "-O", ",".join(olist), "-U", cfg["uuid"]]
    eopts = ["hash_seed=" + cfg["hash_seed"]]
    eopts.append("lazy_itable_init=%d" % (1 if cfg.get("lazy") else 0))
    if "has_journal" in feats:
        eopts.append("lazy_journal_init=%d" % (1 if cfg.get("lazy") else 0))
    if "cluster" in cfg:
        argv += ["-C", str(cfg["cluster"])]
    if "bpg" in cfg:
        argv += ["-g", str(cfg["bpg"])]
    if "flex" in cfg:
        argv += ["-G", str(cfg["flex"])]
    if "inode_ratio" in cfg:
        argv += ["-i", str(cfg["inode_ratio"])]
    if "jsize" in cfg:
        argv += ["-J", "size=%d" % cfg["jsize"]]
    if "resize_max" in cfg:
        eopts.append("resize=%d" % cfg["resize_max"])
    if cfg.get("extra_eopts"):
        eopts += list(cfg["extra_eopts"])
    argv += ["-E", ",".join(eopts)]
    argv += list(extra)
    argv += [img, "%dk" % cfg["size_kib"]]
    return argv


def mkfs(cfg, img, workdir, clock=1500000000, rand_seed=1, extra=(), env=None, tag="mkfs", keep_log=False):
    """Create the device file and run the real mke2fs on it.  Returns the Result."""
    if cfg.get("initial") in ("poison", "random"):
        # a device that is not zero-filled and is not discarded: what lazy initialisation leaves behind stays visible
        from simcore import make_device, Rng as _R
        make_device(img, cfg["size_kib"] * 1024, cfg["initial"], rng=_R(rand_seed))
        cfg = dict(cfg)
        cfg["extra_eopts"] = list(cfg.get("extra_eopts") or []) + ["nodiscard"]
    else:
        with open(img, "wb") as f:
            f.truncate(cfg["size_kib"] * 1024)
    if cfg.get("badblocks"):
        # a bad-block list (mke2fs -l): those blocks belong to inode 1 from the start
        bbf = os.path.join(workdir, tag + ".badblocks")
        with open(bbf, "w") as f:
            f.write("".join("%d\n" % b for b in sorted(set(cfg["badblocks"]))))
        extra = list(extra) + ["-l", bbf]
    pl = Plan([img], None, clock=clock, rand_seed=rand_seed)
    return run_sim(mkfs_argv(cfg, img, extra), pl, workdir, tag=tag, env=env, keep_log=keep_log)


# ----------------------------------------------------------------------------- population
NAME_CHARS = "abcdefghijklmnopqrstuvwxyzABCDEFGHIJKLMNOPQRSTUVWXYZ0123456789_-.,+=@%"


def gen_name(rng, maxlen=40):
    n = rng.weighted([(rng.range(1, 8), 5), (rng.range(9, maxlen), 4), (rng.range(100, 255), 1)])
    s = "".join(NAME_CHARS[rng.below(len(NAME_CHARS))] for _ in range(n))
    if s in (".", ".."):
        s = "x" + s
    return s


def gen_content(rng, size):
    """File content with recognisable structure: seeded, non-zero blocks interleaved with zero runs."""
    if size == 0:
        return b""
    kind = rng.below(4)
    if kind == 0:
        return rng.bytes(min(size, 64)) * (size // 64 + 1)
    out = bytearray()
    while len(out) < size:
        chunk = rng.range(1, 8192)
        if kind == 2 and rng.chance(0.4):
            out += b"\0" * chunk
        else:
            out += rng.bytes(16) * (chunk // 16 + 1)
    return bytes(out[:size])


def gen_population(rng, cfg, workdir, scale=1.0, big_dir=None, late_dirs=0, deep_extents=False, special_xattrs=False):
    """A debugfs -w script (list of command strings) that populates a fresh filesystem, plus the
    host files it reads.  Returns (commands, description)."""
    feats = set(cfg["features"])
    bs = cfg["bs"]
    cmds = []
    hostdir = os.path.join(workdir, "host")
    os.makedirs(hostdir, exist_ok=True)
    nhost = [0]

    def host(data):
        p = os.path.join(hostdir, "h%d" % nhost[0])
        nhost[0] += 1
        with open(p, "wb") as f:
            f.write(data)
        return p

    free_kib = cfg["size_kib"] * 0.5
    dirs = ["/"]
    files = []
    ndirs = rng.range(1, max(2, int(6 * scale)))
    for _ in range(ndirs):
        parent = rng.choice(dirs)
        name = gen_name(rng, 24)
        path = (parent.rstrip("/") + "/" + name)
        cmds.append('mkdir "%s"' % path)
        dirs.append(path)
    nfiles = rng.range(3, max(4, int(25 * scale)))
    used = set()
    for _ in range(nfiles):
        parent = rng.choice(dirs)
        name = gen_name(rng)
        path = parent.rstrip("/") + "/" + name
        if path in used or len(path) > 900:
            continue
        used.add(path)
        kind = rng.weighted([("file", 10), ("symlink", 3), ("node", 2), ("hardlink", 2 if files else 0)])
        if kind == "file":
            size = rng.weighted([(0, 1), (rng.range(1, 59), 2), (rng.range(60, bs), 2),
                                 (rng.range(bs, 16 * bs), 4), (rng.range(16 * bs, 300 * bs), 2)])
            if size / 1024.0 > free_kib * 0.3:
                size = bs
            free_kib -= size / 1024.0
            cmds.append('write "%s" "%s"' % (host(gen_content(rng, size)), path))
            files.append(path)
            if rng.chance(0.3):
                cmds.append('set_inode_field "%s" uid %d' % (path, rng.below(70000)))
                cmds.append('set_inode_field "%s" gid %d' % (path, rng.below(70000)))
            if rng.chance(0.3):
                cmds.append('set_inode_field "%s" mode 0%o' % (path, 0o100000 | rng.below(0o7777 + 1)))
            if "ext_attr" in feats and rng.chance(0.35):
                for _k in range(rng.range(1, 4)):
                    prefix = rng.choice(["user.", "trusted.", "security."])
                    xname = prefix + gen_name(rng, 16).replace('"', "x")
                    vlen = rng.weighted([(rng.range(0, 40), 5), (rng.range(41, 300), 3),
                                         (rng.range(300, min(bs - 100, 3000)), 1)])
                    cmds.append('ea_set -f "%s" "%s" "%s"' % (host(rng.bytes(vlen) if vlen else b""), path, xname))
            if size > 4 * bs and rng.chance(0.25):
                a = rng.range(0, size // bs - 2)
                b = rng.range(a, min(size // bs - 1, a + 8))
                cmds.append('punch "%s" %d %d' % (path, a, b))
            if "extent" in feats and rng.chance(0.15):
                a = rng.range(0, 40)
                cmds.append('fallocate "%s" %d %d' % (path, a, a + rng.range(0, 20)))
        elif kind == "symlink":
            # (60 bytes is where a target stops fitting into i_block)
            tlen = rng.weighted([(rng.range(1, 59), 5), (rng.range(60, 200), 3), (rng.range(200, min(bs - 1, 1000)), 1),
                                 (rng.choice([59, 60, 60, 61]), 3)])
            target = "".join(NAME_CHARS[rng.below(len(NAME_CHARS))] for _ in range(tlen))
            cmds.append('symlink "%s" "%s"' % (path, target))
            if special_xattrs and "ext_attr" in feats and rng.chance(0.5) and not ("inline_data" in feats and tlen >= 60):
                # (not on an inline-data symlink: e2fsck pass 1 skips check_blocks() for those and never accounts their EA
                # block -- `e2fsck -fy` frees it; recorded in DESIGN.md as an observation outside the listed properties)
                cmds.append('ea_set -f "%s" "%s" "trusted.sx%d"' % (host(rng.bytes(rng.choice([8, 120, 300]))), path, rng.below(100)))
        elif kind == "node":
            t = rng.choice(["p", "c", "b"])
            # debugfs mknod takes a name in the current directory, not a path
            cmds.append('cd "%s"' % parent)
            if t == "p":
                cmds.append('mknod "%s" p' % name)
            else:
                cmds.append('mknod "%s" %s %d %d' % (name, t, rng.below(256), rng.below(256)))
            cmds.append('cd /')
            if special_xattrs and "ext_attr" in feats and rng.chance(0.6):
                # objects without data blocks can still own an xattr block
                cmds.append('ea_set -f "%s" "%s" "security.sx%d"' % (host(rng.bytes(rng.choice([8, 150, 400]))), path, rng.below(100)))
        elif kind == "hardlink":
            src = rng.choice(files)
            # debugfs ln does not grow a full directory; make room first
            cmds.append('expand_dir "%s"' % parent)
            cmds.append('ln "%s" "%s"' % (src, path))
            # debugfs ln does not touch i_links_count; fix it the way the man page tells users to
            cmds.append('HARDLINK "%s"' % src)
    # one directory large enough to need an index (optional)
    if big_dir is None:
        big_dir = rng.weighted([(0, 5), (rng.range(30, 120), 3), (rng.range(200, 700), 2)])
    if big_dir:
        cmds.append('mkdir "/bigdir"')
        if "casefold" in feats and rng.chance(0.7):
            # a case-insensitive directory (chattr +F on the empty directory); a fresh directory's other flags are known
            fl = 0x40000000 | (0x10000000 if "inline_data" in feats else (0x80000 if "extent" in feats else 0))
            cmds.append('set_inode_field "/bigdir" flags 0x%x' % fl)
        empty = host(b"")
        nl = rng.choice([8, 20, 40, 120])
        for i in range(big_dir):
            nm = ("%04d" % i) + "".join(NAME_CHARS[rng.below(62)] for _ in range(rng.range(1, nl)))
            if rng.chance(0.1):
                cmds.append('mkdir "/bigdir/%s"' % nm)
            else:
                cmds.append('write "%s" "/bigdir/%s"' % (empty, nm))
    # a file whose extent tree has interior nodes: data blocks alternating with holes (debugfs write skips zero blocks)
    if deep_extents and "extent" in feats and ((bs <= 2048 and cfg["size_kib"] >= 4096) or cfg["size_kib"] >= 24576):
        per_leaf = (bs - 12) // 12
        nx = rng.range(4 * per_leaf + 10, 4 * per_leaf + rng.choice([40, 300, 900]))
        nx = min(nx, int(cfg["size_kib"] * 1024 * 0.35) // bs)
        blob = bytearray()
        one = rng.bytes(64) * (bs // 64)
        for k in range(nx):
            blob += bytes([1 + k % 250]) + one[1:]
            blob += b"\0" * bs
        cmds.append('write "%s" "/deep_extents.bin"' % host(bytes(blob)))
    # directories (with a few children each) created last: with few inodes per group they land in high groups
    for k in range(late_dirs):
        d = "/late%d_%s" % (k, gen_name(rng, 10).replace('"', "x"))
        cmds.append('mkdir "%s"' % d)
        for j in range(rng.range(1, 6)):
            nm = "%s/%s" % (d, gen_name(rng, 20).replace('"', "x") + str(j))
            t = rng.below(4)
            if t == 0:
                cmds.append('mkdir "%s"' % nm)
            elif t == 1:
                cmds.append('symlink "%s" "%s"' % (nm, "x" * rng.range(1, 90)))
            else:
                cmds.append('write "%s" "%s"' % (host(gen_content(rng, rng.choice([0, 5, 40, 59, 200, 3000]))), nm))
    # resolve HARDLINK markers into link-count fixes
    out = []
    links = {}
    for c in cmds:
        if c.startswith("HARDLINK "):
            src = c[len("HARDLINK "):].strip('"')
            links[src] = links.get(src, 1) + 1
            out.append('set_inode_field "%s" links_count %d' % (src, links[src]))
        else:
            out.append(c)
    return out, {"dirs": len(dirs), "files": len(files), "big_dir": big_dir, "commands": len(out)}


def debugfs_script(img, cmds, workdir, write=True, tag="dbg", clock=1500000100, rand_seed=2, faults=(),
                   extra_args=(), keep_log=False, plan_kw=None, devices=None):
    script = os.path.join(workdir, tag + ".script")
    with open(script, "w") as f:
        f.write("\n".join(cmds) + "\n")
    argv = [tool("debugfs")] + (["-w"] if write else []) + list(extra_args) + ["-f", script, img]
    pl = Plan(devices or [img], None, clock=clock, rand_seed=rand_seed, faults=faults, **(plan_kw or {}))
    return run_sim(argv, pl, workdir, tag=tag, keep_log=keep_log)


# ----------------------------------------------------------------------------- e2fsck
def e2fsck(img, mode, workdir, tag="fsck", clock=1500001000, rand_seed=3, faults=(), extra=(), devices=None,
           keep_log=False, problems=True, budget=400000, cpu_s=20, plan_kw=None):
    """Run the real e2fsck.  mode: list of flags, e.g. ['-fn'].  Returns (Result, [problem codes])."""
    env = {}
    plog = None
    if problems:
        plog = os.path.join(workdir, tag + ".problems")
        conf = os.path.join(workdir, tag + ".e2fsck.conf")
        with open(conf, "w") as f:
            f.write("[options]\n\tproblem_log_filename = %s\n" % plog)
        env["E2FSCK_CONFIG"] = conf
        if os.path.exists(plog):
            os.unlink(plog)
    pl = Plan(devices or [img], None, clock=clock, rand_seed=rand_seed, faults=faults, budget=budget, **(plan_kw or {}))
    r = run_sim([tool("e2fsck")] + list(mode) + list(extra) + [img], pl, workdir, tag=tag, env=env,
                keep_log=keep_log, cpu_s=cpu_s)
    codes = []
    r.problem_records = []      # (code, answered yes, object = (ino, dir, blk, blkcount, group)) per logged problem
    if plog and os.path.exists(plog):
        data = open(plog, "rb").read()
        for m in re.finditer(rb'<problem code="(0x[0-9a-fA-F]+)" answer="(-?\d+)"([^>]*)/>', data):
            c = int(m.group(1), 16)
            if c in NOT_PROBLEMS:
                continue
            codes.append(c)
            at = dict((k.decode(), v.decode("latin1")) for k, v in re.findall(rb' (\w+)="([^"]*)"', m.group(3)))
            r.problem_records.append((c, int(m.group(2)) > 0, tuple(at.get(k, "") for k in ("ino", "dir", "blk", "blkcount", "group"))))
        os.unlink(plog)
    return r, codes


def fsck_status_ok_for_repair(status):
    """True when an `e2fsck -fy` exit status *claims success* in the sense of C01."""
    return status is not None and (status & (4 | 8 | 16 | 32 | 128)) == 0


def build_world(rng, workdir, cfg=None, scale=1.0, big_dir=None, small=False, want=None, avoid=(), name="img",
                rehash=None, late_dirs=0, deep_extents=False, special_xattrs=False, min_kib=0, casefold_p=0.0):
    """mkfs + populate (+ optional e2fsck -fyD to index directories).  Returns dict or None when mke2fs
    rejected the configuration or population failed in a way that leaves nothing to test."""
    if cfg is None:
        if casefold_p and rng.chance(casefold_p):
            want = sorted(set(want or ()) | set(("casefold", "filetype")))
            if big_dir is None:
                big_dir = rng.range(60, 400)
        cfg = gen_config(rng, small=small, want=want, avoid=avoid)
    if min_kib and cfg["size_kib"] < min_kib:
        cfg["size_kib"] = min_kib
    img = os.path.join(workdir, name)
    r = mkfs(cfg, img, workdir, rand_seed=rng.u64() >> 1)
    if r.status != 0 or r.san:
        return {"cfg": cfg, "img": img, "rejected": True, "mkfs": r}
    cmds, desc = gen_population(rng, cfg, workdir, scale=scale, big_dir=big_dir, late_dirs=late_dirs, deep_extents=deep_extents,
                                special_xattrs=special_xattrs)
    pr = debugfs_script(img, cmds, workdir, tag="pop", rand_seed=rng.u64() >> 1)
    if rehash is None:
        rehash = rng.chance(0.4)
    fr = None
    # settle: debugfs does not maintain quota usage (and `ln` leaves link counts to the user), so a
    # repairing pass belongs to world building; -D additionally indexes large directories
    fr, _ = e2fsck(img, ["-fyD" if (rehash and "dir_index" in cfg["features"]) else "-fy"], workdir,
                   tag="settle", problems=False)
    return {"cfg": cfg, "img": img, "rejected": False, "mkfs": r, "pop": pr, "desc": desc, "cmds": cmds,
            "rehash": fr}
