"""battery — the read-only invocations of every tool (shared by C13 and C06)."""
import os

from simcore import tool
from world import mkfs_argv

DEBUGFS_RO_CMDS = [
    "ls -l /", "ls -d /", "stat /", "stat <2>", "stat <7>", "stat <8>", "stat <11>", "stat <12>", "stats", "stats -h",
    "dump_extents <12>", "dump_extents <13>", "htree_dump /", "htree_dump /bigdir", "ls -l /bigdir", "icheck 100 200 300",
    "ncheck 12 13 14", "logdump", "logdump -a", "logdump -S", "ffb 10", "ffi", "bmap <12> 0", "cat <12>", "cat <13>",
    "ea_list <12>", "ea_list <13>", "ea_list <14>", "lsdel", "testb 100 10", "testi <12>", "imap <12>", "dump_unused",
    "get_quota user 0", "list_quota user", "supported_features", "show_super_stats", "dx_hash -h half_md4 hello",
    "dirsearch / lost+found", "blocks <12>", "filefrag -v /", "inode_dump <12>", "inode_dump -b <2>", "dump_mmp",
    "extent_open <12>", "idump -x <12>", "ex <13>", "check_desc", "print_working_directory",
    "find_free_block 3 100", "find_free_inode", "dump <12> DUMPOUT", "rdump / RDUMPDIR", "dirsearch /bigdir x",
    "block_dump 1", "block_dump -f <2> 0", "orphan_inodes", "journal_open", "journal_close",
]

INVOCATIONS = ["e2fsck-n", "e2fsck-fn", "e2fsck-fn-b", "debugfs", "debugfs-c", "dumpe2fs", "dumpe2fs-h", "dumpe2fs-x",
               "dumpe2fs-b", "tune2fs-l", "resize2fs-P", "e2image", "e2image-r", "e2image-Q", "e2image-ra", "e2freefrag",
               "mke2fs-n", "e2undo-n", "e2label"]



def ro_argv(inv, st, wd, rng):
    img = st["img"]
    out = os.path.join(wd, "out." + inv)
    if inv == "e2fsck-n":
        return [tool("e2fsck"), "-n", img]
    if inv == "e2fsck-fn":
        return [tool("e2fsck"), "-fn", img]
    if inv == "e2fsck-fn-b":
        bs = st["cfg"]["bs"]
        bpg = st["cfg"].get("bpg", bs * 8)
        return [tool("e2fsck"), "-fn", "-b", str(bpg + (1 if bs == 1024 else 0)), "-B", str(bs), img]
    if inv in ("debugfs", "debugfs-c"):
        cmds = rng.sample(DEBUGFS_RO_CMDS, rng.range(4, 14))
        script = os.path.join(wd, inv + ".script")
        with open(script, "w") as f:
            f.write("\n".join(c.replace("DUMPOUT", out).replace("RDUMPDIR", wd + "/rdump") for c in cmds) + "\n")
        os.makedirs(wd + "/rdump", exist_ok=True)
        return [tool("debugfs")] + (["-c"] if inv == "debugfs-c" else []) + ["-f", script, img]
    if inv.startswith("dumpe2fs"):
        return [tool("dumpe2fs")] + {"dumpe2fs": [], "dumpe2fs-h": ["-h"], "dumpe2fs-x": ["-x"], "dumpe2fs-b": ["-b"]}[inv] + [img]
    if inv == "tune2fs-l":
        return [tool("tune2fs"), "-l", img]
    if inv == "e2label":
        return [tool("tune2fs"), "-l", img]
    if inv == "resize2fs-P":
        return [tool("resize2fs"), "-P", img]
    if inv == "e2image":
        return [tool("e2image"), img, out]
    if inv == "e2image-r":
        return [tool("e2image"), "-r", img, out]
    if inv == "e2image-Q":
        return [tool("e2image"), "-Q", img, out]
    if inv == "e2image-ra":
        return [tool("e2image"), "-ra", img, out]
    if inv == "e2freefrag":
        return [tool("e2freefrag"), img]
    if inv == "mke2fs-n":
        return mkfs_argv(st["cfg"], img, extra=["-n"])
    if inv == "e2undo-n":
        return None
    raise KeyError(inv)

