"""states — image states that the simulator produces for the checks that quantify over
"every image": consistent worlds, worlds with an unrecovered journal, with orphans, with MMP
left in use, worlds whose last writer crashed (power loss), and worlds with at-rest media faults.
"""
import os
import re
import shutil

from simcore import Plan, Rng, crash_image, parse_log, run_sim, tool, split_at_barrier
from world import build_world, debugfs_script, e2fsck, gen_content
import minifs

STATE_KINDS = ["clean", "journal", "orphan", "mmp", "faults", "crashed_writer", "journal+faults"]


def add_pending_journal(rng, w, workdir):
    """Leave committed (and possibly an uncommitted) transactions in the journal, via debugfs's own
    journal writer.  Returns description or None when the filesystem has no journal."""
    if "has_journal" not in w["cfg"]["features"]:
        return None
    fs = minifs.MiniFS(open(w["img"], "rb").read(4096 + 1024))
    cmds = []
    ntrans = rng.range(1, 3)
    src = os.path.join(workdir, "jsrc")
    with open(src, "wb") as f:
        f.write(gen_content(rng, 64 * 1024))
    desc = []
    for t in range(ntrans):
        cmds.append("jo")
        nb = rng.range(1, 6)
        blocks = sorted(set(rng.range(fs.blocks // 2, fs.blocks - 1) for _ in range(nb)))
        cmds.append("jw -b %s %s" % (",".join(str(b) for b in blocks), src))
        if rng.chance(0.4):
            cmds.append("jw -r %d" % rng.range(fs.blocks // 2, fs.blocks - 1))
        last = t == ntrans - 1
        if last and rng.chance(0.25):
            cmds.append("jc")
        else:
            cmds.append("jc")
        desc.append(blocks)
    r = debugfs_script(w["img"], cmds, workdir, tag="jw", rand_seed=rng.u64() >> 1)
    return {"transactions": desc, "status": r.status}


def add_orphan(rng, w, workdir):
    """An inode on the orphan list: unlinked, link count 0, still allocated, s_last_orphan pointing at it."""
    if "orphan_file" in w["cfg"]["features"]:
        return None
    host = os.path.join(workdir, "orph.host")
    with open(host, "wb") as f:
        f.write(gen_content(rng, rng.range(1, 20000)))
    r = debugfs_script(w["img"], ['write "%s" /zz_orphan' % host], workdir, tag="orph1", rand_seed=rng.u64() >> 1)
    m = re.search(rb"Allocated inode: (\d+)", r.out)
    if not m:
        return None
    ino = int(m.group(1))
    cmds = ["set_inode_field <%d> links_count 0" % ino, "unlink /zz_orphan", "set_super_value last_orphan %d" % ino]
    debugfs_script(w["img"], cmds, workdir, tag="orph2", rand_seed=rng.u64() >> 1)
    return {"orphan_inode": ino}


def add_mmp_in_use(rng, w, workdir):
    if "mmp" not in w["cfg"]["features"]:
        return None
    # an MMP block that says "a node is using this filesystem": any sequence number other than
    # the clean marker
    cmds = ["set_mmp_value seq 0x%x" % rng.range(1, 0xE24D4D4F), 'set_mmp_value nodename "othernode"']
    r = debugfs_script(w["img"], cmds, workdir, tag="mmp", rand_seed=rng.u64() >> 1)
    return {"mmp": "in_use", "status": r.status}


def gen_writer(rng, w, workdir):
    """argv + description of a tool run that modifies the filesystem (the process that gets crashed)."""
    img = w["img"]
    feats = set(w["cfg"]["features"])
    kind = rng.weighted([("debugfs", 5), ("e2fsck-D", 3), ("tune2fs", 3), ("resize2fs", 3)])
    if kind == "debugfs":
        host = os.path.join(workdir, "cw.host")
        with open(host, "wb") as f:
            f.write(gen_content(rng, rng.range(1, 60000)))
        cmds = []
        for i in range(rng.range(1, 8)):
            op = rng.below(5)
            if op == 0:
                cmds.append('mkdir "/cw_d%d"' % i)
            elif op == 1:
                cmds.append('write "%s" "/cw_f%d"' % (host, i))
            elif op == 2:
                cmds.append('symlink "/cw_s%d" "%s"' % (i, "t" * rng.range(1, 200)))
            elif op == 3 and w.get("cmds"):
                # remove something the population created
                names = [c.split('"')[3] for c in w["cmds"] if c.startswith("write ") and c.count('"') >= 4]
                if names:
                    cmds.append('rm "%s"' % rng.choice(names))
            else:
                cmds.append('expand_dir /')
        script = os.path.join(workdir, "cw.script")
        with open(script, "w") as f:
            f.write("\n".join(cmds) + "\n")
        return [tool("debugfs"), "-w", "-f", script, img], {"writer": "debugfs", "cmds": cmds}
    if kind == "e2fsck-D":
        return [tool("e2fsck"), "-fyD", img], {"writer": "e2fsck -fyD"}
    if kind == "tune2fs":
        opts = [["-O", "^metadata_csum"] if "metadata_csum" in feats else ["-O", "metadata_csum"],
                ["-I", str(min(1024, w["cfg"]["inode_size"] * 2))],
                ["-U", "random"], ["-L", "crashlabel"], ["-O", "extent"], ["-O", "^has_journal"] if "has_journal" in feats else ["-j"],
                ["-r", "17"], ["-O", "^flex_bg"] if False else ["-e", "remount-ro"]]
        o = rng.choice(opts)
        return [tool("tune2fs")] + o + [img], {"writer": "tune2fs " + " ".join(o)}
    # resize2fs: shrink or grow by a seeded factor (the image file is extended by resize2fs itself)
    factor = rng.choice([0.6, 0.75, 0.9, 1.3, 2.0, 3.1])
    newsize = max(1024, int(w["cfg"]["size_kib"] * factor))
    return [tool("resize2fs"), "-f", img, "%dK" % newsize], {"writer": "resize2fs %dK" % newsize}


def crash_writer(rng, w, workdir, power=True):
    """Run a writer, crash it at a seeded mutating event, rebuild the disk under the power-loss
    model with a seeded subset of the in-flight writes.  Returns description (or None)."""
    img = w["img"]
    argv, desc = gen_writer(rng, w, workdir)
    pre = open(img, "rb").read()
    # first an uninterrupted run on a copy to learn how many crash points there are
    probe = img + ".probe"
    shutil.copyfile(img, probe)
    argv_p = [a if a != img else probe for a in argv]
    r = run_sim(argv_p, Plan([probe], None, clock=1500002000, rand_seed=5), workdir, tag="cwp", keep_log=True)
    nmut = sum(1 for e in r.events if e.kind in "WTZPDAF")
    os.unlink(probe)
    os.unlink(os.path.join(workdir, "cwp.evlog"))
    if nmut < 2:
        return None
    n = rng.range(1, nmut)
    r = run_sim(argv, Plan([img], None, clock=1500002000, rand_seed=5, faults=[("crash", -1, n, 0, 0)]), workdir,
                tag="cw", keep_log=True)
    evs = [e for e in r.events if e.kind in "WTZPDAFL"]
    desc.update({"crash_at": n, "of": nmut, "crashed": r.crashed})
    if power:
        _d, inflight = split_at_barrier(evs, 0)
        k = len(inflight)
        mode = rng.weighted([("all", 2), ("none", 2), ("drop1", 3), ("keep1", 2), ("random", 3)]) if k else "all"
        keep = [True] * k
        if mode == "none":
            keep = [False] * k
        elif mode == "drop1":
            keep[rng.below(k)] = False
        elif mode == "keep1":
            keep = [False] * k
            keep[rng.below(k)] = True
        elif mode == "random":
            keep = [rng.chance(0.5) for _ in range(k)]
        torn = {}
        if k and rng.chance(0.3):
            i = rng.below(k)
            if keep[i] and inflight[i].kind == "W" and len(inflight[i].payload) > 512:
                torn[i] = rng.range(1, len(inflight[i].payload) // 512 - 1) if len(inflight[i].payload) >= 1024 else 1
        newimg = crash_image(pre, evs, 0, model="power", keep=keep, torn=torn)
        with open(img, "wb") as f:
            f.write(newimg)
        desc.update({"model": "power", "inflight": k, "subset": mode, "torn": bool(torn)})
    os.unlink(os.path.join(workdir, "cw.evlog"))
    return desc


# focus -> (features wanted, build_world keywords, fault-kind weight multipliers)
FOCI = {
    "orphan_file": (("has_journal", "orphan_file"), {}, {"orphan_file": 10}),
    "extent_tree": (("extent",), {"deep_extents": True, "min_kib": 24576}, {"extent_block": 8, "extent_root": 2}),
    "casefold": ((), {"casefold_p": 1.0}, {"dup_name": 5, "dirent": 2, "dx": 2}),
    "lost+found": ((), {}, {"lpf": 12}),
    "block_map": ((), {"avoid": ("extent", "64bit", "bigalloc")}, {"indirect": 5, "pointer": 2}),
    "xattr": (("ext_attr",), {"special_xattrs": True}, {"xattr_block": 4, "xattr_inode": 4}),
    "bitmaps": ((), {}, {"bitmap_padding": 4, "bitmap_csum": 5, "bbitmap": 2, "ibitmap": 2, "gd": 2}),
}


def make_state(rng, workdir, kind, nfaults=None, world_kw=None, fault_classes=None, faults=None, fault_gen=None,
               reseal_p=0.4):
    """Build a world and drive it into the requested state.  Returns dict with img, cfg, kind, details,
    faults (list) -- or None if the configuration was rejected."""
    kw = dict(world_kw or {})
    want = set(kw.pop("want", ()) or ())
    if kind in ("journal", "journal+faults"):
        want.add("has_journal")
    if kind == "mmp":
        want.add("mmp")
    if kind == "fastcommit":
        want.update(("has_journal", "fast_commit", "extent"))
        kw.setdefault("avoid", ("mmp", "bigalloc"))
        kw.setdefault("scale", 0.6)
        kw.setdefault("min_kib", 24576)
    kw.setdefault("casefold_p", 0.1)
    if "deep_extents" not in kw:
        kw["deep_extents"] = rng.chance(0.15)       # a file whose extent tree has interior nodes
    # swarm: a third of the fault states concentrate on one area -- the world is given what that area needs and the fault
    # kinds that touch it get more weight
    boost = None
    focus = None
    if kind in ("faults", "journal+faults") and faults is None and fault_classes is None and rng.chance(0.35):
        focus = rng.choice(sorted(FOCI))
        fw, fk, boost = FOCI[focus]
        want.update(fw)
        kw.update(fk)
        if "avoid" in fk and "avoid" in (world_kw or {}):
            kw["avoid"] = tuple(set(fk["avoid"]) | set(world_kw["avoid"]))
    w = build_world(rng, workdir, want=sorted(want), **kw)
    if w["rejected"]:
        return None
    st = {"img": w["img"], "cfg": w["cfg"], "kind": kind, "details": {}, "faults": [], "world": w}
    if focus:
        st["details"]["focus"] = focus
    if rng.chance(0.6):
        # inode generations as the kernel hands them out (debugfs and mke2fs leave 0 in every inode): the checksums of an
        # inode's extent and directory blocks are keyed to its generation
        try:
            import reffaults
            new, n = reffaults.randomize_generations(rng, open(w["img"], "rb").read())
            with open(w["img"], "wb") as f:
                f.write(new)
            st["details"]["generations"] = n
        except Exception as ex:
            st["details"]["generations_error"] = repr(ex)
    if kind in ("journal", "journal+faults"):
        st["details"]["journal"] = add_pending_journal(rng, w, workdir)
    if kind == "orphan":
        st["details"]["orphan"] = add_orphan(rng, w, workdir)
    if kind == "mmp":
        st["details"]["mmp"] = add_mmp_in_use(rng, w, workdir)
    if kind == "fastcommit":
        import fcworld
        st["details"]["fastcommit"] = fcworld.add_fast_commit(rng, w["img"], damage=True)
    if kind == "crashed_writer":
        st["details"]["crash"] = crash_writer(rng, w, workdir)
    if kind in ("faults", "journal+faults"):
        if faults is not None:
            st["faults"] = list(faults)
            minifs.apply_faults(w["img"], st["faults"])
            return st
        data = open(w["img"], "rb").read()
        n = nfaults if nfaults is not None else rng.weighted([(1, 6), (2, 3), (3, 1), (4, 1)])
        gen = rng.weighted([("struct", 6), ("mini", 4)]) if fault_gen is None else fault_gen
        if focus:
            gen = "struct"
        if gen == "struct":
            # addressed through the independent reader: extent headers/entries, dirents, htree nodes, xattr
            # entries ..., with or without the covering checksum re-sealed
            try:
                import reffaults
                st["faults"], _desc = reffaults.gen_struct_faults(rng, data, n, reseal_p=reseal_p, kinds=fault_classes, boost=boost)
            except Exception as ex:
                st["details"]["struct_faults_error"] = repr(ex)
                st["faults"] = []
        if gen != "struct" or not st["faults"]:
            meta = minifs.metadata_blocks_via_e2image(w["img"], workdir, run_sim, Plan, tool) if rng.chance(0.7) else ()
            st["faults"] = minifs.gen_faults(rng, data, n, extra_meta_blocks=meta, classes=None if gen == "struct" else fault_classes)
        minifs.apply_faults(w["img"], st["faults"])
    return st
