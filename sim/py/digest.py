"""digest — comparing two tree digests produced by the independent reader (refext4.tree_digest)."""

FIELDS = ("type", "mode", "uid", "gid", "links", "size", "sha256", "target", "rdev", "xattrs", "error")


def _skipped(p, skip):
    for s in skip:
        if p == s or p.startswith(s + b"/"):
            return True
    return False


def diff_trees(recs0, recs1, skip=(b"/lost+found",), fields=FIELDS, ignore_dir_links=False):
    """List of (path, field, before, after); field is 'missing'/'appeared' for whole entries."""
    out = []
    for p in sorted(set(recs0) | set(recs1)):
        if _skipped(p, skip):
            continue
        a, b = recs0.get(p), recs1.get(p)
        if a is None:
            out.append((p, "appeared", None, b.get("type")))
            continue
        if b is None:
            out.append((p, "missing", a.get("type"), None))
            continue
        for f in fields:
            if ignore_dir_links and f == "links" and a.get("type") == 0o040000:
                continue
            if a.get(f) != b.get(f):
                out.append((p, f, a.get(f), b.get(f)))
    return out


def brief(d, n=4):
    return "; ".join("%s: %s %r -> %r" % (p.decode("latin1")[:60], f, _short(a), _short(b)) for p, f, a, b in d[:n]) + \
        (" ... (%d differences)" % len(d) if len(d) > n else "")


def _short(v):
    s = repr(v)
    return s if len(s) < 70 else s[:67] + "..."
