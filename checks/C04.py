#!/usr/bin/env python3
"""C04 — journal recovery can be interrupted anywhere and re-run.

For each sampled journal world (C03's model writer) the real recovery runs once under the
simulated disk with the event log kept.  EVERY prefix of its write/flush sequence is then a crash
point: the disk the next process would see is rebuilt under the kill model (all issued writes
present) and under the power-loss model (writes after the last completed flush lost in seeded
subsets, optionally torn), the durability-ordering invariant is evaluated on that crash state,
recovery is run again (optionally crashed again: depth 2), and the final image is compared with
the reference semantics.
"""
import hashlib
import os
import shutil
import struct

import jbd2model as J
from framework import Check, Outcome, main
from jworld import build_journal_world, check_replayed, crash_log, install_journal, jplan_kw
from simcore import (Plan, Rng, apply_event, derive_seed, crash_image, log_hash, run_sim, split_at_barrier, tool)

MUT = "WTZPDA"


def recovery_argv(fe, img):
    if fe == "e2fsck":
        return [tool("e2fsck"), "-fy", "-E", "journal_only", img]
    return [tool("debugfs"), "-w", "-R", "jr", img]


class C04(Check):
    pid = "C04"
    level = "fault_enumeration"
    rule = ("per journal world (see C03) and front-end: every crash point n of the recovery process's own sequence of device "
            "writes and flushes is enumerated (exhaustive over n); at each n the kill-model state and, for the power-loss "
            "model, the states none/all/drop-one/keep-one/keep-last/seeded-subsets (optionally torn) of the writes issued since "
            "the last completed flush.  Each crash state is one evaluation: invariant check + full re-run of recovery + "
            "comparison with the reference semantics.  Non-trivial = the crash state differs from both the initial and the "
            "final image; distinct = distinct (front-end, format, crash point class, subset kind, journal-superblock-state) tuples.")
    assumptions = ["simdisk durability model: a write is durable once an fsync on that device completed after it; un-flushed writes "
                   "may be lost in any subset and torn at 512-byte sector granularity; no reordering across a completed flush",
                   "internal journals and external journal devices (each device has its own barrier); fast-commit not generated"]
    reference_models = ["ref/jbd2model.py expected_blocks()", "crash-state reconstruction in sim/py/simcore.py (crash_image)"]

    def budget(self, tier):
        return {"runs": 28, "wall_s": 80} if tier == "quick" else {"runs": 120, "wall_s": 1500}

    def generate(self, rng, tier):
        return {"world_seed": rng.u64(), "crash_seed": rng.u64(), "frontend": rng.choice(["e2fsck", "e2fsck", "debugfs"]),
                "subsets": 4 if tier == "quick" else 12, "depth2": rng.chance(0.3), "points": None}

    def execute(self, spec, wd):
        o = Outcome()
        rng = Rng(spec["world_seed"])
        jw = None
        for _try in range(4):
            jw = build_journal_world(rng, wd)
            if jw is not None:
                break
        if jw is None:
            o.stats["world.rejected"] += 1
            o.trace = "rejected"
            return o
        crng = Rng(spec["crash_seed"])
        applied, complete, cdesc, torn = crash_log(crng, jw, mode=crng.weighted([("all", 6), ("prefix", 3), ("prefix+holes", 1)]))
        install_journal(jw, applied, torn)
        exp, untouched, nreplayed = J.expected_blocks(jw["txns"], complete)
        bs = jw["bs"]
        fe = spec["frontend"]
        fmtname = jw["fmt"].name()
        ext = bool(jw["jdev"])
        pre = open(jw["img"], "rb").read()            # the state recovery starts from
        jpre = open(jw["jdev"], "rb").read() if ext else None
        work = os.path.join(wd, "work.img")
        jwork = os.path.join(wd, "work.jdev")
        cimg = os.path.join(wd, "crash.img")
        cjdev = os.path.join(wd, "crash.jdev")
        shutil.copyfile(jw["img"], work)
        if ext:
            shutil.copyfile(jw["jdev"], jwork)

        def devs_kw(a, b):
            return ([a, (b, "blk dz")], {"extjournal": b}) if ext else ([a], {})
        d0, k0 = devs_kw(work, jwork)
        r0 = run_sim(recovery_argv(fe, work), Plan(d0, None, clock=1500020000, rand_seed=3, **k0), wd, tag="rec0", keep_log=True)
        o.sim_us += r0.sim_us
        final0 = open(work, "rb").read()
        jfinal0 = open(jwork, "rb").read() if ext else None
        traces = [log_hash(r0.events)]
        o.stats["journal." + ("external" if ext else "internal")] += 1
        where = "%s, %s journal, format %s, bs %d, %d txn(s) (%d expected replayed), features %s" % (
            fe, "external" if ext else "internal", fmtname, bs, len(jw["txns"]), nreplayed, ",".join(jw["cfg"]["features"]))
        o.sample = {"frontend": fe, "format": fmtname, "bs": bs, "expected_replayed": nreplayed, "log_crash": cdesc,
                    "recovery_events": [e.brief() for e in r0.events if e.kind in MUT + "F"][:60]}
        if r0.san or r0.signal or r0.timeout:
            o.observations.append("uninterrupted recovery ended abnormally (%s) -- judged under C03/C06" % r0.brief())
            o.trace = traces[0]
            return o
        bad0 = check_replayed(final0, jw, exp, untouched, jpost=jfinal0)
        if bad0:
            o.observations.append("uninterrupted recovery disagrees with the model (%s) -- judged under C03" % bad0[0][0])
            o.trace = traces[0]
            return o
        evs = [e for e in r0.events if e.dev in ((0, 1) if ext else (0,)) and (e.kind in MUT or e.kind == "F")]
        npoints = len(evs)
        o.stats["recovery_events"] += npoints
        jsb_off = jw["jsb_blk"] * bs
        points = spec["points"] if spec["points"] is not None else list(range(1, npoints + 1))

        def judge(state, label, n, kind, keep=None, tornmap=None, jstate=None):
            """state: bytes of the filesystem device after the crash; jstate: of the journal device (external journal)"""
            o.evals += 1
            jsb = J.parse_jsb((jstate if ext else state)[jsb_off:jsb_off + 1024])
            needs = bool(struct.unpack_from("<I", state, 1024 + 96)[0] & 4)
            empty = jsb["start"] == 0
            o.distinct.add("%s|%s|%s|%s|jsb_empty=%d|needs=%d" % (fe, fmtname, evs[n - 1].kind if n <= len(evs) else "end", kind, empty, needs))
            if (state != pre and state != final0) or (ext and jstate != jpre and jstate != jfinal0):
                o.stats["probe.intermediate_state"] += 1
            # (2) durability ordering: journal marked empty, or recovery no longer requested  =>  every replayed block is durable
            if empty or not needs:
                for b, want in exp.items():
                    if state[b * bs:(b + 1) * bs] != want:
                        o.violate("%s|%s|ordering|%s" % (fe, fmtname, "jsb_empty" if empty else "needs_recovery_clear"),
                                  "%s: crash after event %d/%d (%s) under the %s model%s: on stable storage the journal is %s and the "
                                  "filesystem %s recovery, but fs block %d does not yet hold its replayed image" %
                                  (where, n, npoints, evs[n - 1].brief(), kind, (" keep=%s" % keep) if keep is not None else "",
                                   "empty (s_start=0)" if empty else "not empty", "still requests" if needs else "no longer requests", b),
                                  point=n, kind=kind, keep=keep, skey="ordering")
                        return
                o.stats["probe.state_with_journal_released"] += 1
            # (1)/(3) run recovery again on the crash state
            with open(cimg, "wb") as f:
                f.write(state)
            if ext:
                with open(cjdev, "wb") as f:
                    f.write(jstate)
            d1, k1 = devs_kw(cimg, cjdev)
            faults = []
            if spec["depth2"] and label == "kill" and n % 3 == 0:
                faults = [("crash", -1 if ext else 0, 1 + (n * 7) % max(1, npoints), 0, 0)]
            r = run_sim(recovery_argv(fe, cimg), Plan(d1, None, clock=1500030000, rand_seed=4, faults=faults, **k1), wd, tag="rec1")
            if faults and r.crashed:
                o.stats["fault.nested_crash"] += 1
                r = run_sim(recovery_argv(fe, cimg), Plan(d1, None, clock=1500040000, rand_seed=5, **k1), wd, tag="rec2")
            o.sim_us += r.sim_us
            post = open(cimg, "rb").read()
            jpost = open(cjdev, "rb").read() if ext else None
            if r.san or r.signal or r.timeout:
                o.violate("%s|%s|rerun_abnormal" % (fe, fmtname), "%s: re-run of recovery after a crash at event %d ended abnormally: %s" %
                          (where, n, r.brief()), point=n, kind=kind, keep=keep, skey="rerun_abnormal")
                return
            bad = check_replayed(post, jw, exp, untouched, jpost=jpost)
            if bad and os.environ.get("VERIF_KEEP"):
                with open(os.path.join(wd, "violation_state.img"), "wb") as f:
                    f.write(state)
                with open(os.path.join(wd, "violation_rerun.out"), "wb") as f:
                    f.write(r.out + r.err)
            if bad:
                clause = bad[0][0]
                e = evs[n - 1]
                nxt = evs[n] if n < len(evs) else None
                in_sb = (e.kind == "W" and 1024 <= e.off < 2048 and e.len < 1024 and nxt is not None and nxt.kind == "W"
                         and 1024 <= nxt.off < 2048 and nxt.len < 1024)
                if b"Superblock checksum does not match" in (r.out + r.err):
                    # the primary superblock is rewritten as a series of 2..n-byte writes with no barrier in between;
                    # this crash (or the nested one) left words of two versions, so the stored checksum is stale.
                    # (An uninterrupted recovery that produced a bad checksum would already have failed above.)
                    clause = "sb_word_series_torn"
                o.violate("%s|%s|rerun|%s" % (fe, fmtname, clause),
                          "%s: crash after event %d/%d (%s) under the %s model%s, then recovery re-run (exit %s): %s" %
                          (where, n, npoints, evs[n - 1].brief(), kind, (" keep=%s torn=%s" % (keep, tornmap)) if keep is not None else "",
                           r.status, bad[0][1] + " | rerun said: " + (r.out + r.err).decode("latin1")[:300].replace("\n", " "
                                                                                                                   )), point=n, kind=kind, keep=keep, skey="rerun|" + clause)

        for n in points:
            if n > npoints:
                continue
            crng = Rng(derive_seed(spec["crash_seed"], "point", n))     # per-point stream: shrinking keeps the state
            # kill model: everything issued so far is on the medium
            state = bytes(crash_image(pre, evs, 0, upto=n, model="kill"))
            jstate = bytes(crash_image(jpre, evs, 1, upto=n, model="kill")) if ext else None
            o.stats["fault.crash_kill"] += 1
            judge(state, "kill", n, "kill", jstate=jstate)
            # power model: per device, the writes issued since that device's last completed flush are in flight
            _dur, infl0 = split_at_barrier(evs, 0, upto=n)
            infl1 = split_at_barrier(evs, 1, upto=n)[1] if ext else []
            union = sorted([(e.seq, 0, i) for i, e in enumerate(infl0)] + [(e.seq, 1, i) for i, e in enumerate(infl1)])
            k = len(union)
            if k == 0:
                continue
            subsets = [("none", [False] * k)]
            if k > 1:
                last = [False] * k
                last[-1] = True
                subsets.append(("keep_last", last))
                d1_ = [True] * k
                d1_[crng.below(k)] = False
                subsets.append(("drop_one", d1_))
                k1_ = [False] * k
                k1_[crng.below(k)] = True
                subsets.append(("keep_one", k1_))
                if ext and infl0 and infl1:
                    subsets.insert(1, ("only_journal_dev", [d == 1 for _s, d, _i in union]))
                    subsets.insert(2, ("only_fs_dev", [d == 0 for _s, d, _i in union]))
                for _ in range(max(0, spec["subsets"] - len(subsets))):
                    subsets.append(("random", [crng.chance(0.5) for _ in range(k)]))
            for name, keep in subsets[:spec["subsets"] + (2 if ext else 0)]:
                keep0 = [True] * len(infl0)
                keep1 = [True] * len(infl1)
                for (_s, d, i), kp in zip(union, keep):
                    (keep0 if d == 0 else keep1)[i] = kp
                tornmap = {}
                if crng.chance(0.15):
                    cand = [i for i in range(len(infl0)) if keep0[i] and infl0[i].kind == "W" and len(infl0[i].payload) >= 1024]
                    if cand:
                        i = crng.choice(cand)
                        tornmap[i] = crng.range(1, len(infl0[i].payload) // 512 - 1)
                        o.stats["fault.torn"] += 1
                state = bytes(crash_image(pre, evs, 0, upto=n, model="power", keep=keep0, torn=tornmap))
                jstate = bytes(crash_image(jpre, evs, 1, upto=n, model="power", keep=keep1)) if ext else None
                o.stats["fault.power_" + name] += 1
                judge(state, "power", n, "power/" + name, keep=keep, tornmap=tornmap, jstate=jstate)
        o.trace = hashlib.sha256("".join(traces).encode()).hexdigest()
        return o

    def shrink(self, spec, v):
        n = v["extra"].get("point")
        if n and spec["points"] != [n]:
            c = dict(spec)
            c["points"] = [n]
            yield c


if __name__ == "__main__":
    main(C04)
