#!/usr/bin/env python3
"""C12 — an undo file restores the exact previous bytes.

World: a device with content P0 (a populated filesystem, or noise for a first mke2fs), then a chain of
1-4 recording runs (mke2fs, tune2fs, resize2fs, e2fsck, debugfs -w, e2undo itself) with -z, each to its
own undo file or all appended to one file, then e2undo in reverse order.

Configurations (fault spaces):
  plain      no fault: the device must be byte-identical to P0 over its original length after every
             undo file has been applied (and, for `e2undo -z`, redoing must give the undone state back).
  kill       the last recording run is killed at a seeded device event (both the device and the undo
             file keep what had reached them; everything still in the process's caches is gone).  Then
             e2undo.  Every block that an independent parse finds recorded in the undo file must hold
             its P0 bytes afterwards; a refusal must leave the device untouched.
  bitflip    one bit of the undo file is flipped (header, superblock copy, key block, data block,
             slack).  e2undo must either refuse with zero mutating device events, or produce exactly P0.
  wrongfs    an undo file is offered to a device whose superblock it does not match (out of order in a
             chain, or a different filesystem): e2undo must refuse without writing.
  dryrun     e2undo -n on any of the above: zero mutating device events.
"""
import hashlib
import os
import shutil
import struct

import refext4
from framework import Check, Outcome, main
from simcore import (Plan, Rng, count_mutations, crash_image, file_sha, log_hash, make_device, parse_log, run_sim, tool)
from world import build_world, gen_config, gen_content, mkfs_argv

CRC = refext4.crc32c


# ----------------------------------------------------------------------------- independent undo-file parser
class UndoFile:
    """Parse of an undo file written from the format description in lib/ext2fs/undo_io.c (no library code)."""

    def __init__(self, data):
        self.data = data
        self.ok = False
        self.problems = []
        self.keys = []          # (device byte offset, size, file offset, crc_ok)
        if len(data) < 512 or data[:8] != b"E2UNDO02":
            self.problems.append("no header")
            return
        (self.num_keys, self.super_off, self.key_off, self.bs, self.fs_bs, self.sb_crc, self.state, self.f_compat,
         self.f_incompat, self.f_rocompat, _pad, self.fs_offset) = struct.unpack_from("<QQQIIIIIIIIQ", data, 8)
        self.hdr_crc_ok = CRC(0xFFFFFFFF, data[:508]) == struct.unpack_from("<I", data, 508)[0]
        if not self.hdr_crc_ok:
            self.problems.append("header crc")
        if not (1024 <= self.bs <= (1 << 20)) or self.fs_bs == 0:
            self.problems.append("block sizes")
            return
        self.finished = bool(self.state & 1)
        if not (self.f_compat & 1):
            self.fs_offset = 0
        bs = self.bs
        kpb = bs // 16 - 1
        lblk = self.key_off
        i = 0
        while i < self.num_keys:
            kb = data[lblk * bs:(lblk + 1) * bs]
            if len(kb) < bs or struct.unpack_from("<I", kb, 0)[0] != 0xCADECADE:
                self.problems.append("key block %d magic" % lblk)
                return
            if CRC(0xFFFFFFFF, kb[:4] + b"\0\0\0\0" + kb[8:]) != struct.unpack_from("<I", kb, 4)[0]:
                self.problems.append("key block %d crc" % lblk)
                return
            lblk += 1
            for j in range(min(kpb, self.num_keys - i)):
                fsblk, crc, size = struct.unpack_from("<QII", kb, 16 + 16 * j)
                blob = data[lblk * bs:lblk * bs + size]
                ok = len(blob) == size and CRC(0xFFFFFFFF, blob) == crc
                if not ok:
                    self.problems.append("data of key %d" % (i + j))
                self.keys.append((fsblk * self.fs_bs + self.fs_offset, size, lblk * bs, ok))
                lblk += (size + bs - 1) // bs
            i += kpb
        sbc = data[self.super_off * bs:self.super_off * bs + 1024]
        self.sb_copy = sbc
        self.ok = not self.problems

    def regions(self):
        """byte ranges of the file by kind, for the fault generator"""
        out = [("header", 0, 512), ("slack", 512, self.bs - 512)]
        out.append(("sbcopy", self.super_off * self.bs, 1024))
        if self.bs > 1024:
            out.append(("slack", self.super_off * self.bs + 1024, self.bs - 1024))
        kpb = self.bs // 16 - 1
        nkb = (self.num_keys + kpb - 1) // kpb if self.num_keys else 0
        seen = 0
        lblk = self.key_off
        for b in range(nkb):
            n = min(kpb, self.num_keys - seen)
            out.append(("keyblock", lblk * self.bs, 16 + 16 * n))
            if 16 + 16 * n < self.bs:
                out.append(("keyslack", lblk * self.bs + 16 + 16 * n, self.bs - 16 - 16 * n))
            lblk += 1
            for (_o, size, foff, _ok) in self.keys[seen:seen + n]:
                out.append(("data", foff, size))
                lblk += (size + self.bs - 1) // self.bs
            seen += n
        return [r for r in out if r[2] > 0]


# ----------------------------------------------------------------------------- recording steps
def gen_steps(rng, cfg, first_is_mkfs):
    feats = set(cfg["features"])
    n = rng.weighted([(1, 4), (2, 4), (3, 2), (4, 1)])
    steps = []
    for i in range(n):
        kinds = [("tune", 5), ("resize", 4), ("fsck", 3), ("debugfs", 5), ("mkfs", 2)]
        k = "mkfs" if (i == 0 and first_is_mkfs) else rng.weighted(kinds)
        if k == "tune":
            o = rng.choice([["-O", "^metadata_csum"] if "metadata_csum" in feats else ["-O", "metadata_csum"],
                            ["-I", str(min(1024, cfg["inode_size"] * 2))], ["-U", "random"], ["-L", "undolabel"],
                            ["-O", "extent"], ["-O", "^has_journal"] if "has_journal" in feats else ["-j"],
                            ["-r", "33"], ["-e", "remount-ro"], ["-c", "20"], ["-O", "dir_nlink,large_file"],
                            ["-E", "mount_opts=acl"], ["-O", "^dir_index"] if "dir_index" in feats else ["-O", "dir_index"]])
            steps.append({"tool": "tune2fs", "args": o})
        elif k == "resize":
            f = rng.choice([0.6, 0.75, 0.9, 1.3, 2.0])
            steps.append({"tool": "resize2fs", "kib": max(1024, int(cfg["size_kib"] * f))})
        elif k == "fsck":
            st = {"tool": "e2fsck", "args": rng.choice([["-fy"], ["-fyD"], ["-fy", "-E", "bmap2extent"]])}
            if rng.chance(0.5):
                # something to repair: a pending journal transaction (replay makes e2fsck restart), a wrong link count
                # (fixed in pass 4), a wrong free count (pass 5) -- put there, unrecorded, before the recorded run
                st["prep"] = rng.sample(["journal", "links", "freecount"], rng.range(1, 3))
                st["prep_seed"] = rng.u64() >> 1
            steps.append(st)
        elif k == "debugfs":
            cmds = []
            for j in range(rng.range(1, 6)):
                op = rng.below(6)
                if op == 0:
                    cmds.append('mkdir "/u%d_%d"' % (i, j))
                elif op == 1:
                    cmds.append('write "HOST%d" "/uf%d_%d"' % (rng.range(0, 2), i, j))
                elif op == 2:
                    cmds.append('symlink "/us%d_%d" "%s"' % (i, j, "t" * rng.range(1, 200)))
                elif op == 3:
                    cmds.append("set_super_value mnt_count %d" % rng.below(30))
                elif op == 4:
                    cmds.append("expand_dir /")
                else:
                    nblk = cfg["size_kib"] * 1024 // cfg["bs"]
                    cmds.append('zap_block -p 0x%x %d' % (rng.below(256), rng.range(0, nblk - 1) if rng.chance(0.6) else
                                                          nblk - 1 - rng.below(min(nblk, 40))))
            steps.append({"tool": "debugfs", "cmds": cmds})
        else:
            c2 = gen_config(Rng(rng.u64()), small=True, avoid=("mmp", "bigalloc"))
            c2["size_kib"] = cfg["size_kib"]
            if "has_journal" in c2["features"] and c2["size_kib"] < 4 * c2["bs"]:
                c2["features"] = [f for f in c2["features"] if f not in ("has_journal", "orphan_file")]
                c2.pop("jsize", None)
            steps.append({"tool": "mke2fs", "cfg": c2, "nodiscard": rng.chance(0.4)})
    return steps


class C12(Check):
    pid = "C12"
    level = "exploration"
    rule = ("one case = (initial device content: populated filesystem | noise) x (chain of 1-4 recording runs of mke2fs / tune2fs / "
            "resize2fs / e2fsck / debugfs -w / e2undo -z, own undo files or one appended file) x (plain | kill of "
            "the last recorder at a seeded event | one flipped bit in the undo file by region | wrong device or wrong order | -n).  "
            "Non-trivial = at least one undo file holds >= 1 key; distinct = distinct (tool chain, configuration, feature set).")
    assumptions = ["after e2undo of an unfinished undo file the library re-opens the filesystem to clear VALID_FS and thereby rewrites "
                   "the superblock and descriptor copies: those blocks are compared on geometry only, every other recorded byte exactly",
                   "kill model: bytes handed to write(2) survive the process, bytes still in the tool's own caches do not"]
    reference_models = ["independent undo-file parser (this file), crc32c from ref/refext4.py",
                        "P0 byte image kept by the orchestrator"]

    def budget(self, tier):
        return {"runs": 2600, "wall_s": 75} if tier == "quick" else {"runs": 25000, "wall_s": 1500}

    def generate(self, rng, tier):
        cfg = gen_config(rng, small=True, avoid=("mmp",))
        # device sizes that are not a multiple of the 32 KiB undo block mke2fs uses (a short last undo block)
        cfg["size_kib"] += rng.choice([0, 0, 0, 1, 4, 8, 20, 31, 33])
        first_is_mkfs = rng.chance(0.3)
        mode = rng.weighted([("plain", 4), ("kill", 4), ("bitflip", 4), ("wrongfs", 2)])
        return {"cfg": cfg, "world_seed": rng.u64(), "initial": rng.choice(["noise", "fs"]) if first_is_mkfs else "fs",
                "steps": gen_steps(rng, cfg, first_is_mkfs), "onefile": rng.chance(0.35), "mode": mode,
                "fault_seed": rng.u64(), "dev": rng.weighted([("", 6), ("blk dz", 2), ("blk nodz", 2)]), "dryrun_first": rng.chance(0.35),
                "undo_undo": rng.chance(0.2)}

    # ------------------------------------------------------------------
    def _run_step(self, st, img, undo, wd, tag, clock, hosts, faults=(), env=None):
        t = st["tool"]
        e = dict(env or {})
        if t == "tune2fs":
            argv = [tool("tune2fs"), "-z", undo] + st["args"] + [img]
        elif t == "resize2fs":
            argv = [tool("resize2fs"), "-f", "-z", undo, img, "%dK" % st["kib"]]
        elif t == "e2fsck":
            argv = [tool("e2fsck"), "-z", undo] + st["args"] + [img]
        elif t == "debugfs":
            script = os.path.join(wd, tag + ".script")
            with open(script, "w") as f:
                f.write("\n".join(c.replace("HOST0", hosts[0]).replace("HOST1", hosts[1]).replace("HOST2", hosts[2])
                                  for c in st["cmds"]) + "\n")
            argv = [tool("debugfs"), "-w", "-z", undo, "-f", script, img]
        elif t == "mke2fs":
            c = dict(st["cfg"])
            if st.get("nodiscard"):
                c["extra_eopts"] = ["nodiscard"]
            argv = mkfs_argv(c, img, extra=["-z", undo])
        else:
            raise KeyError(t)
        pl = Plan([(img, self._dev), undo], None, clock=clock, rand_seed=11, faults=faults)
        return run_sim(argv, pl, wd, tag=tag, env=e, keep_log=True, cpu_s=30)

    def _prep_damage(self, st, img, wd, tag, clock):
        from world import debugfs_script
        prng = Rng(st["prep_seed"])
        cmds = []
        if "links" in st["prep"]:
            cmds.append("set_inode_field <2> links_count %d" % prng.range(5, 40))
        if "freecount" in st["prep"]:
            cmds.append("set_bg 0 free_blocks_count %d" % prng.range(0, 200))
        if "journal" in st["prep"] and "has_journal" in self._cfg["features"]:
            nb = self._cfg["size_kib"] * 1024 // self._cfg["bs"]
            src = os.path.join(wd, "uh0")
            cmds += ["jo", "jw -b %d %s" % (prng.range(nb // 2, nb - 2), src), "jc"]
        if cmds:
            debugfs_script(img, cmds, wd, tag=tag + "prep", clock=clock - 50, rand_seed=13, plan_kw=None,
                           devices=[(img, self._dev)])

    def execute(self, spec, wd):
        o = Outcome()
        rng = Rng(spec["world_seed"])
        cfg = spec["cfg"]
        self._cfg = cfg
        img = os.path.join(wd, "img")
        traces = []
        self._dev = spec.get("dev", "")
        hosts = []
        for i in range(3):
            p = os.path.join(wd, "uh%d" % i)
            with open(p, "wb") as f:
                f.write(gen_content(rng, rng.range(0, 50000)))
            hosts.append(p)
        if spec["initial"] == "noise":
            make_device(img, cfg["size_kib"] * 1024, "random", rng=rng)
        else:
            w = build_world(rng, wd, cfg=dict(cfg), scale=0.6, big_dir=rng.weighted([(0, 3), (rng.range(20, 80), 1)]))
            if w["rejected"]:
                o.stats["world.rejected"] += 1
                o.trace = "rejected"
                return o
        p0 = open(img, "rb").read()
        steps = spec["steps"]
        mode = spec["mode"]
        chain = "+".join(s["tool"] for s in steps)
        # one undo file shared by runs that use different I/O block sizes (mke2fs to another block size in the middle)
        bs_seq = [cfg["bs"]]
        for st in steps:
            bs_seq.append(st["cfg"]["bs"] if st["tool"] == "mke2fs" else bs_seq[-1])
        bs_change = spec["onefile"] and len(set(bs_seq[(1 if steps[0]["tool"] == "mke2fs" and spec["initial"] == "noise" else 0):])) > 1
        feats = ",".join(cfg["features"])
        # ---- record
        undos = []          # undo file of each successful step, in order
        states = [p0]       # device content before each recorded step
        clock = 1500004000
        killed = None
        for i, st in enumerate(steps):
            undo = os.path.join(wd, "undo0" if spec["onefile"] else "undo%d" % i)
            last = i == len(steps) - 1
            if st["tool"] == "e2fsck" and st.get("prep") and i == 0:    # (later it would be an unrecorded change inside the chain)
                self._prep_damage(st, img, wd, "s%d" % i, clock)      # unrecorded: part of the state the run starts from
            faults = ()
            if mode == "kill" and last:
                # learn the number of events from an uninterrupted run on copies
                shutil.copyfile(img, img + ".probe")
                if os.path.exists(undo):
                    shutil.copyfile(undo, undo + ".probe")
                rp = self._run_step(st, img + ".probe", undo + ".probe", wd, "probe", clock, hosts)
                nev = sum(1 for e in rp.events if e.kind in "WTZPDAF")
                for x in (img + ".probe", undo + ".probe", os.path.join(wd, "probe.evlog")):
                    if os.path.exists(x):
                        os.unlink(x)
                if nev >= 2:
                    n = spec.get("kill_at") or Rng(spec["fault_seed"]).range(1, nev)
                    faults = [("crash", -1, n, 0, 0)]
                    killed = (n, nev)
            before = open(img, "rb").read()
            before_undo = open(undo, "rb").read() if os.path.exists(undo) else None
            r = self._run_step(st, img, undo, wd, "s%d" % i, clock, hosts, faults=faults)
            traces.append(log_hash(r.events))
            o.sim_us += r.sim_us
            clock += 700
            o.stats["record.%s.status%s" % (st["tool"], r.status)] += 1
            if r.san or r.signal or (r.timeout and not r.crashed):
                o.observations.append("%s -z ended abnormally (%s) -- judged under C06" % (st["tool"], r.brief()))
                o.trace = "abn"
                return o
            if faults and r.crashed:
                o.stats["fault.kill"] += 1
                if not (spec["onefile"] and undos):
                    undos.append(undo)
                    states.append(before)
                break
            if not os.path.exists(undo) or (before_undo is not None and open(undo, "rb").read() == before_undo):
                # the tool refused or had nothing to record: the device must not have changed either
                if open(img, "rb").read()[:len(before)] != before and before_undo is None:
                    # (an appended-to undo file may stay byte-identical when every block the run touched was recorded by
                    # an earlier run; the final comparison still covers that case)
                    o.violate("plain|%s|modified_without_record" % st["tool"],
                              "%s -z changed the device but recorded nothing (status %s): chain %s, features %s" %
                              (st["tool"], r.status, chain, feats), skey="norecord")
                continue
            if not (spec["onefile"] and undos):
                if open(img, "rb").read() == before and UndoFile(open(undo, "rb").read()).keys == []:
                    # the run wrote nothing to the device and its undo file holds no key; there is nothing to restore
                    # (e2undo calls such a file corrupt -- noted, not judged: the device is what it was)
                    o.stats["record.empty_undo_file"] += 1
                    os.unlink(undo)
                    continue
                undos.append(undo)
                states.append(before)
        if not undos:
            o.stats["nothing_recorded"] += 1
            o.trace = hashlib.sha256("".join(traces).encode()).hexdigest()
            return o
        where = "chain %s (%s), device %s, features %s, bs %d" % (
            chain, "one undo file" if spec["onefile"] else "own undo files", self._dev or "regular file", feats, cfg["bs"])
        o.sample = {"chain": chain, "mode": mode, "onefile": spec["onefile"], "features": feats,
                    "killed_at": killed}

        # ---- replay in reverse
        frng = Rng(spec["fault_seed"] ^ 0x5bd1e995)
        for idx in range(len(undos) - 1, -1, -1):
            undo = undos[idx]
            # states[0] = P0; states[k+1] = device content before the k-th recorded step, which undo file k restores
            target = states[idx + 1]
            if not os.path.exists(undo):
                o.stats["replay.no_undo_file"] += 1      # the recorder was killed before it created one
                continue
            ufd = open(undo, "rb").read()
            uf = UndoFile(ufd)
            is_last = idx == len(undos) - 1
            cur = open(img, "rb").read()
            o.evals += 1
            if uf.keys:
                o.distinct.add("%s|%s|%s" % (chain, mode, feats))
            tag = "u%d" % idx
            # -- dry run first: never writes
            if spec["dryrun_first"]:
                rn = run_sim([tool("e2undo"), "-n", undo, img], Plan([(img, self._dev), undo], None, clock=clock), wd, tag=tag + "n", keep_log=True)
                traces.append(log_hash(rn.events))
                o.evals += 1
                nm = count_mutations(rn.events, 0)
                if nm or open(img, "rb").read() != cur:
                    o.violate("dryrun|writes", "e2undo -n issued %d mutating device event(s) %s: %s" %
                              (nm, [e.brief() for e in rn.events if e.dev == 0 and e.kind in "WTZPDA"][:5], where), skey="dryrun")
                o.stats["probe.dryrun"] += 1
            # -- wrong device / wrong order
            if mode == "wrongfs" and is_last:
                other = None
                if len(undos) >= 2:
                    other = undos[0]          # out of order: the oldest file against the newest state
                    what = "out of order (oldest undo file first)"
                if other is None or frng.chance(0.3):
                    # a different filesystem of the same size
                    alt = os.path.join(wd, "alt.img")
                    c2 = gen_config(Rng(spec["fault_seed"]), small=True, avoid=("mmp", "bigalloc", "has_journal"))
                    c2["size_kib"] = cfg["size_kib"]
                    from world import mkfs
                    ra = mkfs(c2, alt, wd, tag="altmk")
                    if ra.status == 0:
                        b4 = file_sha(alt)
                        rw = run_sim([tool("e2undo"), undo, alt], Plan([alt, undo], None, clock=clock), wd, tag=tag + "w", keep_log=True)
                        traces.append(log_hash(rw.events))
                        o.evals += 1
                        nm = count_mutations(rw.events, 0)
                        o.stats["wrongfs.other_fs.status%s" % rw.status] += 1
                        if rw.status == 0 or nm or file_sha(alt) != b4:
                            o.violate("wrongfs|other_fs|%s" % ("accepted" if rw.status == 0 else "wrote"),
                                      "e2undo applied to a different filesystem exits %s with %d mutating device event(s): %s" %
                                      (rw.status, nm, where), skey="wrongfs")
                if other is not None and other != undo:
                    ouf = UndoFile(open(other, "rb").read())
                    # only meaningful when the superblock changed in between
                    if ouf.problems == [] and CRC(0xFFFFFFFF, cur[1024 + ouf.fs_offset:2048 + ouf.fs_offset]) != ouf.sb_crc:
                        rw = run_sim([tool("e2undo"), other, img], Plan([(img, self._dev), other], None, clock=clock), wd, tag=tag + "o", keep_log=True)
                        traces.append(log_hash(rw.events))
                        o.evals += 1
                        nm = count_mutations(rw.events, 0)
                        o.stats["wrongfs.order.status%s" % rw.status] += 1
                        if rw.status == 0 or nm or open(img, "rb").read() != cur:
                            o.violate("wrongfs|order|%s" % ("accepted" if rw.status == 0 else "wrote"),
                                      "e2undo %s exits %s with %d mutating device event(s): %s" % (what, rw.status, nm, where),
                                      skey="wrongfs")
            # -- one flipped bit
            flipped = None
            if mode == "bitflip" and is_last and not uf.problems:
                regs = uf.regions()
                kinds = sorted(set(k for k, _a, _l in regs))
                if spec.get("flip"):
                    kind, foff, bit = spec["flip"]
                else:
                    kind = frng.choice(kinds)
                    cand = [r for r in regs if r[0] == kind]
                    _k, a, l = frng.choice(cand)
                    foff = a + frng.below(l)
                    bit = frng.below(8)
                if foff < len(ufd):
                    b = bytearray(ufd)
                    b[foff] ^= 1 << bit
                    with open(undo, "wb") as f:
                        f.write(b)
                    flipped = (kind, foff, bit)
                    o.stats["fault.bitflip.%s" % kind] += 1
            # -- the real thing
            argv = [tool("e2undo")]
            redo = None
            if spec["undo_undo"] and is_last and mode == "plain":
                redo = os.path.join(wd, "redo")
                argv += ["-z", redo]
            r = run_sim(argv + [undo, img], Plan([(img, self._dev), undo] + ([redo] if redo else []), None, clock=clock + 50), wd, tag=tag,
                        keep_log=True, cpu_s=30)
            traces.append(log_hash(r.events))
            o.sim_us += r.sim_us
            o.evals += 1
            clock += 300
            o.stats["e2undo.%s.status%s" % (mode if is_last else "plain", r.status)] += 1
            after = open(img, "rb").read()
            nm = count_mutations(r.events, 0)
            if r.san or r.signal or r.timeout:
                o.observations.append("e2undo ended abnormally (%s) -- judged under C06: %s" % (r.brief(), where))
                break
            L = len(target)
            if flipped:
                kind, foff, bit = flipped
                if r.status != 0:
                    if nm or after != cur:
                        o.violate("bitflip|%s|refused_but_wrote" % kind,
                                  "bit %d of undo-file byte %d (%s) flipped: e2undo exits %s yet issued %d mutating device event(s): %s" %
                                  (bit, foff, kind, r.status, nm, where), skey="bitflip", flip=list(flipped))
                    else:
                        o.stats["probe.bitflip_refused"] += 1
                elif after[:L] != target and (uf.finished or [k for k in range(0, L, 512) if after[k:k + 512] != target[k:k + 512]
                                                                 and (k // self._meta_copies(after)[1]) not in self._meta_copies(after)[0]]):
                    nd = sum(1 for k in range(0, L, 512) if after[k:k + 512] != target[k:k + 512])
                    o.violate("bitflip|%s|accepted_wrong_result" % kind,
                              "bit %d of undo-file byte %d (%s) flipped: e2undo exits 0 and the device differs from the recorded "
                              "pre-image in %d sector(s): %s" % (bit, foff, kind, nd, where), skey="bitflip", flip=list(flipped))
                else:
                    o.stats["probe.bitflip_dead_space"] += 1
                break
            if mode == "kill" and is_last and killed:
                self._judge_kill(o, uf, r, nm, cur, after, target, where, killed)
                break
            if r.status != 0:
                tail = (r.out + r.err).decode("latin1")[-400:]
                o.violate("plain|e2undo_status%s|%s" % (r.status, steps[min(idx, len(steps) - 1)]["tool"]),
                          "e2undo of a normally finished undo file exits %s: %s\n%s" % (r.status, where, tail), skey="plain|status")
                break
            nd = [k // 512 for k in range(0, L, 512) if after[k:k + 512] != target[k:k + 512]] if after[:L] != target else []
            unfinished_replayed = bool(nd) and not uf.finished
            if nd and not uf.finished:
                # a recorder exited with an error (or was interrupted): its undo file is not marked finished, e2undo replays
                # it and then re-opens the filesystem to clear VALID_FS, which rewrites the superblock and descriptor copies
                o.stats["probe.unfinished_undo_file"] += 1
                tol = self._meta_copies(after)
                bsz = tol[1]
                nd = [k for k in nd if (k * 512 // bsz) not in tol[0]]
                st = int.from_bytes(after[1024 + 58:1024 + 60], "little")
                if not nd and after[1024 + 56:1024 + 58] == b"\x53\xef" and (st & 1):
                    o.violate("plain|unfinished_not_marked", "e2undo replayed an unfinished undo file but the filesystem is still marked "
                              "valid: %s" % where, skey="plain|unfinished_not_marked")
                    break
            if nd:
                o.violate("plain|not_restored|%s" % chain,
                          "after e2undo the device differs from its state before the recorded run in %d sector(s), first at byte %d "
                          "(fs block %d): %s" % (len(nd), nd[0] * 512, nd[0] * 512 // cfg["bs"], where), skey="plain|not_restored")
                break
            if unfinished_replayed:
                # the superblock now differs from what the next (older) undo file recorded; e2undo will -- rightly -- refuse it
                o.stats["chain.stopped_after_unfinished"] += 1
                break
            o.stats["probe.restored_exact"] += 1
            if redo and os.path.exists(redo):
                rr = run_sim([tool("e2undo"), redo, img], Plan([(img, self._dev), redo], None, clock=clock + 80), wd, tag=tag + "r", keep_log=True)
                traces.append(log_hash(rr.events))
                o.evals += 1
                again = open(img, "rb").read()
                if rr.status != 0 or again[:len(cur)] != cur[:len(again)]:
                    o.violate("plain|undo_undo", "e2undo of the undo file written by `e2undo -z` exits %s and %s: %s" %
                              (rr.status, "restores the undone state" if again[:len(cur)] == cur[:len(again)] else
                               "does not give the undone state back", where), skey="plain|undo_undo")
                    break
                o.stats["probe.undo_undo"] += 1
                # and undo once more so that the rest of the chain continues from the right state
                r3 = run_sim([tool("e2undo"), undo, img], Plan([(img, self._dev), undo], None, clock=clock + 90), wd, tag=tag + "x")
                if r3.status != 0:
                    break
        o.trace = hashlib.sha256("".join(traces).encode()).hexdigest()
        if bs_change:
            for v in o.violations:
                v.key += "|onefile_bs_change"
        return o

    @staticmethod
    def _meta_copies(image):
        try:
            fs = refext4.RefFS(data=image)
            fm = fs.fixed_metadata()
            return set(b for b, (kind, _g) in fm.items() if kind in ("sb", "gdt", "backup_sb", "backup_gdt", "pad")), fs.block_size
        except Exception:
            return set(), 1024

    def _judge_kill(self, o, uf, r, nm, cur, after, target, where, killed):
        k = "kill"
        at = "recorder killed at event %d of %d" % killed
        if uf.problems and uf.problems != ["no header"] and r.status == 0 and not uf.keys:
            pass
        if r.status != 0:
            # a refusal is legitimate only if nothing was written
            if nm or after != cur:
                o.violate("kill|refused_but_wrote", "%s; e2undo exits %s yet issued %d mutating device event(s): %s" % (at, r.status, nm, where),
                          skey="kill|refused_but_wrote")
                return
            o.stats["kill.refused"] += 1
            if uf.problems:
                o.stats["kill.refused.%s" % uf.problems[0].split()[0]] += 1
                if uf.keys and any(ok for _a, _s, _f, ok in uf.keys):
                    # measure-only: the file holds verifiable pre-images but its index is inconsistent (header, key block and
                    # data go through a write-back cache and are not ordered).  e2undo is documented to refuse a file whose
                    # checksums do not verify, so the refusal itself is what the property asks for.
                    o.stats["kill.refused_with_verifiable_preimages"] += 1
            return
        o.stats["kill.accepted"] += 1
        # e2undo accepted: every recorded key range must hold the pre-image
        L = len(target)
        tolerated, bs = self._meta_copies(after)
        bad = []
        for (doff, size, _foff, ok) in uf.keys:
            for s in range(doff, min(doff + size, L), 512):
                if after[s:s + 512] != target[s:s + 512] and (s // bs) not in tolerated:
                    bad.append(s)
        if bad:
            o.violate("kill|recorded_block_wrong", "%s; e2undo exits 0 but %d recorded sector(s) do not hold their pre-image, first at device "
                      "byte %d: %s" % (at, len(bad), bad[0], where), skey="kill|recorded_block_wrong")
            return
        if not uf.finished:
            # must have been marked as needing a check (when it is a filesystem at all)
            try:
                st = int.from_bytes(after[1024 + 58:1024 + 60], "little")
                if after[1024 + 56:1024 + 58] == b"\x53\xef" and (st & 1) and uf.keys:
                    o.violate("kill|not_marked", "%s; e2undo replayed an unfinished undo file but the filesystem is still marked "
                              "valid (s_state %#x): %s" % (at, st, where), skey="kill|not_marked")
                    return
            except Exception:
                pass
        # write-ahead: whatever the killed run managed to change on the device must have been recorded before, so an
        # accepted replay brings the whole device back (apart from what e2undo itself rewrites to mark the filesystem)
        rest = [s for s in range(0, min(L, len(after)), 512) if after[s:s + 512] != target[s:s + 512] and (s // bs) not in tolerated]
        if rest:
            o.violate("kill|not_written_ahead", "%s; e2undo exits 0 and every block the undo file lists holds its pre-image, but %d other "
                      "sector(s) the killed run had overwritten were never recorded, first at device byte %d (fs block %d): %s" %
                      (at, len(rest), rest[0], rest[0] // bs, where), skey="kill|not_written_ahead")
            return
        o.stats["probe.kill_restored"] += 1

    def shrink(self, spec, v):
        steps = spec["steps"]
        if len(steps) > 1:
            for i in range(len(steps) - 1):
                c = dict(spec)
                c["steps"] = steps[:i] + steps[i + 1:]
                yield c
        if spec["dryrun_first"] and not v["key"].startswith("dryrun"):
            c = dict(spec)
            c["dryrun_first"] = False
            yield c
        flip = (v.get("extra") or {}).get("flip")
        if flip and not spec.get("flip"):
            c = dict(spec)
            c["flip"] = flip
            yield c
        for st_i, st in enumerate(steps):
            if st["tool"] == "debugfs" and len(st["cmds"]) > 1:
                for j in range(len(st["cmds"])):
                    c = dict(spec)
                    c["steps"] = [dict(s) for s in steps]
                    c["steps"][st_i]["cmds"] = st["cmds"][:j] + st["cmds"][j + 1:]
                    yield c


if __name__ == "__main__":
    main(C12)
