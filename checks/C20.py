#!/usr/bin/env python3
"""C20 — backup superblocks and descriptors are always usable.

World: mke2fs + population, then optionally one more geometry- or feature-changing tool
(resize2fs grow/shrink, tune2fs feature/UUID/inode-size changes, a repairing e2fsck after summary
damage).  Oracle, on the result:

  set     the groups that hold a superblock copy are exactly those the format rule gives (computed
          by the independent reader: groups 0, 1, powers of 3/5/7; the two sparse_super2 groups; every
          group without sparse_super);
  current each copy agrees with the primary in the fields e2fsck itself treats as "the backups need
          an update" (block and inode counts, feature words, UUID) and in the geometry;
  usable  targeted media fault: the primary superblock and every primary descriptor block are zeroed or
          overwritten with noise; then for each backup location `e2fsck -fy -b <loc> -B <bs>` must end
          without the uncorrected/operational/usage/cancelled bits, `e2fsck -fn` must exit 0 afterwards
          and the tree digest taken by the independent reader must be unchanged.  With the default group
          size the same is demanded of plain `e2fsck -fy` (it has to find a backup on its own).
"""
import hashlib
import os
import shutil

import refext4
import reffaults
from digest import brief, diff_trees
from framework import Check, Outcome, main
from simcore import Plan, Rng, log_hash, run_sim, tool
from world import build_world, e2fsck, gen_config
import minifs

# superblock fields (name, offset, size) that a current backup must share with the primary
GEOM_FIELDS = [("s_inodes_count", 0, 4), ("s_blocks_count_lo", 4, 4), ("s_first_data_block", 20, 4),
               ("s_log_block_size", 24, 4), ("s_log_cluster_size", 28, 4), ("s_blocks_per_group", 32, 4),
               ("s_clusters_per_group", 36, 4), ("s_inodes_per_group", 40, 4), ("s_magic", 56, 2), ("s_rev_level", 76, 4),
               ("s_first_ino", 84, 4), ("s_inode_size", 88, 2), ("s_uuid", 104, 16),
               ("s_desc_size", 254, 2), ("s_first_meta_bg", 260, 4), ("s_blocks_count_hi", 336, 4),
               ("s_backup_bgs", 588, 8)]
# deliberately not compared: s_reserved_gdt_blocks and s_log_groups_per_flex (e2fsck corrects them in the primary
# only and a stale value in a backup is re-corrected after a recovery), free counts, times, labels, mount counts
# feature bits that legitimately differ between primary and backups (e2fsck/super.c check_backup_super_block)
MASK_COMPAT = 0
MASK_INCOMPAT = 0x4 | 0x40                 # needs_recovery, extents   (FEATURE_INCOMPAT_IGNORE)
MASK_RO = 0x2 | 0x8 | 0x20 | 0x10000       # large_file, dir_nlink (FEATURE_RO_COMPAT_IGNORE: set lazily by the kernel), huge_file, orphan_present


def gen_step(rng, cfg):
    feats = set(cfg["features"])
    kind = rng.weighted([("none", 3), ("resize", 5), ("tune", 5), ("fsck", 2), ("primary_only", 3)])
    if kind == "primary_only":
        # what a mounted kernel does: a feature bit appears in the primary superblock only (debugfs writes just the
        # primary, too), possibly with the error flag raised; the next repairing e2fsck has to bring the backups up to date
        cand = [f for f in ("ext_attr", "dir_index", "filetype") if f not in feats] or ["ext_attr"]
        return {"kind": "primary_only", "feature": rng.choice(cand), "state": rng.choice([None, 2, 3, 3]),
                "damage": rng.chance(0.5)}
    if kind == "resize":
        factor = rng.choice([0.5, 0.6, 0.75, 0.9, 1.1, 1.3, 1.7, 2.0, 3.1, 4.2])
        return {"kind": "resize", "kib": max(1024, int(cfg["size_kib"] * factor))}
    if kind == "tune":
        opts = [["-O", "^metadata_csum"] if "metadata_csum" in feats else ["-O", "metadata_csum"],
                ["-I", str(min(1024, cfg["inode_size"] * 2))],
                ["-U", "01234567-89ab-cdef-0123-456789abcdef"], ["-O", "extent"],
                ["-O", "^has_journal"] if "has_journal" in feats else ["-j"],
                ["-O", "^uninit_bg"] if "uninit_bg" in feats else ["-O", "uninit_bg"],
                ["-O", "^quota"] if "quota" in feats else ["-O", "quota"],
                ["-O", "^huge_file"] if "huge_file" in feats else ["-O", "huge_file"],
                ["-O", "dir_nlink"], ["-O", "^dir_index"] if "dir_index" in feats else ["-O", "dir_index"],
                ["-O", "large_file"], ["-O", "^flex_bg"] if False else ["-O", "ea_inode"],
                ["-O", "metadata_csum_seed"] if "metadata_csum" in feats else ["-O", "sparse_super"],
                ["-O", "^resize_inode"] if "resize_inode" in feats else ["-r", "100"],
                ["-O", "project"], ["-O", "^filetype"] if "filetype" in feats else ["-O", "filetype"],
                ["-E", "stride=8,stripe_width=16"], ["-O", "large_dir"]]
        return {"kind": "tune", "args": rng.choice(opts)}
    if kind == "fsck":
        return {"kind": "fsck", "fault_seed": rng.u64(), "n": rng.range(1, 3)}
    return {"kind": "none"}


class C20(Check):
    pid = "C20"
    level = "exploration"
    rule = ("one case = (seeded populated filesystem: block size, group size, sparse_super/sparse_super2/meta_bg/flex_bg/64bit/"
            "bigalloc mix) x (last tool: mke2fs only | resize2fs grow/shrink | tune2fs feature, UUID or inode-size change | "
            "repairing e2fsck) x (primary superblock+descriptors zeroed | noise) x (each backup location, plain e2fsck).  "
            "Non-trivial = at least two groups hold a backup; distinct = distinct (feature set, group count, last tool, "
            "recovery route).")
    assumptions = ["'current' is judged on the fields e2fsck's check_backup_super_block() compares (block/inode counts, "
                   "masked feature words, UUID) plus the geometry fields; free counts, times, mount counts, labels may be stale",
                   "tree digest as in C05 (lost+found excluded)"]
    reference_models = ["ref/refext4.py backup_groups()/fixed_metadata() (format rule for backup placement)",
                        "ref/refext4.py tree_digest()"]

    def budget(self, tier):
        return {"runs": 220, "wall_s": 100} if tier == "quick" else {"runs": 3000, "wall_s": 1500}

    def generate(self, rng, tier):
        cfg = gen_config(rng, avoid=("mmp",))
        # several groups, so that there is something to back up
        if "cluster" not in cfg and rng.chance(0.7):
            bs = cfg["bs"]
            cfg["bpg"] = rng.choice([256, 512, 1024, 2048]) if bs == 1024 else rng.choice([512, 1024, 2048, 4096]) \
                if bs == 2048 else rng.choice([1024, 2048, 4096, 8192])
            if cfg["bpg"] > bs * 8:
                del cfg["bpg"]
        elif "cluster" not in cfg and rng.chance(0.5):
            cfg.pop("bpg", None)       # default group size: plain e2fsck must find the backup
            cfg["size_kib"] = max(cfg["size_kib"], rng.choice([2, 3, 4]) * cfg["bs"] * 8 * cfg["bs"] // 1024 // (1 if cfg["bs"] < 4096 else 4))
            cfg["size_kib"] = min(cfg["size_kib"], 65536)
        if rng.chance(0.22) and "cluster" not in cfg:
            # many small groups with meta_bg: descriptor blocks of several meta groups, whose backup copies sit next to
            # (or without) a backup superblock depending on the group number
            cfg["bs"] = 1024
            cfg["bpg"] = 256
            cfg["inode_size"] = min(cfg["inode_size"], 256)
            cfg["inode_ratio"] = 16384
            feats = set(cfg["features"]) | {"meta_bg"}
            feats.discard("resize_inode")
            if rng.chance(0.6):
                feats |= {"64bit", "extent"}
            if rng.chance(0.4):
                feats |= {"sparse_super", "sparse_super2"}
            feats -= {"has_journal", "orphan_file", "bigalloc"}
            cfg.pop("jsize", None)
            cfg.pop("resize_max", None)
            cfg["features"] = sorted(feats)
            cfg["size_kib"] = rng.choice([18, 34, 50, 51, 60, 66, 82, 83, 100, 128]) * 256
        if "sparse_super2" in cfg["features"] and rng.chance(0.5):
            cfg["extra_eopts"] = ["num_backup_sb=%d" % rng.choice([0, 1, 2])]
        return {"cfg": cfg, "world_seed": rng.u64(), "step": gen_step(rng, cfg), "destroy": rng.choice(["zero", "noise"]),
                "noise_seed": rng.u64(), "pick_seed": rng.u64(), "max_locs": 4 if tier == "quick" else 8}

    # ------------------------------------------------------------------
    def execute(self, spec, wd):
        o = Outcome()
        rng = Rng(spec["world_seed"])
        cfg = spec["cfg"]
        w = build_world(rng, wd, cfg=dict(cfg), scale=0.8, big_dir=rng.weighted([(0, 3), (rng.range(30, 150), 2)]))
        if w["rejected"]:
            o.stats["world.rejected"] += 1
            o.trace = "rejected"
            return o
        img = w["img"]
        step = spec["step"]
        traces = []
        last = "mke2fs"
        clock = 1500003000
        if step["kind"] == "resize":
            r = run_sim([tool("resize2fs"), "-f", img, "%dK" % step["kib"]], Plan([img], None, clock=clock, rand_seed=7), wd,
                        tag="rs", keep_log=True)
            traces.append(log_hash(r.events))
            last = "resize2fs(%s)" % ("grow" if step["kib"] > cfg["size_kib"] else "shrink")
            o.stats["step.resize.status%s" % r.status] += 1
            if r.san or r.signal or r.timeout:
                o.observations.append("resize2fs ended abnormally (%s) -- judged under C06/C08" % r.brief())
                o.trace = "abn"
                return o
            if r.status != 0:
                last = "mke2fs"
        elif step["kind"] == "tune":
            r = run_sim([tool("tune2fs")] + step["args"] + [img], Plan([img], None, clock=clock, rand_seed=7), wd, tag="tn",
                        keep_log=True)
            traces.append(log_hash(r.events))
            o.stats["step.tune.status%s" % r.status] += 1
            if r.san or r.signal or r.timeout:
                o.observations.append("tune2fs ended abnormally (%s) -- judged under C06/C11" % r.brief())
                o.trace = "abn"
                return o
            if r.status == 0:
                last = "tune2fs " + " ".join(step["args"])
                if b"e2fsck" in r.out + r.err:
                    rf, _ = e2fsck(img, ["-fy"], wd, tag="tnf", clock=clock + 500, problems=False)
                    last += " + e2fsck"
        elif step["kind"] == "primary_only":
            cmds = ["feature %s" % step["feature"]]
            if step["state"] is not None:
                cmds.append("set_super_value state %d" % step["state"])
            if step["damage"]:
                cmds.append("set_inode_field <2> links_count 7")
            from world import debugfs_script
            rd = debugfs_script(img, cmds, wd, tag="ko", clock=clock, rand_seed=7, keep_log=True)
            traces.append(log_hash(rd.events))
            rf, _ = e2fsck(img, ["-fy"], wd, tag="rep", clock=clock + 300, problems=False, keep_log=True)
            traces.append(log_hash(rf.events))
            o.stats["step.primary_only.fsck_status%s" % rf.status] += 1
            last = "debugfs(feature %s%s%s)+e2fsck -fy" % (step["feature"], ", state %s" % step["state"] if step["state"] is not None else "",
                                                         ", damage" if step["damage"] else "")
        elif step["kind"] == "fsck":
            data = open(img, "rb").read()
            try:
                faults = reffaults.gen_summary_faults(Rng(step["fault_seed"]), data, step["n"])
                minifs.apply_faults(img, faults)
            except Exception as ex:
                o.observations.append("summary fault generator failed: %r" % ex)
                faults = []
            rf, _ = e2fsck(img, ["-fy"], wd, tag="rep", clock=clock, problems=False, keep_log=True)
            traces.append(log_hash(rf.events))
            last = "e2fsck -fy"
        # the starting point must be consistent; otherwise the run decides nothing for C20
        r0, c0 = e2fsck(img, ["-fn"], wd, tag="pre", clock=clock + 1000)
        if r0.status != 0 or c0:
            o.stats["world.not_clean_after_%s" % last.split()[0].split("(")[0]] += 1
            o.trace = "notclean"
            return o
        data0 = open(img, "rb").read()
        try:
            fs = refext4.RefFS(data=data0)
            d0, recs0 = fs.tree_digest(include_mtime=False)
            fm = fs.fixed_metadata()
        except Exception as ex:
            o.observations.append("refext4 cannot read a clean world: %r" % ex)
            o.trace = "unreadable"
            return o
        bs = fs.block_size
        feats = ",".join(sorted(f for f in cfg["features"]))
        where = "last tool: %s; bs %d, %d groups of %d blocks, features %s" % (last, bs, fs.group_count, fs.blocks_per_group, feats)
        lastk = last.split()[0].split("(")[0] + ("" if step["kind"] != "tune" else ":" + "".join(step["args"][:2]))
        if step["kind"] == "resize" and last != "mke2fs" and fs.has("sparse_super2"):
            lastk += "+sparse_super2"
        o.sample = {"last_tool": last, "bs": bs, "groups": fs.group_count, "bpg": fs.blocks_per_group, "features": feats,
                    "backup_groups": fs.backup_groups()[:12]}

        # ---- clause "set": which groups hold a superblock copy
        want = set(fs.backup_groups())
        prim = fs.sb_raw
        have = set([0])
        for g in range(1, fs.group_count):
            blk = fs.group_first_block(g)
            sb = data0[blk * bs:blk * bs + 1024]
            if len(sb) == 1024 and sb[56:58] == b"\x53\xef" and sb[104:120] == prim[104:120] and \
                    int.from_bytes(sb[90:92], "little") == (g & 0xFFFF):
                have.add(g)
        o.evals += 1
        if fs.group_count > 1 and not fs.has("sparse_super2"):
            # (with sparse_super2 the recorded s_backup_bgs *is* the rule; stale copies elsewhere are harmless leftovers)
            if want - have:
                o.violate("set|missing|%s" % lastk, "groups %s must hold a backup superblock but do not (rule %s, found %s): %s" %
                          (sorted(want - have), sorted(want)[:12], sorted(have)[:12], where), skey="set|missing")
        elif fs.has("sparse_super2") and want - have:
            o.violate("set|missing|%s" % lastk, "s_backup_bgs names groups %s but they hold no superblock copy (found %s): %s" %
                      (sorted(want - have), sorted(have)[:12], where), skey="set|missing")
        if fs.has("sparse_super") and not fs.has("sparse_super2") and step["kind"] in ("none", "fsck", "tune", "primary_only") and have - want:
            # (a shrunk or regrown filesystem may keep dead copies in groups that were backup groups before)
            o.violate("set|unexpected|%s" % lastk, "groups %s hold a superblock copy but the format rule gives %s: %s" %
                      (sorted(have - want), sorted(want)[:12], where), skey="set|unexpected")

        # ---- clause "current"
        pc, pi, pr = (int.from_bytes(prim[92:96], "little"), int.from_bytes(prim[96:100], "little"),
                      int.from_bytes(prim[100:104], "little"))
        for g in sorted(want & have):
            if g == 0:
                continue
            blk = fs.group_first_block(g)
            sb = data0[blk * bs:blk * bs + 1024]
            bad = [n for n, off, sz in GEOM_FIELDS if sb[off:off + sz] != prim[off:off + sz]]
            bc, bi, br = (int.from_bytes(sb[92:96], "little"), int.from_bytes(sb[96:100], "little"),
                          int.from_bytes(sb[100:104], "little"))
            if (bc ^ pc) & ~MASK_COMPAT:
                bad.append("s_feature_compat(%#x vs %#x)" % (bc, pc))
            if (bi ^ pi) & ~MASK_INCOMPAT:
                bad.append("s_feature_incompat(%#x vs %#x)" % (bi, pi))
            if (br ^ pr) & ~MASK_RO:
                bad.append("s_feature_ro_compat(%#x vs %#x)" % (br, pr))
            o.evals += 1
            if bad:
                o.violate("current|sb|%s|%s" % (lastk, ",".join(b.split("(")[0] for b in bad[:3])),
                          "backup superblock of group %d is stale in %s: %s" % (g, bad[:6], where), skey="current|sb")
                break
        if len(want) >= 2:
            o.stats["probe.multi_backup"] += 1
        if fs.has("meta_bg"):
            o.stats["probe.meta_bg"] += 1
        if fs.has("sparse_super2"):
            o.stats["probe.sparse_super2"] += 1

        # ---- clause "usable": destroy the primary copies, recover from each backup
        prim_blocks = sorted(b for b, (k, g) in fm.items() if k in ("sb", "gdt", "pad"))
        if fs.has("meta_bg"):
            # the descriptor block of a meta group that consists of a single group has no second copy anywhere: the
            # format prescribes no backup for it, so it is not part of "the primary copies are destroyed"
            dpb = fs.desc_per_block
            lonely = set(fs._desc_block_loc(i) for i in range(fs.sb["s_first_meta_bg"], fs.desc_blocks) if i * dpb + 1 >= fs.group_count)
            prim_blocks = [b for b in prim_blocks if b not in lonely]
        broken = bytearray(data0)
        nrng = Rng(spec["noise_seed"])
        for b in prim_blocks:
            lo, hi = b * bs, (b + 1) * bs
            if fm[b][0] == "pad":
                continue
            if fm[b][0] == "sb" and bs > 1024:
                lo, hi = 1024, 2048 if spec["destroy"] == "zero" else bs     # keep the boot sector area
                lo = 1024
            broken[lo:hi] = (b"\0" * (hi - lo)) if spec["destroy"] == "zero" else nrng.bytes(hi - lo)
        prng = Rng(spec["pick_seed"])
        locs = [g for g in sorted(want & have) if g != 0]
        routes = [("b", g) for g in locs]
        if len(routes) > spec["max_locs"]:
            keep = [routes[0], routes[-1]] + prng.sample(routes[1:-1], spec["max_locs"] - 2)
            routes = [r for r in routes if r in keep]
        default_bpg = fs.blocks_per_group == bs * 8 and not fs.has("bigalloc")
        if default_bpg and 1 in have and fs.group_count > 1:
            routes.append(("plain", 0))
        if spec.get("routes") is not None:
            routes = [tuple(r) for r in spec["routes"] if tuple(r) in routes]
        work = os.path.join(wd, "rec.img")
        for kind, g in routes:
            with open(work, "wb") as f:
                f.write(broken)
            if kind == "b":
                loc = fs.group_first_block(g)
                extra = ["-b", str(loc), "-B", str(bs)]
                route = "e2fsck -fy -b %d -B %d (group %d)" % (loc, bs, g)
            else:
                extra = []
                route = "plain e2fsck -fy"
            r, codes = e2fsck(work, ["-fy"], wd, tag="rec", clock=clock + 5000, extra=extra, keep_log=True, cpu_s=40)
            traces.append(log_hash(r.events))
            o.sim_us += r.sim_us
            o.evals += 1
            o.stats["recover.%s.status%s" % (kind, r.status)] += 1
            rk = "%s|%s" % (kind, lastk)
            if len(want) >= 2:
                o.distinct.add("%s|%d|%s|%s" % (feats, fs.group_count, lastk, kind))
            if r.san or r.signal or r.timeout:
                o.observations.append("recovery e2fsck ended abnormally (%s) -- judged under C06: %s; %s" % (r.brief(), route, where))
                continue
            if r.status is None or r.status & (4 | 8 | 16 | 32 | 128):
                tail = "\n".join(l for l in (r.out + r.err).decode("latin1").splitlines() if l.strip())[-700:]
                o.violate("usable|%s|status%s" % (rk, r.status), "%s after the primary superblock and descriptors were %s exits %s: %s\n%s" %
                          (route, "zeroed" if spec["destroy"] == "zero" else "overwritten with noise", r.status, where, tail),
                          skey="usable|status", route=[kind, g])
                continue
            rn, cn = e2fsck(work, ["-fn"], wd, tag="recn", clock=clock + 6000)
            o.evals += 1
            if (rn.status != 0 or cn) and not (rn.san or rn.signal or rn.timeout):
                tail = "\n".join(l for l in rn.out.decode("latin1").splitlines() if l.strip())[-600:]
                o.violate("usable|%s|not_clean|%s" % (rk, ",".join("%x" % c for c in sorted(set(cn))[:4])),
                          "after %s (status %s) e2fsck -fn exits %s, problems %s: %s\n%s" %
                          (route, r.status, rn.status, ["%#x" % c for c in sorted(set(cn))[:8]], where, tail),
                          skey="usable|not_clean", route=[kind, g])
                continue
            try:
                fs1 = refext4.RefFS(data=open(work, "rb").read())
                d1, recs1 = fs1.tree_digest(include_mtime=False)
            except Exception as ex:
                o.violate("usable|%s|unreadable" % rk, "after %s the independent reader cannot read the result (%r): %s" % (route, ex, where),
                          skey="usable|unreadable", route=[kind, g])
                continue
            if d1 != d0:
                df = diff_trees(recs0, recs1)
                if df:
                    fields = sorted(set(f for _p, f, _a, _b in df))
                    o.violate("usable|%s|digest:%s" % (rk, ",".join(fields[:3])),
                              "after %s files changed: %s -- %s" % (route, brief(df), where), skey="usable|digest", route=[kind, g])
                    continue
            # a current backup describes the same filesystem: the recovered descriptors must place every group's
            # bitmaps and inode table where they were (a recovery that had to "relocate" them read stale or wrong descriptors)
            try:
                moved = [gg for gg in range(fs.group_count)
                         if any(fs.group_desc(gg)[k] != fs1.group_desc(gg)[k] for k in ("bg_block_bitmap", "bg_inode_bitmap", "bg_inode_table"))] \
                    if fs1.group_count == fs.group_count else ["group count %d -> %d" % (fs.group_count, fs1.group_count)]
            except Exception as ex:
                moved = ["unreadable descriptors: %r" % ex]
            if moved:
                o.violate("usable|%s|layout_changed" % rk, "after %s the bitmaps / inode table of group(s) %s are not where they were before "
                          "the primary copies were destroyed: %s" % (route, moved[:8], where), skey="usable|layout", route=[kind, g])
                continue
            o.stats["probe.recovered_ok"] += 1
        o.trace = hashlib.sha256("".join(traces).encode()).hexdigest()
        return o

    def shrink(self, spec, v):
        route = (v.get("extra") or {}).get("route")
        if route and spec.get("routes") != [route]:
            c = dict(spec)
            c["routes"] = [route]
            yield c
        if spec["step"]["kind"] != "none":
            c = dict(spec)
            c["step"] = {"kind": "none"}
            yield c
        if spec["destroy"] != "zero":
            c = dict(spec)
            c["destroy"] = "zero"
            yield c
        feats = spec["cfg"]["features"]
        for f in feats:
            c = dict(spec)
            c["cfg"] = dict(spec["cfg"])
            c["cfg"]["features"] = [x for x in feats if x != f]
            yield c


if __name__ == "__main__":
    main(C20)
