#!/usr/bin/env python3
"""C01 — e2fsck repairs converge: after `e2fsck -fy` claims success, `e2fsck -fn` is silent and exits 0.

Image states come from inside the simulation: a writer tool killed by a power loss (lost and torn
in-flight writes), silent write faults during a writer, at-rest media faults addressed by
structure, unrecovered journals, orphan lists.  This is bounded liveness: once faults stop, ONE
repair run must reach a state the checker accepts.
"""
import hashlib
import struct

from framework import Check, Outcome, main
from simcore import Rng, log_hash
from states import make_state
from world import e2fsck, fsck_status_ok_for_repair


def fault_signature(faults):
    return "+".join(sorted(set(f["cls"] for f in faults))) or "none"


def system_inodes(img):
    with open(img, "rb") as f:
        f.seek(1024)
        sb = f.read(1024)
    u32 = lambda o: struct.unpack_from("<I", sb, o)[0]
    first = u32(84) if u32(76) else 11
    out = set(str(i) for i in range(1, min(first, 64)) if i != 2)
    for o in (224, 576, 580, 620, 0x280):
        if u32(o):
            out.add(str(u32(o)))
    return out


class C01(Check):
    pid = "C01"
    level = "exploration"
    rule = ("one case = (seeded populated filesystem, image state); state kinds: 1-4 structure-addressed at-rest media faults "
            "(superblock/descriptor/inode fields, bitmap bits, directory/extent/xattr/journal block words, sectors zeroed or "
            "randomised), power-loss crash of a writer (debugfs, e2fsck -D, tune2fs, resize2fs) with a seeded subset of "
            "in-flight writes lost or torn, unrecovered journal, orphan list, and combinations.  Non-trivial = the -fy run found "
            "something to repair (problem log not empty) and claimed success; distinct = distinct (state kind, fault-class "
            "signature, feature set, set of problem codes fixed).")
    assumptions = ["both e2fsck runs see the same simulated clock epoch (the property says 'immediately following')",
                   "runs whose -fy status has an 'uncorrected/operational/usage/cancelled' bit are outside the property and only counted"]
    max_shrunk_violations = 1000
    reference_models = ["the property statement itself (two exit statuses and the problem log of the second run)"]

    def budget(self, tier):
        return {"runs": 2500, "wall_s": 100} if tier == "quick" else {"runs": 30000, "wall_s": 1500}

    def generate(self, rng, tier):
        kind = rng.weighted([("faults", 12), ("crashed_writer", 5), ("journal+faults", 2), ("orphan", 1), ("journal", 1)])
        return {"world_seed": rng.u64(), "state": kind, "faults": None,
                "nfaults": rng.weighted([(1, 7), (2, 3), (3, 1), (4, 1)])}

    def execute(self, spec, wd):
        o = Outcome()
        rng = Rng(spec["world_seed"])
        st = make_state(rng, wd, spec["state"], nfaults=spec["nfaults"], faults=spec["faults"])
        if st is None:
            o.stats["world.rejected"] += 1
            o.trace = "rejected"
            return o
        img = st["img"]
        feats = ",".join(st["cfg"]["features"])
        r1, codes1 = e2fsck(img, ["-fy"], wd, tag="fy", clock=1500010000, keep_log=True)
        h1 = log_hash(r1.events)
        o.sim_us += r1.sim_us
        o.stats["fy.status.%s" % r1.status] += 1
        o.stats["state." + spec["state"]] += 1
        sig = fault_signature(st["faults"]) if st["faults"] else spec["state"]
        for c_ in set(f["cls"].split("~")[0] for f in st["faults"]):
            o.stats["fault." + c_] += 1
        cw = (st["details"].get("crash") or {}).get("writer")
        if cw and not st["faults"]:
            # which tool was interrupted matters: a crashed whole-filesystem rewrite is a different class
            # of damage from a crashed debugfs command
            w = cw.split()
            sig = "crashed_writer:" + w[0] + ("" if len(w) < 2 or w[0] in ("debugfs", "resize2fs") else w[1].lstrip("^"))
        o.sample = {"state": spec["state"], "features": feats, "bs": st["cfg"]["bs"], "faults": [f["what"] for f in st["faults"]],
                    "details": str(st["details"])[:300], "fy_status": r1.status, "fy_problem_codes": ["%#x" % c for c in codes1[:12]]}
        if r1.san or r1.timeout or r1.signal or r1.budget_hit:
            o.stats["probe.fy_abnormal"] += 1
            o.observations.append("e2fsck -fy ended abnormally (%s) on %s [%s] -- judged under C06" % (r1.brief(), spec["state"], sig))
            o.trace = h1
            return o
        if not fsck_status_ok_for_repair(r1.status):
            o.stats["outside.fy_uncorrected"] += 1
            o.trace = h1
            return o
        r2, codes2 = e2fsck(img, ["-fn"], wd, tag="fn", clock=1500010000 + 600, keep_log=True)
        h2 = log_hash(r2.events)
        o.sim_us += r2.sim_us
        o.trace = hashlib.sha256((h1 + h2).encode()).hexdigest()
        o.evals += 1
        o.stats["fn.status.%s" % r2.status] += 1
        if codes1:
            o.distinct.add("%s|%s|%s|%s" % (spec["state"], sig, feats, ",".join("%x" % c for c in sorted(set(codes1)))))
            o.stats["probe.repaired_something"] += 1
        if r1.status & 1:
            o.stats["probe.fy_modified"] += 1
        if r2.san or r2.timeout or r2.signal:
            o.observations.append("e2fsck -fn ended abnormally (%s) -- judged under C06" % r2.brief())
            return o
        if r2.status != 0 or codes2:
            c2 = sorted(set(codes2))
            key = "%s|fn:%s" % (sig, ",".join("%x" % c for c in c2[:6]))
            # recurrence: the very problem (same code on the same object) that the first run answered "yes" to is
            # reported again -- the repair was not made, or was undone, as opposed to a repair that uncovers or
            # causes a different problem.  Keyed apart so that a listed family of the second kind cannot absorb it.
            fixed1 = set((c, obj) for c, yes, obj in r1.problem_records if yes and any(obj))
            # (not for the inodes the tools own -- resize, journal, quota, orphan file: e2fsck rebuilds those wholesale,
            # at a point of the run where the per-block problems of the old one have already been answered)
            system = system_inodes(img)
            recur = sorted(set(c for c, _yes, obj in r2.problem_records if (c, obj) in fixed1 and obj[0] not in system))
            if recur:
                key = "%s|recur:%s" % (sig, ",".join("%x" % c for c in recur[:6]))
                o.stats["probe.recurrence"] += 1
            tail = r2.out.decode("latin1", "replace")
            tail = "\n".join(l for l in tail.splitlines() if l.strip())[-900:]
            o.violate(key, "after `e2fsck -fy` exited %d (fixed codes %s) on a %s image [%s], `e2fsck -fn` exited %s with problems %s; "
                      "features %s bs %d\n--- second run output tail ---\n%s" %
                      (r1.status, ["%#x" % c for c in sorted(set(codes1))[:10]], spec["state"],
                       "; ".join(f["what"] for f in st["faults"]) or str(st["details"])[:200], r2.status,
                       ["%#x" % c for c in c2[:10]], feats, st["cfg"]["bs"], tail),
                      faults=st["faults"], skey=key.split("|", 1)[1])
        return o

    def shrink(self, spec, v):
        if spec["state"] not in ("faults", "journal+faults"):
            return
        faults = spec["faults"] if spec["faults"] is not None else v["extra"].get("faults") or []
        if len(faults) <= 1:
            return
        for i in range(len(faults)):
            c = dict(spec)
            c["faults"] = faults[:i] + faults[i + 1:]
            yield c


if __name__ == "__main__":
    main(C01)
