#!/usr/bin/env python3
"""C02 — a clean e2fsck verdict implies a consistent filesystem.

    e2fsck -fn exits 0 (and reports no problem)   ==>   the independent checker finds nothing.

The images are fault-produced inside the simulation: structure-addressed field faults (often
with the covering checksum re-sealed, so that only the field is wrong), crashed writers with
lost/torn in-flight writes, silent write faults.  Images on which e2fsck -fn complains decide
nothing and are only counted.
"""
import hashlib
import re

import refext4
from framework import Check, Outcome, main
from simcore import Rng, log_hash
from states import make_state
from world import e2fsck


class C02(Check):
    pid = "C02"
    level = "exploration"
    rule = ("one case = a seeded populated filesystem + fault state (1-3 structure-addressed field faults via the independent "
            "reader: superblock, descriptors, bitmap bits, inode fields, extent headers/entries in the inode and in extent "
            "blocks, indirect pointers, directory entries, htree nodes, xattr headers/entries -- 60% with the covering checksum "
            "re-sealed; or a power-loss crash of a writer).  Non-trivial = e2fsck -fn accepted the image (exit 0, empty problem "
            "log) although at least one byte differs from the consistent original: only then the implication is tested; "
            "distinct = distinct (fault-class signature, feature set).")
    assumptions = ["refext4.check() implements exactly the invariants the property lists (R1 range/ownership, R2 bitmaps and group "
                   "counts, R3 link counts and reachability, R4 well-formed extent trees / directory blocks / htree, R5 checksums) "
                   "and nothing e2fsck marks as not-a-problem; calibrated to zero complaints on every image e2fsck -fn accepts among "
                   "58 generated configurations, 44 clean corpus images and 51 tool-scenario images (ref/test_refext4.py)",
                   "an image with an unrecovered journal is judged as it lies on the medium by both sides"]
    reference_models = ["ref/refext4.py: independent ext2/3/4 reader and consistency checker (no libext2fs code)"]

    def budget(self, tier):
        return {"runs": 2500, "wall_s": 90} if tier == "quick" else {"runs": 30000, "wall_s": 1500}

    def generate(self, rng, tier):
        kind = rng.weighted([("faults", 14), ("crashed_writer", 4), ("journal+faults", 1)])
        return {"world_seed": rng.u64(), "state": kind, "faults": None, "nfaults": rng.weighted([(1, 8), (2, 3), (3, 1)])}

    def execute(self, spec, wd):
        o = Outcome()
        rng = Rng(spec["world_seed"])
        st = make_state(rng, wd, spec["state"], nfaults=spec["nfaults"], faults=spec["faults"], fault_gen="struct", reseal_p=0.6)
        if st is None:
            o.stats["world.rejected"] += 1
            o.trace = "rejected"
            return o
        feats = ",".join(st["cfg"]["features"])
        sig = "+".join(sorted(set(f["cls"] for f in st["faults"]))) or spec["state"]
        for c_ in set(f["cls"].split("~")[0] for f in st["faults"]):
            o.stats["fault." + c_] += 1
        r, codes = e2fsck(st["img"], ["-fn"], wd, tag="fn", clock=1500010000, keep_log=True)
        o.trace = log_hash(r.events)
        o.sim_us += r.sim_us
        o.stats["fn.status.%s" % r.status] += 1
        o.stats["state." + spec["state"]] += 1
        o.sample = {"state": spec["state"], "features": feats, "bs": st["cfg"]["bs"], "faults": sorted(set(f["what"] for f in st["faults"])),
                    "fn_status": r.status, "details": str(st["details"])[:200]}
        if r.san or r.signal or r.timeout:
            o.observations.append("e2fsck -fn ended abnormally (%s) on [%s] -- judged under C06" % (r.brief(), sig))
            return o
        if r.status != 0 or codes:
            o.stats["outside.fn_complains"] += 1
            return o
        o.evals += 1
        data = open(st["img"], "rb").read()
        try:
            fs = refext4.RefFS(data=data)
            comp = fs.check()
        except Exception as ex:
            comp = [refext4.Complaint("R0.unparsable", repr(ex))]
        if st["faults"] or st["details"].get("crash"):
            o.distinct.add("%s|%s" % (sig, feats))
        if not comp:
            o.stats["probe.both_accept"] += 1
            return o
        def tag(c):
            t = c.rule
            if c.rule.startswith("R1") and "inode 7" in c.detail:
                t += "(resize_inode)"
            if c.rule == "R2.block_bitmap":
                # blocks that libext2fs marks again in memory after loading the bitmaps (bitmaps and inode tables of
                # BLOCK_UNINIT groups, which flex_bg puts into other groups): e2fsck never sees the on-disk bits
                try:
                    blks = [int(x) for x in re.findall(r"\+(\d+)", c.detail)]
                    meta = set()
                    for g in range(fs.group_count):
                        if fs.group_flags(g) & 2:
                            gd = fs.group_desc(g)
                            meta.update([gd["bg_block_bitmap"], gd["bg_inode_bitmap"]])
                            meta.update(range(gd["bg_inode_table"], gd["bg_inode_table"] + fs.itable_blocks))
                    if blks and all(b in meta for b in blks) and "-" not in c.detail.split("):", 1)[-1].replace("- marked", ""):
                        t += "(uninit_group_meta)"
                except Exception:
                    pass
            if c.rule == "R4.i_blocks":
                m = re.match(r"inode (\d+):", c.detail)
                try:
                    i = fs.read_inode(int(m.group(1))) if m else None
                    if i is not None and (i.mode & 0xF000) == 0xA000 and (i.flags & 0x10000000):
                        t += "(inline_symlink)"
                except Exception:
                    pass
            return t
        rules = sorted(set(tag(c) for c in comp))
        if "bigalloc" in st["cfg"]["features"]:
            rules = [r + "/bigalloc" if "resize_inode" in r else r for r in rules]
        o.violate("%s|%s" % (sig, ",".join(rules[:3])),
                  "e2fsck -fn exits 0 with an empty problem log, but the independent checker finds %d inconsistency(ies): %s.  Image state: %s "
                  "[%s]; features %s bs %d" % (len(comp), "; ".join("%s: %s" % (c.rule, c.detail) for c in comp[:4]), spec["state"],
                                               "; ".join(sorted(set(f["what"] for f in st["faults"]))) or str(st["details"])[:200], feats,
                                               st["cfg"]["bs"]),
                  faults=st["faults"], skey=",".join(rules[:1]))
        return o

    def shrink(self, spec, v):
        if spec["state"] not in ("faults", "journal+faults"):
            return
        faults = spec["faults"] if spec["faults"] is not None else v["extra"].get("faults") or []
        if len(faults) <= 1:
            return
        for i in range(len(faults)):
            c = dict(spec)
            c["faults"] = faults[:i] + faults[i + 1:]
            yield c


if __name__ == "__main__":
    main(C02)
