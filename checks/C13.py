#!/usr/bin/env python3
"""C13 — read-only invocations never modify the device.

Every invocation documented as non-modifying is run under the simulated disk against image
states the simulator produced (clean, unrecovered journal, orphans, MMP in use, crashed writer,
at-rest media faults), optionally with read faults injected while it runs.  The write monitor is
the oracle: zero mutating device events, and a byte-identical image.
"""
import os
import shutil
import sys

from framework import Check, Outcome, main
import simcore
from simcore import Plan, Rng, derive_seed, count_mutations, file_sha, log_hash, run_sim, tool
from states import make_state
from battery import DEBUGFS_RO_CMDS, INVOCATIONS, ro_argv

class C13(Check):
    pid = "C13"
    level = "exploration"
    rule = ("one case = (read-only invocation, image-state kind, feature set, read fault or none); it is non-trivial when "
            "the tool got as far as reading the device (>= 1 read event); distinct = distinct (invocation, state kind, "
            "feature-set, fault kind) tuples.  Image states come from seeded worlds: clean, unrecovered journal (debugfs "
            "journal writer), orphan list, MMP in use, power-loss crash of a writer with lost/torn in-flight writes, "
            "1-4 structure-addressed at-rest media faults.")
    assumptions = ["a barrier (fsync) is not a modification; how the device was opened (O_RDWR or not) is recorded but not judged",
                   "the simulated disk shows every byte a tool sends to the device: all pwrite/write/ftruncate/fallocate/"
                   "ioctl(BLKDISCARD) calls made by /repo's objects are intercepted at link time"]
    reference_models = ["write monitor: event log of the simulated disk + sha256 of the image before/after"]

    def budget(self, tier):
        return {"runs": 900, "wall_s": 90} if tier == "quick" else {"runs": 10000, "wall_s": 1500}

    def generate(self, rng, tier):
        kind = rng.weighted([("clean", 2), ("journal", 4), ("orphan", 3), ("mmp", 1), ("faults", 5),
                             ("crashed_writer", 4), ("journal+faults", 2)])
        invs = rng.sample(INVOCATIONS, rng.range(4, 9))
        spec = {"world_seed": rng.u64(), "state": kind, "faults": None, "invocations": invs,
                "dbg_seed": rng.u64(), "read_fault": None}
        if rng.chance(0.35):
            spec["read_fault"] = [rng.choice(["eio_r", "short_r", "bad_r", "eof_r"]), rng.range(1, 60), rng.range(0, 4000)]
        return spec

    def execute(self, spec, wd):
        o = Outcome()
        rng = Rng(spec["world_seed"])
        st = make_state(rng, wd, spec["state"], faults=spec["faults"])
        if st is None:
            o.stats["world.rejected"] += 1
            o.trace = "rejected"
            return o
        img = st["img"]
        feats = ",".join(st["cfg"]["features"])
        traces = []
        undo = None
        for inv in spec["invocations"]:
            irng = Rng(derive_seed(spec["dbg_seed"], inv))
            if inv == "e2undo-n":
                # make an undo file by letting a real writer record to it, then ask e2undo for a dry run
                undo = os.path.join(wd, "undo.e2undo")
                if os.path.exists(undo):
                    os.unlink(undo)
                # the undo file is finished, left unfinished by its writer (the writer dies before marking it complete: what
                # UNDO_IO_SIMULATE_UNFINISHED stands in for, or a kill at a seeded event), or has one flipped bit
                variant = irng.weighted([("finished", 3), ("unfinished", 3), ("killed", 2), ("bitflip", 2)])
                env = {"UNDO_IO_SIMULATE_UNFINISHED": "1"} if variant == "unfinished" else None
                kf = [("crash", -1, irng.range(3, 14), 0, 0)] if variant == "killed" else []
                run_sim([tool("tune2fs"), "-z", undo, "-L", "c13lbl", "-r", "11", "-O", "^dir_index", img],
                        Plan([img, undo], None, clock=1500003000, faults=kf), wd, tag="mkundo", env=env)
                if not os.path.exists(undo) or os.path.getsize(undo) < 1024:
                    o.stats["skip.e2undo-n"] += 1
                    continue
                if variant == "bitflip":
                    with open(undo, "r+b") as f:
                        pos = irng.below(os.path.getsize(undo))
                        f.seek(pos)
                        c = f.read(1)
                        f.seek(pos)
                        f.write(bytes([c[0] ^ (1 << irng.below(8))]))
                o.stats["undo_variant." + variant] += 1
                argv = [tool("e2undo"), "-n"] + (["-f"] if irng.chance(0.3) else []) + [undo, img]
            else:
                argv = ro_argv(inv, st, wd, irng)
            before = file_sha(img)
            faults = []
            if spec["read_fault"]:
                k, nth, a = spec["read_fault"]
                if k in ("bad_r",):
                    faults = [(k, 0, 0, a * 1024, 4096)]
                elif k == "eof_r":
                    faults = [(k, 0, 0, max(4096, os.path.getsize(img) - a * 1024), 0)]
                else:
                    faults = [(k, 0, nth, a if k == "short_r" else 1, 0)]
            pl = Plan([img], None, clock=1500005000, rand_seed=spec["dbg_seed"] >> 1, faults=faults, budget=300000)
            r = run_sim(argv, pl, wd, tag="ro", cpu_s=10)
            after = file_sha(img)
            nmut = count_mutations(r.events, 0) + sum(1 for e in r.events if e.kind == "L")
            nreads = sum(1 for e in r.events if e.kind == "R")
            o.evals += 1
            o.sim_us += r.sim_us
            traces.append(log_hash(r.events))
            o.stats["status.%s.%s" % (inv, r.status)] += 1
            fk = spec["read_fault"][0] if spec["read_fault"] else "nofault"
            if any(e.fault for e in r.events if e.kind == "R"):
                o.stats["fault." + fk] += 1
            if nreads:
                o.distinct.add("%s|%s|%s|%s" % (inv, spec["state"], feats, fk))
            if any(e.kind == "O" and (e.off & 3) != 0 for e in r.events):
                o.stats["probe.opened_rdwr." + inv] += 1
            if nmut or before != after:
                wr = [e.brief() for e in r.events if e.kind in "WTZPDAL"][:8]
                o.violate("%s|%s" % (inv, spec["state"]),
                          "%s on a '%s' image issued %d mutating device event(s) %s; image %s; features %s; argv %s" %
                          (inv, spec["state"], nmut, wr, "changed" if before != after else "unchanged", feats,
                           " ".join(argv)), faults=st["faults"], invocation=inv)
            if r.timeout or r.budget_hit:
                o.observations.append("no termination within the bound: %s on %s image (world_seed %d, faults %s, read_fault %s) "
                                      "-- judged under C06" % (" ".join(argv), spec["state"], spec["world_seed"],
                                                              [f["what"] for f in st["faults"]], spec["read_fault"]))
                o.stats["probe.timeout_seen"] += 1
            if r.san:
                o.observations.append("sanitizer report in %s on %s image: %s (judged under C06)" % (inv, spec["state"], r.san))
                o.stats["probe.sanitizer_seen"] += 1
            for f in os.listdir(wd):
                if f.startswith("out."):
                    os.unlink(os.path.join(wd, f))
            simcore.rmtree(wd + "/rdump")
        o.stats["state." + spec["state"]] += 1
        o.trace = log_hash([]) if not traces else __import__("hashlib").sha256("".join(traces).encode()).hexdigest()
        o.sample = {"state": spec["state"], "features": feats, "bs": st["cfg"]["bs"], "details": _brief(st["details"]),
                    "faults": [f["what"] for f in st["faults"]], "invocations": spec["invocations"],
                    "read_fault": spec["read_fault"]}
        return o

    def shrink(self, spec, v):
        inv = v["extra"].get("invocation")
        if inv and spec["invocations"] != [inv]:
            c = dict(spec)
            c["invocations"] = [inv]
            yield c
        if spec.get("read_fault"):
            c = dict(spec)
            c["read_fault"] = None
            yield c
        faults = spec["faults"] if spec["faults"] is not None else v["extra"].get("faults") or []
        if spec["state"] in ("faults", "journal+faults"):
            for i in range(len(faults)):
                c = dict(spec)
                c["faults"] = faults[:i] + faults[i + 1:]
                yield c


def _brief(d):
    s = str(d)
    return s if len(s) < 400 else s[:400] + "..."


if __name__ == "__main__":
    main(C13)
