"""Registry of the checks that are claimed.  tools/genmanifest.py turns this into MANIFEST.json."""

HOOK_COMMITS = []

NOT_APPLICABLE = {
    "C16": ("not applicable to deterministic simulation: the bitmap backends are pure in-memory data "
            "structures with no I/O, clock, thread, crash point or fault for a simulator to control; the "
            "property is a function of the operation history alone (DESIGN.md section 4)"),
}

CHECKS = {}
