"""Registry of the checks that are claimed.  tools/genmanifest.py turns this into MANIFEST.json."""

HOOK_COMMITS = []

NOT_APPLICABLE = {
    "C16": ("not applicable to deterministic simulation: the bitmap backends are pure in-memory data "
            "structures with no I/O, clock, thread, crash point or fault for a simulator to control; the "
            "property is a function of the operation history alone (DESIGN.md section 4)"),
}

CHECKS = {
    "C13": {
        "level": "exploration",
        "technique": "deterministic simulation: write monitor on the simulated disk over seeded image states and injected read faults",
        "text": ("Every documented read-only invocation (e2fsck -n/-fn/-b, debugfs and debugfs -c command batteries, dumpe2fs "
                 "variants, tune2fs -l, resize2fs -P, e2image in four modes, e2freefrag, mke2fs -n, e2undo -n) is run against "
                 "seeded image states produced inside the simulation (clean, unrecovered journal, orphan list, MMP in use, "
                 "power-loss crash of a writer with lost/torn in-flight writes, structure-addressed media faults), optionally "
                 "with EIO/short/bad-sector/truncated-device read faults while it runs.  The oracle is exact: zero mutating "
                 "device events in the event log and an identical image hash.  Sampling, not proof."),
        "note": ("Trusted: the link-time shim sees every device write made by /repo's objects (libc calls made from inside "
                 "system libraries are not redirected; libblkid only reads).  Images <= 32 MiB, 1k-4k blocks."),
    },
}
