"""Registry of the checks that are claimed.  tools/genmanifest.py turns this into MANIFEST.json."""

HOOK_COMMITS = []

NOT_APPLICABLE = {
    "C16": ("not applicable to deterministic simulation: the bitmap backends are pure in-memory data "
            "structures with no I/O, clock, thread, crash point or fault for a simulator to control; the "
            "property is a function of the operation history alone (DESIGN.md section 4)"),
}

CHECKS = {
    "C13": {
        "level": "exploration",
        "technique": "deterministic simulation: write monitor on the simulated disk over seeded image states and injected read faults",
        "text": ("Every documented read-only invocation (e2fsck -n/-fn/-b, debugfs and debugfs -c command batteries, dumpe2fs "
                 "variants, tune2fs -l, resize2fs -P, e2image in four modes, e2freefrag, mke2fs -n, e2undo -n) is run against "
                 "seeded image states produced inside the simulation (clean, unrecovered journal, orphan list, MMP in use, "
                 "power-loss crash of a writer with lost/torn in-flight writes, structure-addressed media faults), optionally "
                 "with EIO/short/bad-sector/truncated-device read faults while it runs.  The oracle is exact: zero mutating "
                 "device events in the event log and an identical image hash.  Sampling, not proof."),
        "note": ("Trusted: the link-time shim sees every device write made by /repo's objects (libc calls made from inside "
                 "system libraries are not redirected; libblkid only reads).  Images <= 32 MiB, 1k-4k blocks."),
    },
}

SIM = "deterministic simulation with fault injection: "

CHECKS.update({
    "C01": {
        "level": "exploration",
        "technique": SIM + "seeded worlds, crashed writers (power-loss subsets, torn writes) and structure-addressed media faults; bounded liveness: one repair run after faults stop must converge",
        "text": ("Seeded populated filesystems are driven into damaged states inside the simulation: a writer (debugfs script, e2fsck -D, "
                 "tune2fs, resize2fs) is crashed at a seeded device event and the disk is rebuilt under the power-loss model (subset of "
                 "in-flight writes kept, torn sectors), or 1-4 at-rest media faults are placed by structure (superblock, descriptor, "
                 "bitmap, inode, extent/indirect, directory, htree, xattr fields; sectors; with or without re-sealed checksums).  Then "
                 "e2fsck -fy; if its status claims success, e2fsck -fn must exit 0 with an empty problem log.  Genuine non-convergent "
                 "classes of the pinned tree are listed in KNOWN_FINDINGS.jsonl by class key; every other class is a violation.  Sampling.  A recurrence (the same problem code on the same object that the first run answered yes to) is keyed apart from follow-on problems; the listed families are bounded by follow-on problem code (DESIGN.md section 11)."),
        "note": "Trusted: shim event log and crash-state reconstruction; the problem log (E2FSCK_CONFIG problem_log_filename) as the witness of 'reports no problem'. Images <= 32 MiB.",
    },
    "C02": {
        "level": "exploration",
        "technique": SIM + "fault-produced images judged by e2fsck -fn and by an independent reader/checker (refext4) written from the on-disk format",
        "text": ("On images produced by the simulator (clean worlds, crashed writers, structure-addressed faults with re-sealed checksums -- "
                 "the kind a symmetric library bug would write) the implication 'e2fsck -fn exits 0 => the independent checker finds no "
                 "violated invariant' is evaluated; the checker covers block ranges/ownership, bitmaps and group counts, link counts and "
                 "reachability, extent trees, directory blocks, htree, and every metadata checksum, and is deliberately no stricter.  Sampling."),
        "note": "Trusted: ref/refext4.py (own parser, own CRCs, calibrated to zero complaints on every clean world and every clean image of /repo/tests).",
    },
    "C03": {
        "level": "exploration",
        "technique": SIM + "independent JBD2 log writer crashed at any block (missing/stale/torn suffix, wrap, every tag format), real recovery by both front-ends compared with an executable reference model",
        "text": ("An independent model writer lays down 1-12 transactions (data, escape, revoke, several descriptor blocks, wrap, 32/64-bit x "
                 "none/v1/v2/v3 checksums x async commit) and stops like a crashed kernel would (commit missing, blocks of the last "
                 "transaction lost or torn, stale laps behind the head); separate configuration: bit rot in the committed region.  Replay by "
                 "e2fsck -E journal_only and by debugfs jr must leave every block equal to the reference model's expectation, every other "
                 "block untouched, the journal empty, needs_recovery clear, and both front-ends byte-identical outside time fields.  Sampling."),
        "note": "Trusted: ref/jbd2model.py (writer and expected_blocks) -- shares no code with recovery.c. Block-image journals only (no fast commit).",
    },
    "C04": {
        "level": "fault_enumeration",
        "technique": SIM + "every device event of the real recovery process is a crash point (kill model exhaustive; power-loss model with sampled subsets of unflushed writes, torn writes, nested crashes), re-run and compare with the reference model",
        "text": ("For each sampled journal world the recovery process (e2fsck or debugfs, internal or external journal) is interrupted after "
                 "every prefix of its device events; under the power model the writes after the last completed fsync are kept in seeded "
                 "subsets (none/all/drop-one/keep-one/keep-last/random, optionally torn).  On every crash state the durability-ordering "
                 "invariant is evaluated (journal marked empty or needs_recovery clear => every expected block already durable) and recovery "
                 "is re-run and compared with the uninterrupted result.  Exhaustive over crash points per run, sampled over journals and subsets."),
        "note": "Trusted: simdisk barrier model (a write is durable once an fsync on that device completed; no reordering across a barrier). One listed finding: the superblock word-series rewrite is not atomic.",
    },
    "C05": {
        "level": "exploration",
        "technique": SIM + "repairing e2fsck modes on workload-built filesystems, healthy or with faults confined to allocation summaries and checksum fields; tree digest by the independent reader before/after",
        "text": ("Every repairing mode (-fp, -fy, -fyD, -fy -E bmap2extent, -fy -E fixes_only) runs on seeded populated filesystems (large and "
                 "indexed directories, all mapping types, xattr placements), healthy or damaged only in bitmaps, free/used counts, descriptor "
                 "flags, itable_unused and checksum fields.  Exit status must be 0/1, the independent reader's tree digest (path, type, "
                 "content hash, size, mode, owner, links, target, xattrs) must be unchanged, and after damage e2fsck -fn must be clean.  Sampling."),
        "note": "Trusted: ref/refext4.py tree_digest(); lost+found and directory sizes are outside the digest.",
    },
    "C06": {
        "level": "exploration",
        "technique": SIM + "every tool and mode under ASan/UBSan-bounds on fault-produced images, undo files and qcow2 files, with a simulated-step budget as the hang oracle",
        "text": ("e2fsck -n/-p/-y, debugfs read-only batteries, dumpe2fs, tune2fs -l, resize2fs -P, e2image, e2undo, e2freefrag run on the "
                 "simulator's fault images (structure-addressed, raw sector, truncated device), on damaged undo files and qcow2 images.  "
                 "Oracle: no sanitizer report, no fatal signal, termination within the device-event budget and CPU limit, documented exit "
                 "status.  Findings are keyed by (tool+mode, error kind, innermost /repo frame).  Sampling of an unbounded input space.  Also fast-commit areas written by an independent writer and then damaged (record lengths, tags, limits; tail checksums re-sealed), undo files damaged by structure, and a share of states aimed at the superblock's geometry fields; e2fsck's own 'Signal (N)' report counts as a fatal signal."),
        "note": "Trusted: ASan/UBSan(bounds) runtimes; allocator_may_return_null so that absurd sizes read from the image take the ENOMEM path.",
    },
    "C07": {
        "level": "exploration",
        "technique": SIM + "mke2fs option swarm on a simulated device (zero/poison content, write monitor for -n); reproducibility decided by re-running under a different simulated clock and random stream",
        "text": ("Seeded mke2fs command lines (block/cluster/inode size, -i/-N, feature subsets, journal, -g/-G, -E resize/stride/offset/"
                 "num_backup_sb/packed_meta_blocks/root_owner, -m, -d tree, boundary sizes).  Accepted => e2fsck -fn clean, independent checker "
                 "clean, requested geometry/features present, backups exactly where the format rule puts them; mke2fs -n issues zero "
                 "mutating device events; the same command under another clock and PRNG stream yields identical bytes.  Sampling."),
        "note": "Trusted: simclock/simrand cover every time and randomness source the tools reach through libc; MKE2FS_CONFIG=/dev/null.",
    },
    "C09": {
        "level": "exploration",
        "technique": SIM + "seeded file-I/O histories through libext2fs on a poisoned simulated device against a byte-array reference model; separate configurations for a full filesystem and for injected EIO/short transfers",
        "text": ("A harness driver executes seeded histories of write/read/set_size/punch/fallocate/flush/reopen on files of each mapping type "
                 "(extent, block-map, bigalloc, inline) with offsets biased to block, cluster, indirect-level and extent-leaf boundaries.  "
                 "Every read must equal the model (data, zeros in holes and uninit ranges, exact length), other files stay untouched, after "
                 "close the independent reader sees the same bytes and e2fsck -fn is clean; under ENOSPC/EIO only the documented relaxations apply.  Sampling."),
        "note": "Trusted: filemodel in checks/C09.py; FORCE_INIT without ZERO_BLOCKS ranges are 'unknown' in the model by design.",
    },
    "C12": {
        "level": "exploration",
        "technique": SIM + "chains of recording tools on a simulated device and undo file; the last recorder killed at a seeded device event, single-bit rot of the undo file by region, wrong device/order, write monitor for refusals and -n",
        "text": ("Chains of 1-4 runs of mke2fs/tune2fs/resize2fs/e2fsck/debugfs -w/e2undo with -z (own files or one appended file, regular file or "
                 "block-device personality), then e2undo in reverse: the device must equal the recorded pre-image byte for byte over its original "
                 "length.  Fault configurations: recorder killed at a seeded event (every block an independent parse finds recorded must be "
                 "restored, a refusal must not write, an unfinished file must mark the fs); one flipped bit per undo-file region (refuse with "
                 "zero mutating events, or exact result); wrong filesystem / wrong order (refuse without writing); -n (zero mutating events).  Sampling.  Kill mode has a write-ahead clause: after an accepted replay of a killed run's undo file the whole device is back (apart from what e2undo itself rewrites)."),
        "note": "Trusted: independent undo-file parser in checks/C12.py; kill model = bytes handed to write(2) survive, tool caches do not.",
    },
    "C17": {
        "level": "exploration",
        "technique": SIM + "io_channel histories on the simulated device against a block-device model with injected EIO/short/ENOSPC/fsync failures; threaded bitmap loading under the seeded scheduler compared with single-threaded loading, TSan flavour for the race clause",
        "text": ("h_iochan executes seeded histories of read/write (block and byte granular, 1-12 blocks), write_byte, zeroout, discard, readahead, "
                 "set_blksize, flush, reopen on channel configurations {cached, cache=off, write-through, bounce, offset, undo-wrapped}; every read "
                 "equals the model, after flush/close the backing file equals the model and a barrier follows the last write, an injected write "
                 "failure is reported before success is claimed.  h_rwbitmaps loads bitmaps with 1..16 simulated CPUs under seeded interleavings; "
                 "bitmaps, tail flags and return code must equal the single-thread result.  Sampling of schedules and histories.  After every flush that reports success a snapshot of the backing file is compared with the model (strictly, as long as no operation has reported an error); injected write errors last for 1, 3 or all later writes."),
        "note": "Trusted: blkdevmodel in checks/C17.py; simsched serialises real pthreads at I/O and pthread calls. The race clause needs the tsan flavour (clang); if it cannot be built the evidence says so.",
    },
    "C20": {
        "level": "exploration",
        "technique": SIM + "targeted media fault on the primary superblock and descriptors after each geometry-changing tool; recovery through every backup location compared by tree digest",
        "text": ("After mke2fs and optionally resize2fs, tune2fs or a repairing e2fsck on a populated filesystem: the groups holding a superblock "
                 "copy must equal the format rule computed by the independent reader; each copy must agree with the primary in counts, "
                 "feature words, UUID and geometry; with the primary superblock and all primary descriptor blocks zeroed or overwritten with "
                 "noise, e2fsck -fy -b <loc> -B <bs> for each backup (and plain e2fsck with the default group size) must end without "
                 "uncorrected/operational bits, e2fsck -fn must then be clean and the tree digest unchanged.  Sampling."),
        "note": "Trusted: ref/refext4.py backup_groups()/fixed_metadata()/tree_digest().",
    },
})

CHECKS.update({
    "C08": {
        "level": "exploration",
        "technique": SIM + "resize2fs on seeded populated filesystems with its complete device event log turned into crash states (every kill-model prefix, seeded power-loss subsets per fsync epoch) for the 'has errors' flag clause; tree digest and independent checker for the data clauses",
        "text": ("Seeded populated filesystems (flex_bg/meta_bg/resize_inode/bigalloc/32-64bit, 1k-4k blocks; worlds with few inodes per group "
                 "thinned so that live inodes and inline directories sit in high groups; nearly full worlds; forced shrinks to the minimum) are "
                 "resized (grow, shrink, -M, -b, -s).  Success => reported size equals the superblock, e2fsck -fn and the independent checker are "
                 "clean, the tree digest is unchanged; refusal => not a byte of the filesystem changed.  Flag clause: for every kill-model prefix "
                 "of the run's device events and for seeded subsets of the writes in flight between two completed fsyncs, the device equals the "
                 "pre-image or the final image outside the primary superblock, or the on-disk primary superblock carries EXT2_ERROR_FS.  Sampling."),
        "note": "Trusted: simdisk barrier model; ref/refext4.py. The final word-by-word rewrite of the primary superblock is excluded from the crash-state comparison (it is 'the final rewrite' of the statement).",
    },
    "C10": {
        "level": "exploration",
        "technique": SIM + "seeded namespace histories through debugfs/libext2fs in batches interleaved with e2fsck -fyD, against a namespace reference model; listing, types, link counts, content and htree hash ranges by the independent reader; conservation of inodes and blocks after cleanup",
        "text": ("Histories of 40-900 mkdir/write/symlink/mknod/ln/unlink/rm/rmdir commands (legal ones and ones that must be refused), names of "
                 "1-255 characters, concentrated on directories that grow from empty through linear, one- and two-level htree and shrink again, "
                 "with e2fsck -fyD between batches.  After every batch the independent reader's listing must equal the model (names, types, link "
                 "counts, content, targets, device numbers), directory blocks and hash ranges must be well formed, e2fsck -fn must be clean when "
                 "the model says link counts and references agree; after removing everything the free inode and block counts return to the start "
                 "values (minus blocks surviving directories keep).  Sampling."),
        "note": "Trusted: namespace model in checks/C10.py (mirrors the documented semantics of debugfs ln/unlink/rm/rmdir); ref/refext4.py dirhash and directory parser.",
    },
})

CHECKS.update({
    "C11": {
        "level": "exploration",
        "technique": SIM + "sequences of tune2fs requests on seeded populated filesystems with the simulated clock advanced, moved far ahead or jumped backwards between the steps; requested setting, collateral settings, tree digest and every checksum judged by the independent reader, consistency by e2fsck -fn",
        "text": ("Sequences of 1-5 tune2fs requests (metadata_csum, uninit_bg, journal add/remove, quota/project quota, extents, csum seed, UUID, "
                 "inode size, flag-style features, label, reserved blocks, error behaviour, counts and intervals, mount options, RAID hints, hash "
                 "algorithm) run on seeded populated filesystems.  For each accepted request: the requested setting is in effect, every other "
                 "setting of the list and every unrelated feature bit keeps its value, the tree digest is unchanged, and -- directly, or after the "
                 "e2fsck -fy that tune2fs asked for has exited 0/1 -- e2fsck -fn is clean and the independent checker verifies every checksum "
                 "under the new seed/UUID.  Refused requests are counted and what they leave behind is measured, not judged.  Sampling."),
        "note": "Trusted: ref/refext4.py; simclock feeds every time source tune2fs and e2fsck reach (s_lastcheck/s_mtime comparisons).",
    },
})

CHECKS.update({
    "C14": {
        "level": "exploration",
        "technique": SIM + "writer chains on the simulated disk with every checksum recomputed by an independent implementation after each step (incl. an independent JBD2 checksum verifier for what the debugfs journal writer logs); stored-byte faults at sampled covered offsets of every object type, judged through the library API (harness) and e2fsck -fn",
        "text": ("written: after every step of seeded chains (mke2fs, debugfs population/removals, tune2fs re-keying, resize2fs with inode renumbering, "
                 "e2fsck -fyD, the debugfs journal writer with escaped blocks and revokes) the independent reader recomputes the checksum of every "
                 "superblock, descriptor, bitmap, inode, extent block, directory leaf/index block, xattr block, MMP block and of the journal "
                 "superblock/descriptor/tag/commit/revoke blocks.  detect: one bit of a byte in the format-defined covered range of a sampled object "
                 "of each type is flipped; the library API reading that object must return an error and e2fsck -fn must exit non-zero.  The "
                 "CRC-primitive sentence is a pure function and not a simulation target.  Sampling."),
        "note": "Trusted: ref/refext4.py (own CRC tables generated from the polynomials), the JBD2 verifier in checks/C14.py. Stored-byte faults in descriptor/commit/revoke blocks of an unrecovered journal are C03's rot configuration (only replay reads them).",
    },
    "C19": {
        "level": "exploration",
        "technique": SIM + "e2image with the source as a write-monitored simulated device and the image as a second one (short write / ENOSPC / EIO injected on the output); per-block comparison over the metadata set enumerated by the independent reader, qcow2 round trip, e2fsck/dumpe2fs equality",
        "text": ("Seeded populated filesystems (xattr blocks also on objects without data blocks, deep extent trees, indexed directories; clean, with "
                 "an unrecovered journal or an orphan; ordinary or many-group geometries that overflow the qcow2 L2-table cache) are imaged with "
                 "e2image -r, -Q, -Q then -r, and -ra.  The source sees zero mutating events; every block of the independently computed metadata set "
                 "is byte-identical in the raw image; qcow2 -> raw equals the direct raw image; e2fsck -fn and dumpe2fs give the same results on image "
                 "and source; the all-data image has the same tree digest and differs only in blocks nothing owns; an output write failure ends in a "
                 "non-zero status.  Sampling.  The all-data flavour of the round trip (-Qa, then -r) is compared with the -ra image as well."),
        "note": "Trusted: ref/refext4.py owner_map(); the metadata set demanded is a subset of what e2image documents to copy.",
    },
})

CHECKS.update({
    "C15": {
        "level": "exploration",
        "technique": SIM + "seeded xattr histories through debugfs/libext2fs in batches against a name->value reference model; read-back by the library and by the independent reader (inode body, xattr block, value inodes), kernel hash and order rules recomputed from the format, conservation of blocks and inodes after cleanup; separate nearly-full configuration",
        "text": ("Histories of 20-300 ea_set / replace / ea_rm operations on regular files, a directory, an inline-data file and a fifo, with names in "
                 "four namespaces and values from 0 bytes to several blocks (value inodes with ea_inode), inode sizes 128-1024.  After every batch: "
                 "ea_list / ea_get and the independent parser both equal the model; e_hash of block and value-inode entries, the value inode's crc32c "
                 "hash under the filesystem's seed and the sort order of block entries equal what the format defines; e2fsck -fn is clean; after "
                 "removing everything the free block and inode counts are back where they started.  Sampling."),
        "note": "Trusted: per-command outcome parsed from debugfs's own messages (a refused set leaves the model unchanged); ref/refext4.py xattr parser.",
    },
})

CHECKS.update({
    "C18": {
        "level": "exploration",
        "technique": SIM + "mke2fs -d on a seeded host tree with the simulated source-file layer injecting short reads and refusing SEEK_DATA / FIEMAP; image compared with an lstat walk of the source by the independent reader; reproducibility under another simulated clock and random stream; debugfs rdump compared with the source",
        "text": ("Seeded host trees (nested directories, files from empty to multi-extent, sparse files with aligned and unaligned holes, short and long "
                 "symlinks, hard-link groups, fifos, sockets, device nodes, every permission bit, owners up to 100000, mtimes 1970-2038, user "
                 "xattrs) are stored with mke2fs -d.  The independent reader's view must equal the source in names, types, sizes, content hashes, "
                 "targets, link groups, modes, owners, mtimes, device numbers and xattrs, source holes stay unmapped, e2fsck -fn is clean; a second "
                 "build under another simulated clock and random stream is byte-identical; debugfs rdump returns the same names, bytes, targets, "
                 "rwx bits and owners.  Source reads are normal, short (legal for read(2)), or without SEEK_DATA / FIEMAP.  Sampling."),
        "note": "Trusted: the orchestrator's own lstat/read/SEEK_HOLE walk of the source; ref/refext4.py. The hole oracle is one-directional (zero blocks may become holes by design).",
    },
})
