#!/usr/bin/env python3
"""C11 — tune2fs conversions preserve data and consistency.

World: seeded populated filesystem, settled and clean.  A sequence of 1-5 tune2fs requests taken from
the statement's list runs under the simulator; the simulated clock advances between the steps (one
sub-mode jumps it backwards, another moves it past the check interval).  After each request:

  success  the requested setting is in effect (read by the independent reader), every *other* setting
           of the list keeps its value, the tree digest is unchanged, and the filesystem is consistent:
           directly (e2fsck -fn exits 0, independent checker clean, all checksums valid under the new
           seed/UUID) or -- when tune2fs asks for a follow-up e2fsck -- after `e2fsck -fy` has exited
           0 or 1.
  refusal  (non-zero status) is outside the statement: what it leaves behind is measured and reported as an
           observation, never as a violation.
"""
import hashlib
import os
import re

import refext4
from digest import brief, diff_trees
from framework import Check, Outcome, main
from simcore import Plan, Rng, log_hash, run_sim, tool
from world import build_world, e2fsck, gen_config

# ---------------------------------------------------------------------------------- requests
# (id, argv builder(cfg, feats, rng) -> list or None when not applicable, expectation(sb0, sb1, fs1) -> error or None,
#  set of setting names it may change)
SETTINGS = {
    "label": lambda sb: sb["s_volume_name"], "uuid": lambda sb: sb["s_uuid"], "max_mnt": lambda sb: sb["s_max_mnt_count"],
    "interval": lambda sb: sb["s_checkinterval"], "errors": lambda sb: sb["s_errors"],
    "rblocks": lambda sb: (sb["s_r_blocks_count_lo"], sb["s_r_blocks_count_hi"]), "resuid": lambda sb: sb["s_def_resuid"],
    "resgid": lambda sb: sb["s_def_resgid"], "mntopts": lambda sb: sb["s_default_mount_opts"], "inode_size": lambda sb: sb["s_inode_size"],
    "stride": lambda sb: (sb["s_raid_stride"], sb["s_raid_stripe_width"]), "extmnt": lambda sb: sb["s_mount_opts"],
    "hashalg": lambda sb: sb["s_def_hash_version"], "lastmnt": lambda sb: sb["s_last_mounted"],
    "geometry": lambda sb: (sb["s_inodes_count"], sb["s_blocks_count_lo"], sb["s_blocks_count_hi"], sb["s_log_block_size"],
                            sb["s_blocks_per_group"], sb["s_inodes_per_group"], sb["s_first_data_block"], sb["s_magic"]),
}
FEATURE_WORDS = ("s_feature_compat", "s_feature_incompat", "s_feature_ro_compat")


def has(sb, name):
    kind, bit = refext4._FEATURES[name]
    return bool(sb[{"c": "s_feature_compat", "i": "s_feature_incompat", "r": "s_feature_ro_compat"}[kind]] & bit)


def feat_req(name, on, side=()):
    """-O [^]name; `side` = other features tune2fs documents to change with it"""
    def argv(cfg, feats, rng):
        if (name in feats) == on:
            return None
        return ["-O", ("" if on else "^") + name]

    def expect(sb0, sb1, fs1):
        if has(sb1, name) != on:
            return "feature %s is %s after a successful `tune2fs -O %s%s`" % (name, "off" if on else "still on", "" if on else "^", name)
        return None
    return argv, expect, set(["feature:" + name] + ["feature:" + s for s in side])


def gen_requests():
    R = {}
    R["csum_on"] = feat_req("metadata_csum", True, side=("uninit_bg", "gdt_csum", "metadata_csum_seed"))
    R["csum_off"] = feat_req("metadata_csum", False, side=("uninit_bg", "gdt_csum", "metadata_csum_seed"))
    a_, e_, m_ = feat_req("uninit_bg", True, side=("metadata_csum",))
    # (group descriptor checksums are part of metadata_csum: on such a filesystem the request is accepted and is a no-op)
    R["uninit_on"] = (lambda cfg, feats, rng: None if "metadata_csum" in feats else a_(cfg, feats, rng), e_, m_)
    R["uninit_off"] = feat_req("uninit_bg", False)
    R["journal_off"] = feat_req("has_journal", False, side=("needs_recovery", "orphan_file", "orphan_present"))
    R["quota_on"] = feat_req("quota", True)
    R["quota_off"] = feat_req("quota", False, side=("project",))
    R["project_on"] = feat_req("project", True, side=("quota",))
    R["extent_on"] = feat_req("extent", True)
    R["seed_on"] = feat_req("metadata_csum_seed", True)
    R["seed_off"] = feat_req("metadata_csum_seed", False)
    R["huge_on"] = feat_req("huge_file", True)
    R["huge_off"] = feat_req("huge_file", False)
    R["dirnlink_on"] = feat_req("dir_nlink", True)
    R["dirnlink_off"] = feat_req("dir_nlink", False)
    R["largefile_on"] = feat_req("large_file", True)
    R["dirindex_on"] = feat_req("dir_index", True)
    R["dirindex_off"] = feat_req("dir_index", False)
    R["filetype_on"] = feat_req("filetype", True)
    R["filetype_off"] = feat_req("filetype", False)
    R["flexbg_off"] = feat_req("flex_bg", False)
    R["largedir_on"] = feat_req("large_dir", True)
    R["eainode_on"] = feat_req("ea_inode", True)
    R["extattr_on"] = feat_req("ext_attr", True)
    R["sparse_on"] = feat_req("sparse_super", True)
    R["resize_off"] = feat_req("resize_inode", False)

    def simple(opt, valgen, setting, reader):
        def argv(cfg, feats, rng):
            v = valgen(rng, cfg)
            return [opt, str(v[0])] + ["#want", v[1]] if False else [opt, str(v[0]), v[1]]

        return argv, reader, {setting}

    def mk(opt, gen, setting, check):
        """gen(rng, cfg) -> (argument string, expected value); check(sb1, expected) -> bool"""
        state = {}

        def argv(cfg, feats, rng):
            a, want = gen(rng, cfg)
            state["want"] = want
            return opt + [a] if isinstance(opt, list) else [opt, a]

        def expect(sb0, sb1, fs1):
            if not check(sb1, state.get("want")):
                return "%s: expected %r, the superblock has %r" % (setting, state.get("want"), SETTINGS[setting](sb1))
            return None
        return argv, expect, {setting}

    R["label"] = mk("-L", lambda r, c: (lambda s: (s, s.encode().ljust(16, b"\0")))("L%d" % r.below(10 ** 9)), "label",
                    lambda sb, w: sb["s_volume_name"] == w)
    R["maxmnt"] = mk("-c", lambda r, c: (lambda n: (str(n), n))(r.range(1, 200)), "max_mnt", lambda sb, w: sb["s_max_mnt_count"] == w)
    R["interval"] = mk("-i", lambda r, c: (lambda n: ("%dd" % n, n * 86400))(r.range(1, 300)), "interval", lambda sb, w: sb["s_checkinterval"] == w)
    R["errors"] = mk("-e", lambda r, c: (lambda k: (k, {"continue": 1, "remount-ro": 2, "panic": 3}[k]))(r.choice(["continue", "remount-ro", "panic"])),
                     "errors", lambda sb, w: sb["s_errors"] == w)
    R["rblocks"] = mk("-r", lambda r, c: (lambda n: (str(n), n))(r.range(0, 300)), "rblocks", lambda sb, w: sb["s_r_blocks_count_lo"] == w)
    R["rpercent"] = mk("-m", lambda r, c: (lambda n: (str(n), n))(r.choice([0, 1, 2, 5, 10])), "rblocks", lambda sb, w: True)
    R["resuid"] = mk("-u", lambda r, c: (lambda n: (str(n), n))(r.range(0, 60000)), "resuid", lambda sb, w: sb["s_def_resuid"] == w)
    R["resgid"] = mk("-g", lambda r, c: (lambda n: (str(n), n))(r.range(0, 60000)), "resgid", lambda sb, w: sb["s_def_resgid"] == w)
    R["mntopts"] = mk("-o", lambda r, c: (lambda k: (k, k))(r.choice(["acl", "user_xattr", "^acl", "journal_data_writeback", "nobarrier", "discard"])),
                      "mntopts", lambda sb, w: True)
    R["stride"] = mk("-E", lambda r, c: (lambda s: ("stride=%d,stripe_width=%d" % (s, s * 2), (s, s * 2)))(r.choice([1, 2, 4, 16])), "stride",
                     lambda sb, w: (sb["s_raid_stride"], sb["s_raid_stripe_width"]) == w)
    R["extmnt"] = mk("-E", lambda r, c: ("mount_opts=data=ordered", b"data=ordered"), "extmnt", lambda sb, w: sb["s_mount_opts"].rstrip(b"\0") == w)
    R["hashalg"] = mk("-E", lambda r, c: (lambda k: ("hash_alg=" + k, {"legacy": 0, "half_md4": 1, "tea": 2}[k]))(r.choice(["legacy", "half_md4", "tea"])),
                      "hashalg", lambda sb, w: sb["s_def_hash_version"] == w)
    R["lastmnt"] = mk("-M", lambda r, c: ("/mnt/x%d" % r.below(1000),) * 2, "lastmnt", lambda sb, w: sb["s_last_mounted"].rstrip(b"\0") == w.encode())

    def uuid_argv(cfg, feats, rng):
        k = rng.choice(["random", "time", "clear", "11111111-2222-3333-4444-%012x" % rng.below(1 << 48)])
        uuid_state["k"] = k
        return ["-U", k]
    uuid_state = {}

    def uuid_expect(sb0, sb1, fs1):
        k = uuid_state.get("k")
        if k == "clear":
            return None if sb1["s_uuid"] == b"\0" * 16 else "UUID not cleared"
        if k not in ("random", "time"):
            want = bytes.fromhex(k.replace("-", ""))
            return None if sb1["s_uuid"] == want else "UUID is %s, asked for %s" % (sb1["s_uuid"].hex(), k)
        return None if sb1["s_uuid"] != sb0["s_uuid"] else "UUID unchanged after -U %s" % k
    R["uuid"] = (uuid_argv, uuid_expect, {"uuid", "feature:metadata_csum_seed"})

    def isize_argv(cfg, feats, rng):
        cur = cfg["_inode_size"]
        if cur >= 1024 or cur * 2 > cfg["bs"] or "flex_bg" in feats:
            return None
        isz_state["want"] = cur * 2
        return ["-I", str(cur * 2)]
    isz_state = {}

    def isize_expect(sb0, sb1, fs1):
        return None if sb1["s_inode_size"] == isz_state["want"] else "inode size is %d, asked for %d" % (sb1["s_inode_size"], isz_state["want"])
    R["inode_size"] = (isize_argv, isize_expect, {"inode_size", "feature:extra_isize"})

    def journal_on_argv(cfg, feats, rng):
        if "has_journal" in feats:
            return None
        return rng.choice([["-j"], ["-J", "size=%d" % max(1, cfg["bs"] // 1024)], ["-O", "has_journal"]])
    R["journal_on"] = (journal_on_argv, lambda sb0, sb1, fs1: None if has(sb1, "has_journal") else "no journal after tune2fs -j",
                       {"feature:has_journal"})

    def quota_q(cfg, feats, rng):
        return ["-Q", rng.choice(["usrquota", "grpquota", "^usrquota", "^grpquota", "usrquota,grpquota", "prjquota", "^prjquota"])]
    R["Qquota"] = (quota_q, lambda sb0, sb1, fs1: None, {"feature:quota", "feature:project"})
    return R


REQUESTS = gen_requests()


class C11(Check):
    pid = "C11"
    level = "exploration"
    rule = ("one case = (seeded populated filesystem) x a sequence of 1-5 tune2fs requests (metadata_csum, uninit_bg, journal add/remove, "
            "quota and project quota, extents, csum seed, UUID, inode size, huge_file/dir_nlink/large_file/dir_index/filetype/flex_bg-off/"
            "large_dir/ea_inode flags, label, reserved blocks, error behaviour, check counts and intervals, mount options, RAID hints, hash "
            "algorithm) x simulated clock advance / backward jump between steps.  Non-trivial = at least one request was accepted and "
            "changed the device; distinct = distinct (request sequence, feature set).")
    assumptions = ["'changes exactly the requested setting' is judged on the independent settings of the statement's list (label, UUID, counts, "
                   "intervals, error behaviour, reserved blocks, owners, mount options, inode size, RAID hints, hash algorithm, geometry) and "
                   "on the feature bits, with the side effects tune2fs documents for a request (e.g. metadata_csum replaces uninit_bg)",
                   "a request tune2fs refuses (wrong state, needs a fresh e2fsck after a backward clock jump, unsupported transition) is "
                   "counted, and only its 'changes nothing' clause is judged"]
    reference_models = ["ref/refext4.py superblock parse, tree_digest(), check() (every checksum under the new seed / UUID)"]

    def budget(self, tier):
        return {"runs": 1500, "wall_s": 90} if tier == "quick" else {"runs": 12000, "wall_s": 1500}

    def generate(self, rng, tier):
        cfg = gen_config(rng, avoid=("mmp",))
        if rng.chance(0.4):
            cfg["initial"] = rng.choice(["poison", "random"])
        if "flex_bg" not in cfg["features"] and rng.chance(0.3):
            # RAID stride: mke2fs staggers the bitmaps of successive groups, so they sit behind / between inode tables
            cfg["extra_eopts"] = ["stride=%d" % rng.choice([2, 4, 8, 16, 32])]
        n = rng.weighted([(1, 4), (2, 4), (3, 3), (4, 1), (5, 1)])
        reqs = [rng.choice(sorted(REQUESTS)) for _ in range(n)]
        return {"cfg": cfg, "world_seed": rng.u64(), "reqs": reqs, "req_seed": rng.u64(),
                "clock": rng.weighted([("advance", 6), ("backwards", 2), ("far", 2)]), "scale": rng.choice([0.6, 1.0, 1.5]),
                "deep": rng.chance(0.35),
                "fullnode": rng.choice([1, 1, 2]) if (cfg["bs"] == 1024 and rng.chance(0.3)) else 0}

    def execute(self, spec, wd):
        o = Outcome()
        rng = Rng(spec["world_seed"])
        cfg = spec["cfg"]
        w = build_world(rng, wd, cfg=dict(cfg), scale=spec["scale"], big_dir=rng.weighted([(0, 3), (rng.range(40, 250), 2)]),
                        deep_extents=spec.get("deep", False))
        if w["rejected"]:
            o.stats["world.rejected"] += 1
            o.trace = "rejected"
            return o
        img = w["img"]
        clock = 1500002000
        if spec.get("fullnode") and "dir_index" in cfg["features"] and "inline_data" not in cfg["features"]:
            # an indexed directory whose root holds exactly as many entries as it has room for: the boundary every
            # operation that makes room in index nodes (a checksum tail, a split) has to get right
            from world import debugfs_script
            bs_ = cfg["bs"]
            csum_ = "metadata_csum" in cfg["features"]
            limit = (bs_ - 32 - (8 if csum_ else 0)) // 8
            nlen = 200
            per_leaf = (bs_ - (12 if csum_ else 0)) // (8 + nlen)                   # how e2fsck -D packs 200-byte names
            want_leaves = limit - spec["fullnode"] + 1                              # fullnode 1: exactly full, 2: one short
            n = per_leaf * want_leaves
            if n * (8 + nlen) < cfg["size_kib"] * 1024 // 3 and n < 6000:
                hp = os.path.join(wd, "fullnode.host")
                with open(hp, "wb") as f:
                    f.write(b"x")
                cmds = ['mkdir /fulldir'] + ['write "%s" "/fulldir/%04d%s"' % (hp, i, "n" * (nlen - 4)) for i in range(n)]
                debugfs_script(img, cmds, wd, tag="full", rand_seed=11)
                e2fsck(img, ["-fyD"], wd, tag="fullD", problems=False, clock=clock)
                try:
                    fsx = refext4.RefFS(path=img)
                    for p_, rec in fsx.tree().items():
                        if p_ == b"/fulldir":
                            ht = fsx.htree(rec.inode)
                            for nd in (ht or {}).get("nodes", []):
                                lim = int.from_bytes(fsx.read_block(nd["pblk"])[nd["count_offset"]:nd["count_offset"] + 2], "little")
                                if nd["count"] == lim:
                                    o.stats["probe.full_index_node"] += 1
                                elif nd["count"] == lim - 1:
                                    o.stats["probe.index_node_one_short"] += 1
                except Exception as ex:
                    o.observations.append("full-node probe failed: %r" % ex)
        r0, c0 = e2fsck(img, ["-fn"], wd, tag="pre", clock=clock)
        if r0.status != 0 or c0:
            o.stats["world.not_clean"] += 1
            o.trace = "notclean"
            return o
        try:
            fs = refext4.RefFS(path=img)
            d0, recs0 = fs.tree_digest(include_mtime=False)
        except Exception as ex:
            o.observations.append("refext4 cannot read a clean world: %r" % ex)
            o.trace = "unreadable"
            return o
        try:
            rules0 = set((c.rule, c.detail) for c in fs.check())      # what the independent checker says before any request
        except Exception:
            rules0 = set()
        rrng = Rng(spec["req_seed"])
        traces = []
        feats0 = ",".join(cfg["features"])
        accepted = []
        for step, rid in enumerate(spec["reqs"]):
            argv_f, expect_f, may_change = REQUESTS[rid]
            sb0 = dict(fs.sb)
            cur_feats = set(f for f in refext4._FEATURES if has(sb0, f))
            c2 = dict(cfg)
            c2["_inode_size"] = sb0["s_inode_size"]
            c2["bs"] = fs.block_size
            args = argv_f(c2, cur_feats, rrng)
            if args is None:
                o.stats["skip.not_applicable"] += 1
                continue
            if spec["clock"] == "advance":
                clock += rrng.range(100, 100000)
            elif spec["clock"] == "backwards":
                clock += rrng.choice([1000, -50000, -3000000])
            else:
                clock += rrng.choice([86400 * 200, 86400 * 400])
            r = run_sim([tool("tune2fs")] + args + [img], Plan([img], None, clock=clock, rand_seed=rrng.u64() >> 1), wd, tag="t%d" % step,
                        keep_log=True, cpu_s=40)
            traces.append(log_hash(r.events))
            o.sim_us += r.sim_us
            o.evals += 1
            out = (r.out + r.err).decode("latin1")
            where = "step %d: tune2fs %s (status %s) after %s; clock mode %s; bs %d, features at start %s; %d objects" % (
                step + 1, " ".join(args), r.status, accepted or "nothing", spec["clock"], fs.block_size, feats0, len(recs0))
            o.stats["req.%s.status%s" % (rid, r.status)] += 1
            if r.san or r.signal or r.timeout:
                o.observations.append("tune2fs ended abnormally (%s) -- judged under C06: %s" % (r.brief(), where))
                break
            wants_fsck = bool(re.search(r"(run e2fsck|e2fsck -f|fsck is required|recommended to.*fsck)", out, re.I)) and r.status == 0
            if r.status == 0 and wants_fsck:
                rf, _c = e2fsck(img, ["-fy"], wd, tag="tf%d" % step, clock=clock + 10, problems=False, keep_log=True)
                traces.append(log_hash(rf.events))
                o.stats["probe.followup_fsck"] += 1
                if rf.status not in (0, 1) and not (rf.san or rf.signal or rf.timeout):
                    tail = "\n".join(l for l in rf.out.decode("latin1").splitlines() if l.strip())[-500:]
                    o.violate("%s|followup_fsck_status%s" % (rid, rf.status), "the e2fsck tune2fs asked for exits %s: %s\n%s" % (rf.status, where, tail),
                              skey="followup")
                    break
            try:
                fs1 = refext4.RefFS(path=img)
                d1, recs1 = fs1.tree_digest(include_mtime=False)
            except Exception as ex:
                o.violate("%s|unreadable" % rid, "the independent reader cannot read the result (%r): %s" % (ex, where), skey="unreadable")
                break
            sb1 = fs1.sb
            changed_dev = any(e.kind == "W" and (e.res or 0) > 0 for e in r.events)
            if r.status != 0:
                # The statement speaks about requests tune2fs accepts.  What a refused or failed run leaves behind is measured,
                # not judged; the history ends here when it left damage, because the next request needs a consistent start.
                o.stats["refused"] += 1
                rn, cn = e2fsck(img, ["-fn"], wd, tag="tr%d" % step, clock=clock + 100)
                if spec["clock"] == "backwards":
                    cn = [c for c in cn if c not in (0x31, 0x32, 0x3D, 0x3E)]
                if d1 != d0 or rn.status != 0 or cn:
                    o.stats["measure.refused_run_left_changes"] += 1
                    o.observations.append("measure-only: tune2fs %s exited %s and left %s" % (
                        " ".join(args), r.status, "changed files" if d1 != d0 else "an inconsistent filesystem (%s)" % ["%#x" % c for c in cn[:4]]))
                    break
                fs = fs1
                continue
            # ---- files unchanged
            if d1 != d0:
                df = diff_trees(recs0, recs1)
                if df:
                    fields = sorted(set(f for _p, f, _a, _b in df))
                    o.violate("%s|digest:%s|%s" % (rid, ",".join(fields[:3]), "ok" if r.status == 0 else "refused"),
                              "files changed: %s -- %s" % (brief(df), where), skey="digest")
                    break
            # ---- consistency (both clauses)
            rn, cn = e2fsck(img, ["-fn"], wd, tag="tn%d" % step, clock=clock + 100)
            o.evals += 1
            if spec["clock"] == "backwards":
                # "last mount/write time is in the future" is what the backward jump of the simulated clock itself produces
                cn = [c for c in cn if c not in (0x31, 0x32, 0x3D, 0x3E)]
            if (rn.status != 0 or cn) and not (rn.san or rn.signal or rn.timeout):
                tail = "\n".join(l for l in rn.out.decode("latin1").splitlines() if l.strip())[-600:]
                o.violate("%s|not_consistent|%s|fn:%s" % (rid, "ok" if r.status == 0 else "refused", ",".join("%x" % c for c in sorted(set(cn))[:4])),
                          "e2fsck -fn exits %s (problems %s): %s\n%s" % (rn.status, ["%#x" % c for c in sorted(set(cn))[:8]], where, tail),
                          skey="not_consistent")
                break
            try:
                comp = fs1.check()
            except Exception as ex:
                comp = []
                o.observations.append("refext4.check failed: %r" % ex)
            comp = [c for c in comp if (c.rule, c.detail) not in rules0]
            if comp:
                o.violate("%s|refext4|%s" % (rid, comp[0].rule), "independent checker complains (%d): %s -- %s" %
                          (len(comp), "; ".join("%s %s" % (c.rule, c.detail) for c in comp[:3]), where), skey="refext4")
                break
            # ---- the requested setting, and nothing else
            accepted.append(rid)
            if changed_dev:
                o.distinct.add("%s|%s" % ("+".join(accepted), feats0))
            err = expect_f(sb0, sb1, fs1)
            if err:
                o.violate("%s|not_in_effect" % rid, "%s: %s" % (err, where), skey="not_in_effect")
                break
            for name, rd in SETTINGS.items():
                if name in may_change:
                    continue
                if name == "uuid" and sb0["s_uuid"] == b"\0" * 16:
                    continue        # a filesystem without a UUID is given one by whichever tool opens it next (documented)
                if rid == "dirindex_on" and name == "hashalg" and rd(sb0) == 0:
                    # tune2fs treats s_def_hash_version 0 as "none chosen yet" and picks half_md4 when it turns
                    # dir_index on; every indexed directory records its own hash version, so nothing is reinterpreted
                    continue
                if rd(sb0) != rd(sb1):
                    o.violate("%s|collateral|%s" % (rid, name), "setting '%s' changed from %r to %r although only %s was requested: %s" %
                              (name, rd(sb0), rd(sb1), rid, where), skey="collateral")
                    break
            else:
                allowed = set(x.split(":", 1)[1] for x in may_change if x.startswith("feature:"))
                for f, (kind, bit) in refext4._FEATURES.items():
                    if f in ("extents", "gdt_csum", "largedir", "readonly", "csum_seed") or f in allowed:
                        continue
                    if any(refext4._FEATURES[a] == (kind, bit) for a in allowed if a in refext4._FEATURES):
                        continue
                    if has(sb0, f) != has(sb1, f) and f not in ("needs_recovery", "orphan_present", "large_file", "huge_file", "dir_nlink", "extra_isize"):
                        o.violate("%s|collateral|feature:%s" % (rid, f), "feature %s went %s although only %s was requested: %s" %
                                  (f, "on" if has(sb1, f) else "off", rid, where), skey="collateral")
                        break
                else:
                    fs = fs1
                    o.stats["probe.accepted_ok"] += 1
                    continue
            break
        if "bigalloc" in cfg["features"]:
            for v in o.violations:
                v.key += "|bigalloc"
        o.sample = {"requests": spec["reqs"], "accepted": accepted, "clock": spec["clock"], "features": feats0, "bs": cfg["bs"],
                    "objects": len(recs0)}
        o.trace = hashlib.sha256("".join(traces).encode()).hexdigest()
        return o

    def shrink(self, spec, v):
        reqs = spec["reqs"]
        if len(reqs) > 1:
            for i in range(len(reqs)):
                c = dict(spec)
                c["reqs"] = reqs[:i] + reqs[i + 1:]
                yield c
        if spec["clock"] != "advance":
            c = dict(spec)
            c["clock"] = "advance"
            yield c
        if spec["scale"] > 0.6:
            c = dict(spec)
            c["scale"] = 0.6
            yield c
        feats = spec["cfg"]["features"]
        for f in feats:
            c = dict(spec)
            c["cfg"] = dict(spec["cfg"])
            c["cfg"]["features"] = [x for x in feats if x != f]
            yield c


if __name__ == "__main__":
    main(C11)
