#!/usr/bin/env python3
"""C18 — populating from a directory tree is exact; extraction returns the same data.

A seeded host tree (nested directories, files from empty to multi-extent, sparse files with aligned and
unaligned holes, short and long symlinks, hard-link groups, fifos, sockets, device nodes, setuid /
sticky bits, random owners, mtimes between 1970 and 2038, user.* xattrs) is stored with `mke2fs -d`
under the simulator, whose source-file layer injects short reads, refuses SEEK_DATA/SEEK_HOLE or
refuses FIEMAP.

populate  the independent reader's view of the image equals an lstat() walk of the source in names,
          types, sizes, content hashes, symlink targets, hard-link groups, full permission bits,
          owners, whole-second mtimes, device numbers and user xattrs; every block-aligned hole of a
          source file is still unmapped; e2fsck -fn exits 0.
repro     a second build with the same UUID, hash seed and E2FSPROGS_FAKE_TIME but a different
          simulated clock and random stream is byte-identical.
extract   `debugfs rdump` of the image gives back, for every regular file, directory and symlink, the
          same names, bytes, lengths, link targets, rwx bits and owners.
"""
import hashlib
import os
import stat

import refext4
from framework import Check, Outcome, main
from simcore import Plan, Rng, log_hash, run_sim, tool
from world import NAME_CHARS, e2fsck, gen_config, gen_content, mkfs_argv

FAKE_TIME = 1400000000


def mkname(rng):
    n = rng.weighted([(rng.range(1, 10), 6), (rng.range(10, 60), 3), (rng.range(100, 250), 1)])
    s = "".join(NAME_CHARS[rng.below(len(NAME_CHARS))] for _ in range(n))
    return ("x" + s) if s in (".", "..") else s


def make_tree(rng, root, bs, xattrs_ok, budget_bytes, far=False):
    os.makedirs(root)
    dirs = [root]
    files = []
    nodes = []
    used = 0
    n = rng.range(4, 40)
    for _ in range(n):
        parent = rng.choice(dirs)
        name = mkname(rng)
        p = os.path.join(parent, name)
        if os.path.lexists(p) or len(p) > 3500:
            continue
        k = rng.weighted([("file", 10), ("sparse", 4), ("dir", 5), ("symlink", 4), ("hardlink", 3 if files else 0), ("fifo", 1), ("sock", 1),
                          ("chr", 1), ("blk", 1)])
        try:
            if k == "dir":
                os.mkdir(p)
                if p.count("/") - root.count("/") < 4:
                    dirs.append(p)
            elif k == "file":
                size = rng.weighted([(0, 1), (rng.range(1, 59), 2), (rng.range(60, bs), 2), (rng.range(bs, 20 * bs), 4), (rng.range(20 * bs, 200 * bs), 2)])
                size = min(size, max(0, budget_bytes - used))
                used += size
                with open(p, "wb") as f:
                    f.write(gen_content(rng, size)[:size])
                files.append(p)
            elif k == "sparse":
                with open(p, "wb") as f:
                    pos = 0
                    if far and rng.chance(0.5):
                        # data on both sides of 4 GiB (offsets that do not fit 32 bits)
                        far = False
                        pos = (1 << 32) - rng.choice([0, bs, 3 * bs, 100 * bs, (1 << 32) - 5 * bs]) if rng.chance(0.7) else (1 << 33) + 7 * bs
                    for _s in range(rng.range(1, 6)):
                        pos += rng.choice([bs, 4 * bs, 16 * bs, 3 * bs + 17, 65536, 100])
                        f.seek(pos)
                        ln = rng.choice([1, 100, bs, 2 * bs + 5, 5 * bs])
                        ln = min(ln, max(1, budget_bytes - used))
                        used += ln
                        f.write(rng.bytes(64) * (ln // 64) + rng.bytes(ln % 64))
                        pos += ln
                    if rng.chance(0.4):
                        f.truncate(pos + rng.choice([bs, 7 * bs, 12345]))      # a trailing hole
                files.append(p)
            elif k == "symlink":
                t = "".join(NAME_CHARS[rng.below(len(NAME_CHARS))] for _ in range(rng.weighted([(rng.range(1, 59), 4), (rng.range(60, 250), 3), (rng.range(250, 1000), 1)])))
                os.symlink(t, p)
            elif k == "hardlink":
                # (a link group can be of any non-directory type)
                os.link(rng.choice(files + nodes + nodes) if nodes else rng.choice(files), p, follow_symlinks=False)
            elif k == "fifo":
                os.mkfifo(p)
                nodes.append(p)
            elif k == "sock":
                os.mknod(p, stat.S_IFSOCK | 0o644)
                nodes.append(p)
            else:
                os.mknod(p, (stat.S_IFCHR if k == "chr" else stat.S_IFBLK) | 0o600, os.makedev(rng.below(256), rng.below(256)))
                nodes.append(p)
        except OSError:
            continue
    # attributes
    for dp, dn, fn in os.walk(root, topdown=False):
        for x in dn + fn:
            p = os.path.join(dp, x)
            st = os.lstat(p)
            try:
                if not stat.S_ISLNK(st.st_mode):
                    os.chmod(p, rng.choice([0o644, 0o600, 0o755, 0o4755, 0o2750, 0o1777, 0o000, 0o444, 0o7777]))
                if rng.chance(0.5):
                    os.lchown(p, rng.choice([0, 1, 1000, 65534, 70000, 100000]), rng.choice([0, 5, 1000, 65535, 99999]))
                if xattrs_ok and not stat.S_ISLNK(st.st_mode) and stat.S_ISREG(st.st_mode) | stat.S_ISDIR(st.st_mode) and rng.chance(0.35):
                    for _k in range(rng.range(1, 3)):
                        os.setxattr(p, "user." + mkname(rng)[:40], rng.bytes(rng.weighted([(rng.range(0, 40), 5), (rng.range(40, 300), 2)])),
                                    follow_symlinks=False)
            except OSError:
                pass
    return len(files)


def set_times(rng_seed, root):
    """deterministic mtimes in 1970..2038 and a fixed atime for every object (reading the source must not change what is built)"""
    r = Rng(rng_seed)
    for dp, dn, fn in os.walk(root, topdown=False):
        for x in sorted(dn + fn):
            p = os.path.join(dp, x)
            mt = r.choice([0, 1, 86400, 1000000000, 1400000000, 2000000000, 2147483647, r.below(2 ** 31)])
            try:
                os.utime(p, (1300000000, mt), follow_symlinks=False)
            except OSError:
                pass
    os.utime(root, (1300000000, 1300000000))


BIG = 1 << 28


def image_nz_digest(fs, inode):
    """the same digest from the image: mapped blocks in logical order, all-zero ones left out"""
    h = hashlib.sha256()
    bs = fs.block_size
    ext = [(l, p, n) for l, p, n, u in fs.extents(inode)[0] if not u]
    for l, p, n in sorted(ext):
        for k in range(n):
            blk = fs.read_block(p + k)
            if (l + k) * bs >= inode.size:
                break
            if (l + k + 1) * bs > inode.size:
                blk = blk[:inode.size - (l + k) * bs].ljust(bs, b"\0")
            if blk.strip(b"\0"):
                h.update(b"%d:" % (l + k) + blk)
    return "nz:" + h.hexdigest()


def walk_source(root, bs=1024):
    """{relative path: record} by lstat"""
    out = {}
    for dp, dn, fn in os.walk(root):
        for x in dn + fn:
            p = os.path.join(dp, x)
            rel = "/" + os.path.relpath(p, root)
            st = os.lstat(p)
            rec = {"type": stat.S_IFMT(st.st_mode), "mode": st.st_mode & 0o7777, "uid": st.st_uid, "gid": st.st_gid, "mtime": int(st.st_mtime),
                   "nlink": st.st_nlink, "ino": st.st_ino, "size": st.st_size}
            if stat.S_ISREG(st.st_mode):
                h = hashlib.sha256()
                with open(p, "rb") as f:
                    if st.st_size > BIG:
                        # too large to stream: (block number, bytes) of every block that is not all zero
                        pos = 0
                        while pos < st.st_size:
                            try:
                                ds = os.lseek(f.fileno(), pos, os.SEEK_DATA)
                            except OSError:
                                break
                            de = os.lseek(f.fileno(), ds, os.SEEK_HOLE)
                            b0 = ds // bs
                            f.seek(b0 * bs)
                            for bn in range(b0, (min(de, st.st_size) + bs - 1) // bs):
                                blk = f.read(bs).ljust(bs, b"\0")
                                if blk.strip(b"\0"):
                                    h.update(b"%d:" % bn + blk)
                            pos = de
                        rec["sha256"] = "nz:" + h.hexdigest()
                    else:
                        while True:
                            b = f.read(1 << 20)
                            if not b:
                                break
                            h.update(b)
                        rec["sha256"] = h.hexdigest()
                    holes = []
                    pos = 0
                    try:
                        while pos < st.st_size:
                            hs = os.lseek(f.fileno(), pos, os.SEEK_HOLE)
                            if hs >= st.st_size:
                                break
                            try:
                                he = os.lseek(f.fileno(), hs, os.SEEK_DATA)
                            except OSError:
                                he = st.st_size
                            holes.append((hs, he))
                            pos = he
                    except OSError:
                        pass
                    rec["holes"] = holes
            elif stat.S_ISLNK(st.st_mode):
                rec["target"] = os.readlink(p).encode()
            elif stat.S_ISCHR(st.st_mode) or stat.S_ISBLK(st.st_mode):
                rec["rdev"] = (os.major(st.st_rdev), os.minor(st.st_rdev))
            try:
                rec["xattrs"] = sorted((k.encode(), os.getxattr(p, k, follow_symlinks=False)) for k in os.listxattr(p, follow_symlinks=False)
                                       if k.startswith("user."))
            except OSError:
                rec["xattrs"] = []
            out[rel] = rec
    return out


class C18(Check):
    pid = "C18"
    level = "exploration"
    rule = ("one case = (seeded host tree of 4-40 objects: nested directories, files 0 bytes ... 200 blocks, sparse files, short/long symlinks, "
            "hard-link groups, fifos, sockets, device nodes, all permission bits, owners up to 100000, mtimes 1970-2038, user xattrs) x (feature "
            "set, block and inode size) x (source-read behaviour: normal | short reads | SEEK_DATA refused | FIEMAP refused) x (populate, "
            "repro, extract clauses).  Non-trivial = the tree holds >= 8 objects of >= 4 types; distinct = distinct (feature set, bs, type set, "
            "source-read behaviour).")
    assumptions = ["zero-filled blocks of a source file may become holes in the image (the copier skips them by design): the hole oracle is "
                   "one-directional -- a source hole must stay unmapped",
                   "xattrs are compared only on filesystems with ext_attr (mke2fs -d documents dropping them otherwise); the root directory's own "
                   "attributes are not compared",
                   "rdump restores regular files, directories and symlinks only (documented); hard links come out as separate files"]
    reference_models = ["lstat()/read()/SEEK_HOLE walk of the source tree by the orchestrator", "ref/refext4.py tree_digest() incl. hole map and xattrs"]

    def budget(self, tier):
        return {"runs": 2500, "wall_s": 80} if tier == "quick" else {"runs": 25000, "wall_s": 1500}

    def generate(self, rng, tier):
        cfg = gen_config(rng, avoid=("mmp", "quota", "project"))
        cfg["features"] = [f for f in cfg["features"] if f not in ("quota", "project")]
        cfg["size_kib"] = max(cfg["size_kib"], 8192)
        return {"cfg": cfg, "tree_seed": rng.u64(), "srcmode": rng.weighted([("normal", 5), ("short", 3), ("noseekdata", 1), ("nofiemap", 1)]),
                "short_a": rng.choice([1, 7, 511, 512, 1000, 4096, 65535]), "short_b": rng.choice([1, 2, 3]),
                "rand_a": rng.u64() >> 1, "rand_b": rng.u64() >> 1, "clock_a": 1500000000 + rng.below(10 ** 8), "clock_b": 1600000000 + rng.below(10 ** 8),
                "clauses": ["populate", "repro", "extract"]}

    def execute(self, spec, wd):
        o = Outcome()
        cfg = spec["cfg"]
        bs = cfg["bs"]
        rng = Rng(spec["tree_seed"])
        src = os.path.join(wd, "src")
        xattrs_ok = True
        try:
            probe = os.path.join(wd, "xprobe")
            open(probe, "w").close()
            os.setxattr(probe, "user.t", b"1")
        except OSError:
            xattrs_ok = False
        nfiles = make_tree(rng, src, bs, xattrs_ok, int(cfg["size_kib"] * 1024 * 0.4),
                           far=("extent" in cfg["features"] and "huge_file" in cfg["features"] and "large_file" in cfg["features"] and rng.chance(0.3)))
        set_times(spec["tree_seed"] ^ 0x7e, src)
        want = walk_source(src, bs)
        types = sorted(set(r["type"] for r in want.values()))
        feats = ",".join(cfg["features"])
        where = "bs %d, inode size %d, features %s, source reads %s; %d objects" % (bs, cfg["inode_size"], feats, spec["srcmode"], len(want))
        o.sample = {"bs": bs, "features": feats, "objects": len(want), "types": ["%o" % t for t in types], "source_reads": spec["srcmode"]}
        if len(want) >= 8 and len(types) >= 4:
            o.distinct.add("%s|%d|%s|%s" % (feats, bs, ",".join("%o" % t for t in types), spec["srcmode"]))
        faults = []
        if spec["srcmode"] == "short":
            faults = [("src_short", -1, 0, spec["short_a"], spec["short_b"])]
        elif spec["srcmode"] == "noseekdata":
            faults = [("src_noseekdata", -1, 0, 0, 0)]
        elif spec["srcmode"] == "nofiemap":
            faults = [("src_nofiemap", -1, 0, 0, 0)]
        env = {"E2FSPROGS_FAKE_TIME": str(FAKE_TIME)}
        traces = []

        def build(img, clock, rand):
            with open(img, "wb") as f:
                f.truncate(cfg["size_kib"] * 1024)
            set_times(spec["tree_seed"] ^ 0x7e, src)          # reading the tree may have moved atimes
            argv = mkfs_argv(cfg, img, extra=["-d", src])
            r = run_sim(argv, Plan([img], None, clock=clock, rand_seed=rand, faults=faults, src=src), wd, tag="mk", env=env, keep_log=True, cpu_s=40)
            traces.append(log_hash([e for e in r.events if e.kind != "R"]))
            o.sim_us += r.sim_us
            return r
        img = os.path.join(wd, "img")
        r = build(img, spec["clock_a"], spec["rand_a"])
        o.evals += 1
        o.stats["mke2fs.status%s" % r.status] += 1
        if faults and any(e.fault for e in r.events if e.kind not in "SE"):
            o.stats["fault.%s" % faults[0][0]] += 1
        if r.san or r.signal or r.timeout:
            o.violate("build|abnormal|%s" % (r.san[0] if r.san else "signal"), "mke2fs -d ended abnormally (%s): %s\n%s" %
                      (r.brief(), where, r.san_text or r.err.decode("latin1")[-400:]), skey="build")
            o.trace = hashlib.sha256("".join(traces).encode()).hexdigest()
            return o
        if r.status != 0:
            o.stats["rejected"] += 1
            o.trace = hashlib.sha256("".join(traces).encode()).hexdigest()
            return o
        # ---------------- populate
        if "populate" in spec["clauses"]:
            self._populate(o, spec, img, want, where, wd, bs, xattrs_ok and "ext_attr" in cfg["features"])
        # ---------------- repro
        if "repro" in spec["clauses"] and not o.violations:
            img2 = os.path.join(wd, "img2")
            r2 = build(img2, spec["clock_b"], spec["rand_b"])
            o.evals += 1
            if r2.status == 0 and not (r2.san or r2.signal):
                a, b = open(img, "rb").read(), open(img2, "rb").read()
                if a != b:
                    nd = [k // bs for k in range(0, min(len(a), len(b)), bs) if a[k:k + bs] != b[k:k + bs]]
                    kind = "mmp_block" if "mmp" in cfg["features"] and len(nd) <= 1 else "other"
                    o.violate("repro|bytes_differ|%s" % kind, "two builds from the same tree with the same UUID, hash seed and E2FSPROGS_FAKE_TIME but another "
                              "simulated clock and random stream differ in %d block(s), first fs block %s: %s" % (len(nd), nd[0] if nd else "?", where),
                              skey="repro")
                else:
                    o.stats["probe.repro_identical"] += 1
        # ---------------- extract
        if "extract" in spec["clauses"] and not o.violations:
            self._extract(o, spec, img, want, where, wd, traces)
        o.trace = hashlib.sha256("".join(traces).encode()).hexdigest()
        return o

    def _populate(self, o, spec, img, want, where, wd, bs, cmp_xattrs):
        o.evals += 1
        try:
            fs = refext4.RefFS(path=img)
            _d, recs = fs.tree_digest(include_mtime=True, skip=())
        except Exception as ex:
            o.violate("populate|unreadable", "the independent reader cannot read the image (%r): %s" % (ex, where), skey="populate")
            return
        got = set(p.decode("latin1", "replace") for p in recs if p not in (b"/", b"/lost+found"))
        if got != set(want):
            o.violate("populate|names", "names differ: missing %s, unexpected %s: %s" % (sorted(set(want) - got)[:3], sorted(got - set(want))[:3], where),
                      skey="populate")
            return
        src_groups = {}
        img_groups = {}
        for p, w in want.items():
            g = recs[p.encode("latin1")]
            for f, gv, wv in (("type", g["type"], w["type"]), ("mode", g["mode"], w["mode"]), ("uid", g["uid"], w["uid"]), ("gid", g["gid"], w["gid"]),
                              ("mtime", g["mtime"] & 0xFFFFFFFF, w["mtime"])):
                if gv != wv:
                    o.violate("populate|%s" % f, "%s: %s is %r in the image, %r in the source: %s" % (p[-80:], f, gv, wv, where), skey="populate")
                    return
            if g.get("error"):
                o.violate("populate|object_unreadable", "%s: %s: %s" % (p[-80:], g["error"], where), skey="populate")
                return
            if w["type"] == stat.S_IFREG:
                if str(w["sha256"]).startswith("nz:") and g.get("size") == w["size"]:
                    try:
                        g = dict(g)
                        g["sha256"] = image_nz_digest(fs, fs.read_inode(g["ino"]))
                        o.stats["probe.file_beyond_4g"] += 1
                    except Exception as ex:
                        g["sha256"] = "unreadable: %r" % ex
                if g.get("size") != w["size"] or g.get("sha256") != w["sha256"]:
                    o.violate("populate|content|%s" % ("size" if g.get("size") != w["size"] else "bytes"), "%s: %s bytes (sha %s...) in the image, %d bytes "
                              "(sha %s...) in the source: %s" % (p[-80:], g.get("size"), str(g.get("sha256"))[:10], w["size"], w["sha256"][:10], where),
                              skey="populate")
                    return
                # holes kept as holes: every block that lies completely inside a source hole must be unmapped
                mapped = set()
                ino = fs.read_inode(g["ino"])
                if not fs.has_inline_data(ino):
                    try:
                        for l, pb, n, u in fs.extents(ino)[0]:
                            mapped.update(range(l, l + n))
                    except Exception:
                        pass
                for hs, he in w.get("holes", ()):
                    for blk in range((hs + bs - 1) // bs, he // bs):
                        if blk in mapped:
                            sub = "|inline_data_block0" if (blk == 0 and fs.has("inline_data")) else ""
                            o.violate("populate|hole_filled" + sub, "%s: source hole [%d,%d) but file block %d is mapped in the image: %s" %
                                      (p[-80:], hs, he, blk, where), skey="populate")
                            if sub:
                                break       # (listed finding: go on with the other clauses for this file)
                            return
                    else:
                        continue
                    break
                if w.get("holes"):
                    o.stats["probe.sparse_files"] += 1
            elif w["type"] == stat.S_IFLNK and g.get("target") != w["target"]:
                o.violate("populate|target", "%s -> %r in the image, %r in the source: %s" % (p[-80:], g.get("target", b"")[:40], w["target"][:40], where),
                          skey="populate")
                return
            elif w["type"] in (stat.S_IFCHR, stat.S_IFBLK) and tuple(g.get("rdev", ())) != tuple(w["rdev"]):
                o.violate("populate|rdev", "%s: device numbers %s in the image, %s in the source: %s" % (p[-80:], g.get("rdev"), w["rdev"], where), skey="populate")
                return
            if cmp_xattrs:
                gx = sorted((k, v) for k, v in fs.xattrs(fs.read_inode(g["ino"])).items() if k.startswith(b"user."))
                if gx != w["xattrs"]:
                    o.violate("populate|xattrs", "%s: user xattrs %s in the image, %s in the source: %s" %
                              (p[-80:], [k for k, _v in gx][:4], [k for k, _v in w["xattrs"]][:4], where), skey="populate")
                    return
            if w["type"] != stat.S_IFDIR:
                src_groups.setdefault(w["ino"], []).append(p)
                img_groups.setdefault(g["ino"], []).append(p)
                if g["links"] != w["nlink"]:
                    o.violate("populate|nlink", "%s: link count %d in the image, %d in the source: %s" % (p[-80:], g["links"], w["nlink"], where), skey="populate")
                    return
        if sorted(map(sorted, src_groups.values())) != sorted(map(sorted, img_groups.values())):
            o.violate("populate|hardlink_groups", "hard-link groups differ between source and image: %s" % where, skey="populate")
            return
        if any(len(v) > 1 for v in src_groups.values()):
            o.stats["probe.hardlink_groups"] += 1
        rn, cn = e2fsck(img, ["-fn"], wd, tag="fn", clock=spec["clock_a"] + 500)
        o.evals += 1
        if (rn.status != 0 or cn) and not (rn.san or rn.signal or rn.timeout):
            tail = "\n".join(l for l in rn.out.decode("latin1").splitlines() if l.strip())[-600:]
            o.violate("populate|e2fsck|%s" % ",".join("%x" % c for c in sorted(set(cn))[:4]), "e2fsck -fn exits %s (problems %s): %s\n%s" %
                      (rn.status, ["%#x" % c for c in sorted(set(cn))[:8]], where, tail), skey="populate|e2fsck")
            return
        o.stats["probe.populated_exact"] += 1

    def _extract(self, o, spec, img, want, where, wd, traces):
        out = os.path.join(wd, "out")
        os.makedirs(out, exist_ok=True)
        r = run_sim([tool("debugfs"), "-R", "rdump / %s" % out, img], Plan([img], None, clock=spec["clock_a"] + 900), wd, tag="rd", keep_log=True, cpu_s=40)
        traces.append(log_hash([e for e in r.events if e.kind != "R"]))
        o.evals += 1
        if r.san or r.signal or r.timeout:
            o.observations.append("debugfs rdump ended abnormally (%s) -- judged under C06" % r.brief())
            return
        for p, w in want.items():
            if w["type"] not in (stat.S_IFREG, stat.S_IFDIR, stat.S_IFLNK):
                continue
            q = out + p
            try:
                st = os.lstat(q)
            except OSError:
                o.violate("extract|missing", "%s was not extracted by rdump: %s\n%s" % (p[-80:], where, r.err.decode("latin1")[-300:]), skey="extract")
                return
            if stat.S_IFMT(st.st_mode) != w["type"]:
                o.violate("extract|type", "%s extracted as %o, source is %o: %s" % (p[-80:], stat.S_IFMT(st.st_mode), w["type"], where), skey="extract")
                return
            if w["type"] == stat.S_IFLNK:
                if os.readlink(q).encode() != w["target"]:
                    o.violate("extract|target", "%s extracted with a %d-byte target, the source has %d bytes: %s" %
                              (p[-80:], len(os.readlink(q)), len(w["target"]), where), skey="extract")
                    return
                continue
            if (st.st_mode & 0o777) != (w["mode"] & 0o777) or st.st_uid != w["uid"] or st.st_gid != w["gid"]:
                o.violate("extract|%s" % ("perm" if (st.st_mode & 0o777) != (w["mode"] & 0o777) else "owner"), "%s extracted with mode %o owner %d:%d, "
                          "source has mode %o owner %d:%d: %s" % (p[-80:], st.st_mode & 0o777, st.st_uid, st.st_gid, w["mode"] & 0o777, w["uid"], w["gid"], where),
                          skey="extract")
                return
            if w["type"] == stat.S_IFREG:
                try:
                    os.chmod(q, 0o600)
                    data = open(q, "rb").read()
                except OSError as ex:
                    o.observations.append("cannot read extracted %s: %r" % (p, ex))
                    continue
                if len(data) != w["size"] or hashlib.sha256(data).hexdigest() != w["sha256"]:
                    o.violate("extract|content|%s" % ("size" if len(data) != w["size"] else "bytes"), "%s extracted with %d bytes, the source has %d "
                              "(content %s): %s" % (p[-80:], len(data), w["size"], "equal" if hashlib.sha256(data).hexdigest() == w["sha256"] else "differs", where),
                              skey="extract")
                    return
        o.stats["probe.extracted_exact"] += 1

    def shrink(self, spec, v):
        clause = v["key"].split("|")[0]
        if clause in ("populate", "repro", "extract", "build") and spec["clauses"] != [clause if clause != "build" else "populate"]:
            c = dict(spec)
            c["clauses"] = [clause if clause != "build" else "populate"]
            yield c
        if spec["srcmode"] != "normal":
            c = dict(spec)
            c["srcmode"] = "normal"
            yield c
        feats = spec["cfg"]["features"]
        for f in feats:
            c = dict(spec)
            c["cfg"] = dict(spec["cfg"])
            c["cfg"]["features"] = [x for x in feats if x != f]
            yield c


if __name__ == "__main__":
    main(C18)
