#!/usr/bin/env python3
"""C07 — mke2fs produces a consistent filesystem for every accepted configuration.

Zero-fault configuration swarm.  The simulator contributes the device (arbitrary size and initial
content, write monitor for `-n`) and control over clock and randomness: the reproducibility
clause is tested by running the same command under a different simulated clock and a different
random stream and demanding identical bytes.
"""
import hashlib
import os

from framework import Check, Outcome, main
from simcore import Plan, Rng, count_mutations, file_sha, log_hash, make_device, run_sim, tool
from world import e2fsck, gen_config, gen_content, gen_name, mkfs_argv
import minifs

try:
    import refext4
except Exception:      # the independent checker is optional until calibrated
    refext4 = None


def backup_groups(ngroups, sparse, sparse2, b0, b1):
    if sparse2:
        return sorted(set([0] + [g for g in (b0, b1) if g and g < ngroups]))
    if not sparse:
        return list(range(ngroups))
    out = {0}
    if ngroups > 1:
        out.add(1)
    for p in (3, 5, 7):
        x = p
        while x < ngroups:
            out.add(x)
            x *= p
    return sorted(out)


def make_tree(rng, root):
    os.makedirs(root)
    n = 0
    dirs = [root]
    for _ in range(rng.range(1, 12)):
        parent = rng.choice(dirs)
        name = gen_name(rng, 30).replace("/", "_")
        p = os.path.join(parent, name)
        if os.path.lexists(p):
            continue
        k = rng.below(6)
        if k == 0:
            os.mkdir(p)
            dirs.append(p)
        elif k == 1:
            os.symlink("t" * rng.range(1, 300), p)
        else:
            with open(p, "wb") as f:
                f.write(gen_content(rng, rng.weighted([(0, 1), (rng.range(1, 100), 2), (rng.range(100, 40000), 4)])))
            os.chmod(p, rng.choice([0o644, 0o600, 0o755, 0o4755]))
        n += 1
    # fixed timestamps so that two builds from the same tree can be byte-identical
    for dp, dn, fn in os.walk(root):
        for x in dn + fn:
            try:
                os.utime(os.path.join(dp, x), (1400000000, 1400000000), follow_symlinks=False)
            except Exception:
                pass
    os.utime(root, (1400000000, 1400000000))
    return n


class C07(Check):
    pid = "C07"
    level = "exploration"
    rule = ("one case = one mke2fs command line (block/cluster/inode size, -i/-N, feature subset, journal size, -g, -G, "
            "-E resize/stride/stripe_width/offset/num_backup_sb/packed_meta_blocks/root_owner/lazy_*_init/nodiscard, -m, -d tree, "
            "size incl. boundary sizes around group and descriptor-block limits) on a device with zero or poisoned initial "
            "content; non-trivial = mke2fs accepted it; distinct = distinct (feature set, bs, inode size, group geometry, "
            "option-name set).  Rejected configurations are counted, not judged.")
    assumptions = ["mke2fs.conf is empty (MKE2FS_CONFIG=/dev/null): every feature is requested explicitly",
                   "the independent checker refext4 is used when it has been calibrated (see evidence 'refext4_used')"]
    reference_models = ["format rule for backup groups computed independently (powers of 3/5/7, sparse_super2 pair)",
                        "superblock/descriptor parse by sim/py/minifs.py (no libext2fs code)"]

    def budget(self, tier):
        return {"runs": 900, "wall_s": 80} if tier == "quick" else {"runs": 15000, "wall_s": 1500}

    def generate(self, rng, tier):
        cfg = gen_config(rng)
        bs = cfg["bs"]
        opts = {}
        # boundary sizes: a whole number of groups plus a small remainder
        if rng.chance(0.35) and "cluster" not in cfg:
            bpg = cfg.get("bpg", bs * 8)
            groups = rng.range(1, 6) if bpg * bs >= (4 << 20) else rng.range(1, 40)
            rem = rng.choice([0, 1, 2, 8, 16, 17, 50, 51, 60, 100, 200, 255, 256, 257, bpg // 2, bpg - 1])
            blocks = groups * bpg + rem + (1 if bs == 1024 else 0)
            if 60 <= blocks * bs // 1024 <= 65536:
                cfg["size_kib"] = max(64, blocks * bs // 1024)
                opts["boundary"] = [groups, rem]
        if rng.chance(0.2):
            opts["N"] = rng.choice([16, 32, 100, 1000, 5000, 65536])
        if rng.chance(0.2):
            opts["m"] = rng.choice([0, 1, 5, 50])
        if rng.chance(0.15):
            opts["stride"] = rng.choice([1, 2, 4, 16, 64])
            opts["stripe_width"] = opts["stride"] * rng.choice([1, 2, 4])
        if rng.chance(0.12):
            opts["offset"] = rng.choice([512, 1024, 4096, 65536, 1048576])
        if rng.chance(0.1) and "sparse_super2" in cfg["features"]:
            opts["num_backup_sb"] = rng.choice([0, 1, 2])
        if rng.chance(0.1) and "flex_bg" in cfg["features"]:
            opts["packed_meta_blocks"] = 1
        if rng.chance(0.15):
            opts["root_owner"] = "%d:%d" % (rng.below(70000), rng.below(70000))
        if rng.chance(0.2):
            opts["L"] = gen_name(rng, 16)[:16]
        if rng.chance(0.1):
            opts["e"] = rng.choice(["continue", "remount-ro", "panic"])
        if rng.chance(0.25):
            opts["d"] = rng.u64()
        if rng.chance(0.15) and "quota" in cfg["features"]:
            opts["quotatype"] = rng.choice(["usrquota", "grpquota", "usrquota:grpquota", "prjquota"]) if "project" in cfg["features"] \
                else rng.choice(["usrquota", "grpquota"])
        initial = rng.weighted([("zero", 3), ("poison", 2)])
        if initial == "poison" or rng.chance(0.2):
            opts["nodiscard"] = 1
        return {"cfg": cfg, "opts": opts, "initial": initial, "rand_a": rng.u64() >> 1, "rand_b": rng.u64() >> 1,
                "clock_a": 1500000000 + rng.below(10 ** 8), "clock_b": 1500000000 + rng.below(10 ** 9),
                "modes": ["build", "dash_n", "repro"],
                # either of the two documented ways to pin the time
                "time_env": rng.choice(["E2FSPROGS_FAKE_TIME", "SOURCE_DATE_EPOCH"]),
                "time_value": rng.choice(["1400000000", "1400000000", "0", "1"])}

    def argv(self, spec, img, wd):

        cfg = dict(spec["cfg"])
        o = spec["opts"]
        e = []
        extra = []
        for k in ("stride", "stripe_width", "offset", "num_backup_sb", "packed_meta_blocks", "root_owner", "quotatype"):
            if k in o:
                e.append("%s=%s" % (k, o[k]))
        if o.get("nodiscard"):
            e.append("nodiscard")
        cfg["extra_eopts"] = e
        if "N" in o:
            extra += ["-N", str(o["N"])]
        if "m" in o:
            extra += ["-m", str(o["m"])]
        if "L" in o:
            extra += ["-L", o["L"]]
        if "e" in o:
            extra += ["-e", o["e"]]
        if "d" in o:
            extra += ["-d", os.path.join(wd, "tree")]
        return mkfs_argv(cfg, img, extra)

    def execute(self, spec, wd):
        o = self.execute_inner(spec, wd)
        # the class key carries the option names that are still present (after shrinking: the ones needed)
        cfg = spec["cfg"]
        sig = sorted(spec["opts"]) + ["%s=%s" % (k, cfg[k]) for k in ("flex", "bpg", "cluster") if k in cfg] + \
            [f for f in ("mmp", "meta_bg", "bigalloc", "quota", "inline_data") if f in cfg["features"]]
        for v in o.violations:
            v.extra["skey"] = v.key
            if v.key.split("|")[0] in ("consistency", "geometry", "features", "backups", "build"):
                v.key = v.key + "|" + ",".join(sig)
        return o

    def execute_inner(self, spec, wd):
        o = Outcome()
        cfg = spec["cfg"]
        opts = spec["opts"]
        img = os.path.join(wd, "img")
        img2 = os.path.join(wd, "img2")
        dev_size = cfg["size_kib"] * 1024 + opts.get("offset", 0)
        if "d" in opts:
            make_tree(Rng(opts["d"]), os.path.join(wd, "tree"))
        tenv = spec.get("time_env", "E2FSPROGS_FAKE_TIME")
        # (E2FSPROGS_FAKE_TIME=0 means "no fake time", so the small epochs go with SOURCE_DATE_EPOCH only)
        env = {tenv: spec.get("time_value", "1400000000") if tenv == "SOURCE_DATE_EPOCH" else "1400000000"}
        make_device(img, dev_size, spec["initial"])
        argv = self.argv(spec, img, wd)
        traces = []
        # ---- mke2fs -n first: must not write
        if "dash_n" in spec["modes"]:
            before = file_sha(img)
            rn = run_sim(argv[:1] + ["-n"] + argv[1:], Plan([img], None, clock=spec["clock_a"], rand_seed=spec["rand_a"]), wd,
                         tag="n", env=env)
            traces.append(log_hash(rn.events))
            o.evals += 1
            nmut = count_mutations(rn.events, 0)
            if nmut or file_sha(img) != before:
                o.violate("dash_n|writes", "mke2fs -n issued %d mutating event(s) %s; argv %s" %
                          (nmut, [e.brief() for e in rn.events if e.kind in "WTZPDA"][:6], " ".join(rn.argv)))
        r = run_sim(argv, Plan([img], None, clock=spec["clock_a"], rand_seed=spec["rand_a"]), wd, tag="a", env=env)
        traces.append(log_hash(r.events))
        o.sim_us += r.sim_us
        o.trace = hashlib.sha256("".join(traces).encode()).hexdigest()
        feats = ",".join(cfg["features"])
        o.sample = {"argv": " ".join(r.argv[1:]), "initial": spec["initial"], "status": r.status}
        if r.san or r.signal or r.timeout:
            o.violate("build|abnormal|%s" % (r.san[0] if r.san else "signal/timeout"),
                      "mke2fs ended abnormally (%s): %s\n%s" % (r.brief(), " ".join(r.argv), r.err.decode("latin1")[-1500:]))
            return o
        if r.status != 0:
            o.stats["rejected"] += 1
            return o
        o.stats["accepted"] += 1
        o.distinct.add("%s|%d|%d|%s|%s|%s" % (feats, cfg["bs"], cfg["inode_size"], cfg.get("bpg"), cfg.get("flex"), ",".join(sorted(opts))))
        off = opts.get("offset", 0)
        data = open(img, "rb").read()
        view = data[off:]
        argvs = " ".join(r.argv[1:])
        # ---- consistency: the real checker
        fsimg = img
        if off:
            fsimg = os.path.join(wd, "view.img")
            with open(fsimg, "wb") as f:
                f.write(view)
        rf, codes = e2fsck(fsimg, ["-fn"], wd, tag="fn", clock=spec["clock_a"] + 100)
        o.evals += 1
        o.stats["fn.status.%s" % rf.status] += 1
        if rf.status != 0 or codes:
            tail = "\n".join(l for l in rf.out.decode("latin1").splitlines() if l.strip())[-900:]
            o.violate("consistency|e2fsck|%s" % ",".join("%x" % c for c in sorted(set(codes))[:5]),
                      "e2fsck -fn exits %s (problems %s) on the output of: mke2fs %s (initial content %s)\n%s" %
                      (rf.status, ["%#x" % c for c in sorted(set(codes))[:8]], argvs, spec["initial"], tail))
        # ---- independent checker
        if refext4 is not None and os.environ.get("VERIF_NO_REFEXT4") is None:
            try:
                fs = refext4.RefFS(data=bytes(view))
                comp = fs.check()
                o.stats["probe.refext4_checked"] += 1
                if comp:
                    o.violate("consistency|refext4|%s%s" % (comp[0].rule, "(resize_inode)" if "of inode 7)" in comp[0].detail else ""),
                              "independent checker complains (%d): %s ... on mke2fs %s" %
                              (len(comp), "; ".join("%s %s" % (c.rule, c.detail) for c in comp[:4]), argvs))
            except Exception as ex:
                o.observations.append("refext4 could not parse the output of mke2fs %s: %r" % (argvs, ex))
        # ---- geometry and features
        try:
            m = minifs.MiniFS(view)
        except Exception as ex:
            o.violate("geometry|unparsable", "superblock unreadable after mke2fs %s: %r" % (argvs, ex))
            return o
        if m.bs != cfg["bs"]:
            o.violate("geometry|block_size", "asked for %d-byte blocks, got %d: %s" % (cfg["bs"], m.bs, argvs))
        if m.inode_size != cfg["inode_size"]:
            o.violate("geometry|inode_size", "asked for %d-byte inodes, got %d: %s" % (cfg["inode_size"], m.inode_size, argvs))
        if "cluster" in cfg:
            csz = m.bs << (int.from_bytes(m.sb[28:32], "little") - int.from_bytes(m.sb[24:28], "little"))
            if csz != cfg["cluster"]:
                o.violate("geometry|cluster_size", "asked for %d-byte clusters, got %d: %s" % (cfg["cluster"], csz, argvs))
        namemap = {"metadata_csum_seed": "csum_seed", "uninit_bg": "gdt_csum"}
        for f in cfg["features"]:
            n = namemap.get(f, f)
            try:
                present = m.has(n)
            except KeyError:
                continue
            if f == "orphan_file" and not m.has("has_journal"):
                continue      # needs a journal; follows has_journal
            if f == "has_journal" and m.blocks < 2048:
                continue      # documented: "Filesystem too small for a journal" -- mke2fs says so and goes on
            if not present and f not in ("resize_inode",):
                o.violate("features|dropped|%s" % f, "feature %s was requested and accepted but is not set: %s" % (f, argvs))
        asked_blocks = cfg["size_kib"] * 1024 // cfg["bs"]
        if m.blocks > asked_blocks or m.blocks < asked_blocks - m.bpg:
            o.violate("geometry|blocks_count", "asked for %d blocks, filesystem has %d (group size %d): %s" %
                      (asked_blocks, m.blocks, m.bpg, argvs))
        if "bpg" in cfg and m.bpg != cfg["bpg"] and "N" not in opts and "inode_ratio" not in cfg:
            # (with an explicit inode count or ratio mke2fs documents that it adjusts the group size to fit)
            o.violate("geometry|blocks_per_group", "asked for %d blocks per group, got %d: %s" % (cfg["bpg"], m.bpg, argvs))
        # ---- backups where the format prescribes
        b0 = int.from_bytes(m.sb[588:592], "little")
        b1 = int.from_bytes(m.sb[592:596], "little")
        want = backup_groups(m.groups, m.has("sparse_super"), m.has("sparse_super2"), b0, b1)
        for g in range(1, m.groups):
            blk = m.first_data_block + g * m.bpg
            sboff = blk * m.bs if m.bs > 1024 or True else 0
            sb = view[sboff:sboff + 1024]
            has = len(sb) == 1024 and sb[56:58] == b"\x53\xef" and int.from_bytes(sb[90:92], "little") == (g & 0xFFFF) \
                and sb[104:120] == m.sb[104:120]
            if g in want and not has:
                o.violate("backups|missing", "group %d must hold a backup superblock (rule gives %s) but block %d has none: %s" %
                          (g, want, blk, argvs))
                break
            if g not in want and has:
                o.violate("backups|unexpected", "group %d holds a superblock copy but the format rule gives %s: %s" % (g, want, argvs))
                break
            if g in want and has:
                for name, fo, fs_ in (("s_blocks_count_lo", 4, 4), ("s_inodes_count", 0, 4), ("s_log_block_size", 24, 4),
                                      ("s_blocks_per_group", 32, 4), ("s_inodes_per_group", 40, 4), ("s_feature_incompat", 96, 4),
                                      ("s_feature_ro_compat", 100, 4), ("s_desc_size", 254, 2), ("s_first_meta_bg", 260, 4)):
                    if sb[fo:fo + fs_] != m.sb[fo:fo + fs_] and not (name == "s_feature_incompat"):
                        o.violate("backups|stale|%s" % name, "backup superblock of group %d differs from the primary in %s: %s" %
                                  (g, name, argvs))
                        break
                # descriptor copies follow the backup superblock (classic layout)
                if not m.has("meta_bg"):
                    ndesc_blocks = (m.groups * m.desc_size + m.bs - 1) // m.bs
                    pstart = (1 if m.bs == 1024 else 0) + 1
                    prim = view[pstart * m.bs:(pstart + ndesc_blocks) * m.bs]
                    back = view[(blk + 1) * m.bs:(blk + 1 + ndesc_blocks) * m.bs]
                    for gi in range(m.groups):
                        a = prim[gi * m.desc_size:gi * m.desc_size + 12]
                        b = back[gi * m.desc_size:gi * m.desc_size + 12]
                        if a != b:
                            o.violate("backups|gdt_stale", "backup descriptors in group %d disagree with the primary for group %d "
                                      "(bitmap/table locations): %s" % (g, gi, argvs))
                            break
        o.stats["probe.backup_groups_checked"] += max(0, m.groups - 1)
        if m.groups > 1:
            o.stats["probe.multi_group"] += 1
        if "boundary" in opts:
            o.stats["probe.boundary_size"] += 1
        # ---- reproducibility under a different clock and random stream
        if "repro" in spec["modes"]:
            make_device(img2, dev_size, spec["initial"])
            argv2 = [a if a != img else img2 for a in argv]
            if "d" in opts and spec.get("time_env") == "SOURCE_DATE_EPOCH":
                # a rebuilt source tree: same content, later time stamps (all of them past the epoch, so the documented
                # clamping makes them irrelevant)
                tree = os.path.join(wd, "tree")
                later = 1400000000 + 7 + spec["clock_b"] % 100000
                for dp, dns, fns in os.walk(tree):
                    for x in dns + fns:
                        os.utime(os.path.join(dp, x), (later, later + 3), follow_symlinks=False)
                os.utime(tree, (later, later))
                o.stats["probe.repro_tree_retouched"] += 1
            r2 = run_sim(argv2, Plan([img2], None, clock=spec["clock_b"], rand_seed=spec["rand_b"]), wd, tag="b", env=env)
            o.evals += 1
            if r2.status == 0:
                d2 = open(img2, "rb").read()
                if d2 != data:
                    first = next(i for i in range(min(len(d2), len(data))) if d2[i] != data[i]) if len(d2) == len(data) else -1
                    ndiff = sum(1 for i in range(0, min(len(d2), len(data)), 512) if d2[i:i + 512] != data[i:i + 512])
                    blk = (first - off) // m.bs if first >= 0 else -1
                    diffblocks = sorted(set((i - off) // m.bs for i in range(0, min(len(d2), len(data)), 512) if d2[i:i + 512] != data[i:i + 512]))
                    where = "mmp_block" if (m.has("mmp") and diffblocks == [m.mmp_block]) else "other"
                    o.violate("repro|bytes_differ|" + where, "two runs with the same -U, hash_seed and %s but a different " % spec.get("time_env", "E2FSPROGS_FAKE_TIME") +
                              "simulated clock (%d vs %d) and random stream differ in %d sector(s), first at byte %d (fs block %d): %s" %
                              (spec["clock_a"], spec["clock_b"], ndiff, first, (first - off) // m.bs if first >= 0 else -1, argvs))
                else:
                    o.stats["probe.repro_identical"] += 1
            else:
                o.observations.append("second identical run of mke2fs was rejected (%s): %s" % (r2.status, argvs))
        return o

    def shrink(self, spec, v):
        clause = v["key"].split("|")[0]
        if clause == "build":
            clause = "consistency"
        keep = {"dash_n": ["dash_n"], "repro": ["repro"]}.get(clause, [])
        if spec["modes"] != keep and clause in ("dash_n", "repro", "consistency", "geometry", "features", "backups"):
            c = dict(spec)
            c["modes"] = keep
            yield c
        for k in list(spec["opts"]):
            c = dict(spec)
            c["opts"] = {a: b for a, b in spec["opts"].items() if a != k}
            yield c
        for k in ("bpg", "flex", "inode_ratio", "resize_max", "jsize"):
            if k in spec["cfg"] and not (k == "jsize" and "has_journal" in spec["cfg"]["features"]):
                c = dict(spec)
                c["cfg"] = {a: b for a, b in spec["cfg"].items() if a != k}
                yield c
        if spec["initial"] != "zero":
            c = dict(spec)
            c["initial"] = "zero"
            yield c
        feats = spec["cfg"]["features"]
        for f in feats:
            c = dict(spec)
            c["cfg"] = dict(spec["cfg"])
            c["cfg"]["features"] = [x for x in feats if x != f]
            yield c


if __name__ == "__main__":
    main(C07)
