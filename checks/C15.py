#!/usr/bin/env python3
"""C15 — extended attributes read back exactly as set.

A seeded history of ea_set / ea_set -f (replace included) / ea_rm on several inodes (regular files,
a directory, an inline-data file, a device node) runs through the real debugfs / libext2fs xattr
code on the simulated disk, in batches.  A name -> value reference model follows the history command
by command (the per-command outcome is read from debugfs's own messages: a refusal with
"No space" style errors is legitimate and leaves the model unchanged).

After every batch: the library's own read-back (ea_list for the names, ea_get -f for the exact bytes)
and the independent reader's parse (in-inode area, xattr block, value inodes) must both equal the
model; the independent checker verifies the on-disk rules the kernel enforces (entry order, e_hash,
h_hash, reference counts, value-inode hashes, system.data kept in the inode); e2fsck -fn must exit
0.  At the end every attribute is removed again and the free block and inode counts must return to
where they were (conservation).  A separate configuration runs on a nearly full filesystem.
"""
import hashlib
import os
import re

import refext4
from framework import Check, Outcome, main
from simcore import Plan, Rng, log_hash, run_sim, tool
from world import NAME_CHARS, e2fsck, gen_config, mkfs

PREFIXES = ["user.", "trusted.", "security.", "system.foo", "user.", "user."]


def run_debugfs_merged(img, cmds, wd, tag, clock, rand_seed):
    """debugfs -w -f script with stderr merged into stdout, so that messages stay next to the command they belong to."""
    script = os.path.join(wd, tag + ".script")
    with open(script, "w") as f:
        f.write("\n".join(cmds) + "\n")
    argv = ["/bin/sh", "-c", 'exec "$0" "$@" 2>&1', tool("debugfs"), "-w", "-f", script, img]
    return run_sim(argv, Plan([img], None, clock=clock, rand_seed=rand_seed), wd, tag=tag, keep_log=True, cpu_s=40)


def split_output(out, ncmds):
    """[(command line, [message lines])] from debugfs -f output ("debugfs: <cmd>" echoes)."""
    res = []
    cur = None
    for line in out.decode("latin1").splitlines():
        if line.startswith("debugfs: "):
            cur = [line[9:], []]
            res.append(cur)
        elif cur is not None and line.strip():
            cur[1].append(line)
    return res


def xattr_hash_entry(name, words):
    """ext4_xattr_hash_entry(): name bytes, then 32-bit little-endian words"""
    h = 0
    for c in name:
        h = ((h << 5) & 0xFFFFFFFF) ^ (h >> 27) ^ c
    for w in words:
        h = ((h << 16) & 0xFFFFFFFF) ^ (h >> 16) ^ w
    return h


def kernel_xattr_rules(fs, inode, lay):
    """The rules the kernel enforces or relies on, computed from the format: e_hash of block entries and of every entry whose
    value lives in a value inode, the value inode's own hash (crc32c keyed with the filesystem's checksum seed), and the sort order of block entries (the kernel's lookup in a block stops at the first larger entry)."""
    bad = []
    seed = fs.csum_seed           # crc32c(~0, uuid) or s_checksum_seed: the kernel initialises it for metadata_csum *or* ea_inode
    for where_, ents, buf in (("inode body", lay["ibody"], lay["_ibuf"]), ("xattr block", lay["block"], lay["_bbuf"])):
        prev = None
        for e in ents:
            if e["value_inum"]:
                vi = fs.read_inode(e["value_inum"])
                val = fs.read_file(vi)[:e["value_size"]]
                vh = refext4.crc32c(seed, val)
                if vi.atime & 0xFFFFFFFF != vh:
                    bad.append("%s entry %r: value inode %d stores hash %#x, crc32c(seed, value) = %#x" % (where_, e["name"][:20], vi.ino, vi.atime & 0xFFFFFFFF, vh))
                want = xattr_hash_entry(e["name"], [vi.atime & 0xFFFFFFFF])
                if e["hash"] != want:
                    bad.append("%s entry %r (value inode): e_hash %#x, the format defines %#x" % (where_, e["name"][:20], e["hash"], want))
            elif where_ == "xattr block":
                o_ = e["base"] + e["value_offs"]
                raw = bytes(buf[o_:o_ + ((e["value_size"] + 3) & ~3)])
                raw += b"\0" * (-len(raw) % 4)
                words = [int.from_bytes(raw[k:k + 4], "little") for k in range(0, len(raw), 4)] if e["value_size"] else []
                want = xattr_hash_entry(e["name"], words)
                if e["hash"] != want:
                    bad.append("xattr block entry %r: e_hash %#x, the format defines %#x" % (e["name"][:20], e["hash"], want))
            if where_ == "xattr block":
                key = (e["index"], len(e["name"]), e["name"])
                if prev is not None and key < prev:
                    bad.append("xattr block entries out of order: %r after %r" % (key, prev))
                prev = key
    # (h_hash of the block header only feeds the kernel's block-sharing cache; the kernel does not validate it and libext2fs
    # leaves it 0, so it is not judged)
    return bad


class C15(Check):
    pid = "C15"
    level = "exploration"
    rule = ("one case = (block size, inode size 128-1024, +-ea_inode, +-metadata_csum, +-inline_data) x a history of 20-300 ea_set / replace / "
            "ea_rm operations on 3-6 inodes with names in the user./trusted./security./system. namespaces of 1-200 characters and values of 0 "
            "bytes ... more than a block (value inodes with ea_inode), in 2-5 batches; empty or nearly full filesystem.  Non-trivial = some "
            "inode used the xattr block or a value inode; distinct = distinct (feature set, bs, inode size, placements reached).")
    assumptions = ["a set that debugfs reports as failed (no space in the inode/block, value too large without ea_inode, filesystem full) is a "
                   "legitimate refusal: the model keeps the old state of that name and the read-back decides whether that is what happened",
                   "system.posix_acl_* names are not generated (the library converts their values by design)"]
    reference_models = ["name -> value model (this file)", "ref/refext4.py xattrs()/xattr_layout()/check() rules R4.xattr"]

    def budget(self, tier):
        return {"runs": 2000, "wall_s": 80} if tier == "quick" else {"runs": 12000, "wall_s": 1500}

    def generate(self, rng, tier):
        cfg = gen_config(rng, small=True, want=["ext_attr"], avoid=("mmp", "bigalloc", "quota", "project", "has_journal", "orphan_file"))
        cfg["features"] = [f for f in cfg["features"] if f not in ("quota", "project")]
        if rng.chance(0.4):
            cfg["features"] = sorted(set(cfg["features"]) | {"ea_inode"})
        cfg["inode_size"] = rng.weighted([(128, 2), (256, 5), (512, 2), (1024, 1)])
        if cfg["inode_size"] > cfg["bs"]:
            cfg["inode_size"] = 256
        if cfg["inode_size"] == 128:
            cfg["features"] = [f for f in cfg["features"] if f not in ("inline_data", "extra_isize")]
        cfg["size_kib"] = rng.choice([2048, 4096, 8192])
        return {"cfg": cfg, "seed": rng.u64(), "nops": rng.weighted([(rng.range(20, 80), 4), (rng.range(80, 300), 3)]), "batches": rng.range(2, 5),
                "full": rng.chance(0.15), "cleanup": rng.chance(0.7)}

    def execute(self, spec, wd):
        o = Outcome()
        cfg = spec["cfg"]
        rng = Rng(spec["seed"])
        img = os.path.join(wd, "img")
        r = mkfs(cfg, img, wd, rand_seed=rng.u64() >> 1)
        if r.status != 0 or r.san:
            o.stats["world.rejected"] += 1
            o.trace = "rejected"
            return o
        bs = cfg["bs"]
        feats = ",".join(cfg["features"])
        where0 = "bs %d, inode size %d, features %s%s" % (bs, cfg["inode_size"], feats, ", nearly full" if spec["full"] else "")
        small = os.path.join(wd, "small")
        with open(small, "wb") as f:
            f.write(b"tiny inline content")
        body = os.path.join(wd, "body")
        with open(body, "wb") as f:
            f.write(rng.bytes(5000))
        setup = ['write "%s" /f1' % body, 'write "%s" /f2' % body, 'write "%s" /inl' % small, "mkdir /d", 'symlink /sl shorttarget', "mknod pipe p"]
        targets = ["/f1", "/f2", "/inl", "/d", "/pipe"]
        if spec["full"]:
            big = os.path.join(wd, "big")
            with open(big, "wb") as f:
                f.write(rng.bytes(4096) * (int(cfg["size_kib"] * 1024 * 0.8) // 4096))
            setup.append('write "%s" /fill' % big)
        traces = []
        r = run_debugfs_merged(img, setup, wd, "setup", 1500000500, rng.u64() >> 1)
        traces.append(log_hash(r.events))
        e2fsck(img, ["-fy"], wd, tag="settle", problems=False)
        fs0 = refext4.RefFS(path=img)
        gb0 = sum(fs0.group_desc(g)["bg_free_blocks_count"] for g in range(fs0.group_count))
        gi0 = sum(fs0.group_desc(g)["bg_free_inodes_count"] for g in range(fs0.group_count))
        model = {t: {} for t in targets}
        base_x = {}
        for t in targets:
            try:
                te = fs0.tree()[t.encode()]
                base_x[t] = {k: v for k, v in fs0.xattrs(te.inode).items()}
            except Exception:
                base_x[t] = {}
        vfiles = {}
        nv = [0]

        def value_file(v):
            p = os.path.join(wd, "v%d" % nv[0])
            nv[0] += 1
            with open(p, "wb") as f:
                f.write(v)
            return p
        per = max(1, spec["nops"] // spec["batches"])
        clock = 1500001000
        placements = set()
        self._iblocks_reported = False
        nb = spec["batches"] + (1 if spec["cleanup"] else 0)
        for b in range(nb):
            cmds = []
            intents = []      # (kind, target, name, value)
            if b < spec["batches"]:
                for _ in range(per):
                    t = rng.choice(targets)
                    m = model[t]
                    op = rng.weighted([("set", 50), ("replace", 20 if m else 0), ("rm", 20 if m else 0), ("rm_missing", 3)])
                    if op == "set":
                        pre = rng.choice(PREFIXES)
                        nm = pre + ("" if pre == "system.foo" else "") + "".join(NAME_CHARS[rng.below(62)] for _ in range(rng.weighted([(rng.range(1, 12), 6), (rng.range(12, 60), 3), (rng.range(60, 200), 1)])))
                        if nm in m or nm.startswith("system.posix_acl") or nm == "system.data":
                            continue
                    elif op in ("replace", "rm"):
                        nm = rng.choice(sorted(m))
                    else:
                        nm = "user.nonexistent%d" % rng.below(1000)
                    if op in ("set", "replace"):
                        vl = rng.weighted([(0, 1), (rng.range(1, 40), 6), (rng.range(40, 300), 4), (rng.range(300, bs - 64), 2),
                                           (rng.range(bs - 64, bs + 200), 1), (rng.range(bs + 200, 12000), 1)])
                        v = rng.bytes(vl)
                        if op == "replace" and rng.chance(0.15):
                            v = m[nm]          # identical value: a no-op by design
                        cmds.append('ea_set -f "%s" "%s" "%s"' % (value_file(v), t, nm))
                        intents.append(("set", t, nm, v))
                    else:
                        cmds.append('ea_rm "%s" "%s"' % (t, nm))
                        intents.append(("rm", t, nm, None))
                label = "batch %d/%d (%d commands)" % (b + 1, spec["batches"], len(cmds))
            else:
                for t in targets:
                    names = sorted(model[t])
                    while names:
                        # several names in one ea_rm go through one open xattr handle
                        k = rng.range(2, 4) if (len(names) > 1 and rng.chance(0.5)) else 1
                        grp, names = names[:k], names[k:]
                        if sum(len(n) for n in grp) > 900:
                            grp, names = grp[:1], grp[1:] + names
                        cmds.append('ea_rm "%s" %s' % (t, " ".join('"%s"' % n for n in grp)))
                        intents.append(("rm", t, grp if len(grp) > 1 else grp[0], None))
                label = "cleanup (%d removal commands)" % len(cmds)
            if not cmds:
                continue
            rr = run_debugfs_merged(img, cmds, wd, "b%d" % b, clock, rng.u64() >> 1)
            traces.append(log_hash(rr.events))
            o.sim_us += rr.sim_us
            clock += 1000
            if rr.san or rr.signal or rr.timeout:
                o.violate("abnormal|debugfs|%s" % (rr.san[0] if rr.san else "signal"), "debugfs ended abnormally during %s (%s): %s\n%s" %
                          (label, rr.brief(), where0, rr.san_text or rr.out.decode("latin1")[-400:]), skey="abnormal")
                break
            outs = split_output(rr.out, len(cmds))
            if len(outs) != len(cmds):
                o.observations.append("could not attribute debugfs output to commands (%d echoes for %d commands)" % (len(outs), len(cmds)))
                break
            refused = 0
            for (kind, t, nm, v), (_echo, msgs) in zip(intents, outs):
                failed = any(("ea_set" in x or "ea_rm" in x or "while" in x or "rror" in x) for x in msgs)
                if kind == "set":
                    if failed:
                        refused += 1
                        o.stats["refused.%s" % (re.sub(r"[^A-Za-z ]", "", msgs[0].split(":")[-1]).strip()[:40] if msgs else "?")] += 1
                    else:
                        model[t][nm] = v
                else:
                    if isinstance(nm, list):
                        if not failed:
                            for n_ in nm:
                                model[t].pop(n_, None)
                        else:
                            o.violate("rm|refused", "ea_rm of existing attributes %s failed (%s) during %s: %s" % ([x[:30] for x in nm], msgs[:2], label, where0),
                                      skey="rm_refused")
                    elif not failed:
                        model[t].pop(nm, None)
                    elif nm in model[t]:
                        o.violate("rm|refused", "ea_rm of an existing attribute failed (%s) during %s: %s" % (msgs[:2], label, where0), skey="rm_refused")
            if o.violations:
                break
            where = "after %s (%d refused): %s" % (label, refused, where0)
            if not self._judge(o, img, model, base_x, targets, where, wd, clock, placements, rng):
                break
        if spec["cleanup"] and not o.violations:
            fs1 = refext4.RefFS(path=img)
            gb1 = sum(fs1.group_desc(g)["bg_free_blocks_count"] for g in range(fs1.group_count))
            gi1 = sum(fs1.group_desc(g)["bg_free_inodes_count"] for g in range(fs1.group_count))
            o.evals += 1
            if gi1 != gi0 or gb1 != gb0:
                o.violate("conservation|%s" % ("inodes" if gi1 != gi0 else "blocks"), "after removing every attribute again %d blocks and %d inodes are "
                          "free, %d and %d were free before the history: %s" % (gb1, gi1, gb0, gi0, where0), skey="conservation")
            else:
                o.stats["probe.conserved"] += 1
        if "ea_inode" in placements:
            for v in o.violations:
                if v.key.startswith("e2fsck|"):
                    v.key += "|ea_inode"
        if spec["full"]:
            for v in o.violations:
                v.key += "|full"
        if placements & {"block", "ea_inode"}:
            o.distinct.add("%s|%d|%d|%s" % (feats, bs, cfg["inode_size"], "+".join(sorted(placements))))
        for p in placements:
            o.stats["probe.placement_" + p] += 1
        o.sample = {"bs": bs, "inode_size": cfg["inode_size"], "features": feats, "ops": spec["nops"], "placements": sorted(placements),
                    "full": spec["full"]}
        o.trace = hashlib.sha256("".join(traces).encode()).hexdigest()
        return o

    def _judge(self, o, img, model, base_x, targets, where, wd, clock, placements, rng):
        o.evals += 1
        try:
            fs = refext4.RefFS(path=img)
            tree = fs.tree()
        except Exception as ex:
            o.violate("unreadable", "the independent reader cannot read the filesystem (%r) %s" % (ex, where), skey="unreadable")
            return False
        # ---- independent reader
        for t in targets:
            te = tree.get(t.encode())
            if te is None:
                o.violate("object_lost", "%s disappeared %s" % (t, where), skey="object_lost")
                return False
            try:
                got = fs.xattrs(te.inode)
                lay = fs.xattr_layout(te.inode)
            except Exception as ex:
                o.violate("parse|%s" % type(ex).__name__, "the independent reader cannot parse the attributes of %s (%s) %s" % (t, ex, where), skey="parse")
                return False
            want = dict((k.encode(), v) for k, v in model[t].items())
            for k, v in base_x[t].items():
                want.setdefault(k, v)          # what the object carried before the history (system.data of the inline file)
            got_cmp = dict(got)
            if b"system.data" in got_cmp and b"system.data" not in want:
                got_cmp.pop(b"system.data")
            if b"system.data" in want and t == "/inl":
                want.pop(b"system.data", None)
                got_cmp.pop(b"system.data", None)
            if got_cmp != want:
                missing = sorted(set(want) - set(got_cmp))[:3]
                extra = sorted(set(got_cmp) - set(want))[:3]
                wrong = [k for k in want if k in got_cmp and got_cmp[k] != want[k]][:3]
                sym = "missing" if missing else "unexpected" if extra else "wrong_value"
                o.violate("readback|refext4|%s" % sym, "%s: the on-disk attributes differ from the model: missing %s, unexpected %s, wrong value %s "
                          "(e.g. %d bytes on disk, %d in the model) %s" % (t, missing, extra, wrong, len(got_cmp.get(wrong[0], b"")) if wrong else 0,
                                                                          len(want.get(wrong[0], b"")) if wrong else 0, where), skey="readback")
                return False
            try:
                kb = kernel_xattr_rules(fs, te.inode, lay)
            except Exception as ex:
                kb = ["rule evaluation failed: %r" % ex]
            if kb:
                o.violate("ondisk|kernel_rule|%s" % kb[0].split(":")[0].split(" entry")[0].replace(" ", "_")[:40], "%s: %s %s" % (t, "; ".join(kb[:3]), where),
                          skey="ondisk")
                return False
            if lay["ibody"]:
                placements.add("ibody")
            if lay["block_nr"]:
                placements.add("block")
            if any(e.get("value_inum") for e in lay["ibody"] + lay["block"] if isinstance(e, dict)):
                placements.add("ea_inode")
        # ---- the library's own read-back: names by ea_list, bytes by ea_get -f
        cmds = []
        outs = []
        for t in targets:
            cmds.append('ea_list "%s"' % t)
            for nm in rng.sample(sorted(model[t]), min(4, len(model[t]))):
                p = os.path.join(wd, "rb%d" % len(outs))
                outs.append((t, nm, p))
                if os.path.exists(p):
                    os.unlink(p)
                cmds.append('ea_get -f "%s" "%s" "%s"' % (p, t, nm))
        script = os.path.join(wd, "rb.script")
        with open(script, "w") as f:
            f.write("\n".join(cmds) + "\n")
        rb = run_sim([tool("debugfs"), "-f", script, img], Plan([img], None, clock=clock + 100), wd, tag="rb")
        o.evals += 1
        text = rb.out.decode("latin1")
        for t, nm, p in outs:
            try:
                got = open(p, "rb").read()
            except OSError:
                got = None
            if got != model[t][nm]:
                o.violate("readback|library|%s" % ("missing" if got is None else "wrong_value"), "%s %s: ea_get returns %s, the model has %d bytes %s" %
                          (t, nm[:60], "nothing" if got is None else "%d bytes" % len(got), len(model[t][nm]), where), skey="readback")
                return False
        blocks = text.split("debugfs: ea_list")
        for t, blk in zip(targets, blocks[1:]):
            listed = set(re.findall(r"^\s+(\S+) \(\d+\)", blk, re.M))
            want = set(model[t]) | set(k.decode("latin1") for k in base_x[t])
            listed.discard("system.data")
            want.discard("system.data")
            if listed != want:
                o.violate("readback|library|names", "%s: ea_list shows %d names, the model has %d (missing %s, unexpected %s) %s" %
                          (t, len(listed), len(want), sorted(want - listed)[:3], sorted(listed - want)[:3], where), skey="readback")
                return False
        # ---- on-disk rules + consistency
        comp = [c for c in fs.check() if "xattr" in c.rule.lower() or c.rule.startswith("R5.xattr") or c.rule.startswith("R5.inode")]
        if comp:
            o.violate("ondisk|%s" % comp[0].rule, "independent checker: %s %s" % ("; ".join("%s %s" % (c.rule, c.detail) for c in comp[:3]), where),
                      skey="ondisk")
            return False
        rn, cn = e2fsck(img, ["-fn"], wd, tag="fn", clock=clock + 500)
        o.evals += 1
        if (rn.status != 0 or cn) and not (rn.san or rn.signal or rn.timeout):
            tail = "\n".join(l for l in rn.out.decode("latin1").splitlines() if l.strip())[-600:]
            only_iblocks = set(cn) == {0x1000D} and "ea_inode" in placements
            if not (only_iblocks and self._iblocks_reported):
                o.violate("e2fsck|%s" % ",".join("%x" % c for c in sorted(set(cn))[:4]), "e2fsck -fn exits %s (problems %s) %s\n%s" %
                          (rn.status, ["%#x" % c for c in sorted(set(cn))[:8]], where, tail), skey="e2fsck")
            if only_iblocks:
                # the owner-i_blocks disagreement about value inodes (listed finding) does not hide anything else: go on judging
                self._iblocks_reported = True
                return True
            return False
        return True

    def shrink(self, spec, v):
        if spec["batches"] > 1:
            c = dict(spec)
            c["batches"] = 1
            yield c
        if spec["nops"] > 30:
            for f in (0.5, 0.75):
                c = dict(spec)
                c["nops"] = int(spec["nops"] * f)
                yield c
        if spec["cleanup"] and not v["key"].startswith("conservation"):
            c = dict(spec)
            c["cleanup"] = False
            yield c
        if spec["full"]:
            c = dict(spec)
            c["full"] = False
            yield c
        feats = spec["cfg"]["features"]
        for f in feats:
            if f == "ext_attr":
                continue
            c = dict(spec)
            c["cfg"] = dict(spec["cfg"])
            c["cfg"]["features"] = [x for x in feats if x != f]
            yield c


if __name__ == "__main__":
    main(C15)
