#!/usr/bin/env python3
"""C14 — metadata checksums: format-exact and covering every protected byte.

written   After every step of a seeded chain of writers on a metadata_csum (or uninit_bg) filesystem
          -- mke2fs, debugfs population and removals, tune2fs re-keying requests, resize2fs (with inode
          renumbering), e2fsck -fyD, the debugfs journal writer -- an independent implementation
          recomputes every checksum of every object: superblock, descriptors, bitmaps, inodes, extent
          blocks, directory leaf and index blocks, xattr blocks, MMP, and the journal superblock /
          descriptor / tag / commit / revoke checksums of what the journal writer logged.

detect    Stored-byte faults: for a sampled object of each type one bit of a byte in its format-defined
          covered range is flipped (first, last, field boundaries and seeded offsets; thorough: more
          per object).  The library, reading that object through its API (harness h_csum), must return
          an error, and `e2fsck -fn` must exit non-zero.

The CRC-primitive clause of the statement (crc32c / crc16 / crc32-be equal their definitions) is a pure
function of its input and not a simulation target; the independent implementation used here is itself
generated bit by bit from the polynomials (ref/refcrc.c), which is all that is claimed about it.
"""
import hashlib
import os
import re
import struct

import jbd2model as J
import refext4
from framework import Check, Outcome, main
from simcore import Plan, Rng, log_hash, run_sim, tool
from world import build_world, debugfs_script, e2fsck, gen_config, gen_name

CRC = refext4.crc32c
MAGIC = 0xC03B3998


# ----------------------------------------------------------------------------- independent journal checksum verifier
def verify_journal(fs, jblocks):
    """Walk the log of an (unrecovered) internal journal and verify every checksum the format defines.
    Returns (list of complaints, number of blocks verified)."""
    bs = fs.block_size
    data = fs.data

    def jb(n):
        return data[jblocks[n] * bs:(jblocks[n] + 1) * bs]
    jsb = jb(0)
    f = lambda o: struct.unpack_from(">I", jsb, o)[0]
    if f(0) != MAGIC:
        return ["journal superblock magic"], 0
    first, maxlen, seq, start = f(0x14), f(0x10), f(0x18), f(0x1C)
    compat, incompat = f(0x24), f(0x28)
    v2, v3 = bool(incompat & 0x8), bool(incompat & 0x10)
    is64 = bool(incompat & 0x2)
    bad = []
    n = 0
    if v2 or v3:
        if CRC(0xFFFFFFFF, jsb[:0xFC] + b"\0\0\0\0" + jsb[0x100:1024]) != f(0xFC):
            bad.append("journal superblock checksum")
        n += 1
    if not start or not (v2 or v3):
        return bad, n
    seed = CRC(0xFFFFFFFF, jsb[0x30:0x40])
    # journal_tag_bytes(): csum3 -> 16; else 12 (+2 with csum2) (-4 without 64bit)
    tagsz = 16 if v3 else (12 + (2 if v2 else 0) - (0 if is64 else 4))
    pos = start
    cur = seq

    def wrap(p):
        return first + (p - maxlen) if p >= maxlen else p
    guard = 0
    while guard < maxlen:
        guard += 1
        blk = jb(pos)
        magic, btype, bseq = struct.unpack_from(">III", blk, 0)
        if magic != MAGIC or bseq != cur:
            break
        if btype == 1:          # descriptor
            if CRC(seed, blk[:bs - 4] + b"\0\0\0\0") != struct.unpack_from(">I", blk, bs - 4)[0]:
                bad.append("descriptor block at log position %d (seq %d): tail checksum" % (pos, bseq))
            n += 1
            off = 12
            dpos = wrap(pos + 1)
            last = False
            while off + tagsz <= bs - 4 and not last:
                if v3:
                    blocknr, flags, hi, tcs = struct.unpack_from(">IIII", blk, off)
                else:
                    blocknr, tcs16, flags = struct.unpack_from(">IHH", blk, off)
                    tcs = tcs16
                off += tagsz
                if not flags & 2:
                    off += 16
                last = bool(flags & 8)
                dblk = jb(dpos)
                c = CRC(CRC(seed, struct.pack(">I", bseq)), dblk)
                if (c if v3 else c & 0xFFFF) != tcs:
                    bad.append("tag for fs block %d (seq %d, log position %d%s): stored %#x computed %#x" %
                               (blocknr, bseq, dpos, ", escaped" if flags & 1 else "", tcs, c if v3 else c & 0xFFFF))
                n += 1
                dpos = wrap(dpos + 1)
            pos = dpos
        elif btype == 2:        # commit
            if CRC(seed, blk[:16] + b"\0\0\0\0" + blk[20:]) != struct.unpack_from(">I", blk, 16)[0]:
                bad.append("commit block (seq %d): checksum" % bseq)
            n += 1
            pos = wrap(pos + 1)
            cur = (cur + 1) & 0xFFFFFFFF
        elif btype == 5:        # revoke
            if CRC(seed, blk[:bs - 4] + b"\0\0\0\0") != struct.unpack_from(">I", blk, bs - 4)[0]:
                bad.append("revoke block (seq %d): tail checksum" % bseq)
            n += 1
            pos = wrap(pos + 1)
        else:
            break
    return bad, n


# ----------------------------------------------------------------------------- covered ranges
def objects(fs, rng, limit_per_type=2):
    """[(type, harness args, device offset of the covered range start, [covered (off,len) ranges relative to that]), ...]"""
    out = []
    bs = fs.block_size
    csum = fs.csum
    if csum:
        out.append(("superblock", ["super"], 1024, [(0, 0x3FC)]))
    groups = list(range(fs.group_count))
    for g in rng.sample(groups, min(limit_per_type, len(groups))):
        gd = fs.group_desc(g)
        if csum or fs.has("uninit_bg"):
            ds = fs.desc_size
            cov = [(0, 0x1E)] + ([(0x20, ds - 0x20)] if ds > 0x20 and fs.has("64bit") else [])
            out.append(("group_desc", ["gd", str(g)], gd["offset"], cov))
        if csum:
            fl = fs.group_flags(g)
            if not fl & 2:
                out.append(("block_bitmap", ["bbitmap"], gd["bg_block_bitmap"] * bs, [(0, fs.clusters_per_group // 8)]))
            if not fl & 1:
                out.append(("inode_bitmap", ["ibitmap"], gd["bg_inode_bitmap"] * bs, [(0, fs.inodes_per_group // 8)]))
    if not csum:
        return out
    tree = fs.tree()
    ents = [te for te in tree.values() if te.ino >= fs.first_ino or te.ino == 2]
    inos = rng.sample(ents, min(6, len(ents)))
    for te in inos[:limit_per_type + 1]:
        i = te.inode
        cov = [(0, 0x7C), (0x7E, 2)]
        if fs.inode_size > 128 and i.extra_isize >= 4:
            cov += [(0x80, 2), (0x84, fs.inode_size - 0x84)]
        elif fs.inode_size > 128:
            cov += [(0x80, fs.inode_size - 0x80)]
        out.append(("inode", ["inode", str(te.ino)], fs.inode_loc(te.ino), cov))
    dirs = [te for te in tree.values() if te.inode.mode & 0o170000 == 0o040000 and not fs.has_inline_data(te.inode)]
    dirs.sort(key=lambda te: -te.inode.size)
    nleaf = nnode = 0
    for te in dirs[:4]:
        try:
            ht = fs.htree(te.inode)
        except Exception:
            ht = None
        blocks = fs.dir_blocks(te.inode)
        nodes = {}
        if ht:
            for nd in ht["nodes"]:
                nodes[nd["pblk"]] = nd
        for lblk, pblk in blocks:
            if pblk in nodes:
                if nnode < limit_per_type:
                    nd = nodes[pblk]
                    cov = [(0, nd["count_offset"] + 8 * nd["count"])]
                    out.append(("htree_node", ["htree", str(te.ino), str(pblk)], pblk * bs, cov))
                    nnode += 1
            elif nleaf < limit_per_type:
                out.append(("dir_leaf", ["dirblock", str(te.ino), str(pblk)], pblk * bs, [(0, bs - 12)]))
                nleaf += 1
    nx = ne = 0
    for te in tree.values():
        i = te.inode
        if ne < limit_per_type and i.flags & 0x80000 and (i.mode & 0o170000) in (0o100000, 0o040000):
            try:
                _e, tblocks = fs.extents(i)
            except Exception:
                tblocks = ()
            for b in list(tblocks)[:1]:
                buf = fs.read_block(b)
                emax = struct.unpack_from("<H", buf, 4)[0]
                out.append(("extent_block", ["extent", str(te.ino)], b * bs, [(0, 12 + 12 * emax)]))
                ne += 1
        if nx < limit_per_type and i.file_acl:
            out.append(("xattr_block", ["xattr", str(te.ino)], i.file_acl * bs, [(0, 0x10), (0x14, bs - 0x14)]))
            nx += 1
    if fs.has("mmp") and fs.sb["s_mmp_block"]:
        out.append(("mmp", ["mmp"], fs.sb["s_mmp_block"] * bs, [(0, 0x3FC)]))
    return out


CSUM_ERRORS = set(range(2133571328 + 140, 2133571328 + 175))     # the *_CSUM_INVALID / BAD_CRC family sits in this band


def uninit_meta_suffix(fs, typ, base, off, bit):
    """A block-bitmap bit that stands for a bitmap or inode-table block of a BLOCK_UNINIT group (flex_bg puts those
    blocks into another group's range): libext2fs sets such bits again after loading the bitmaps, so the reader never
    sees the flipped value.  Named apart so that the finding which lists it cannot hide any other accepted flip."""
    if typ != "block_bitmap":
        return ""
    try:
        bs = fs.block_size
        g = next(g for g in range(fs.group_count) if fs.group_desc(g)["bg_block_bitmap"] * bs == base)
        first = fs.first_data_block + g * fs.blocks_per_group + (off * 8 + bit) * fs.cluster_ratio
        blocks = set(range(first, first + fs.cluster_ratio))
        for u in range(fs.group_count):
            if not fs.group_flags(u) & 2:
                continue
            gd = fs.group_desc(u)
            meta = set([gd["bg_block_bitmap"], gd["bg_inode_bitmap"]]) | \
                set(range(gd["bg_inode_table"], gd["bg_inode_table"] + fs.itable_blocks))
            if blocks & meta:
                return "|uninit_group_meta"
    except Exception:
        pass
    return ""


class C14(Check):
    pid = "C14"
    level = "exploration"
    rule = ("written: one case = (seeded metadata_csum/uninit_bg filesystem) x a chain of 1-4 writers (debugfs population and removals that empty "
            "directory blocks, tune2fs -U/-O metadata_csum/-O csum_seed/-I, resize2fs grow and shrink with inode renumbering, e2fsck -fyD, debugfs "
            "journal writer incl. blocks that need escaping and revokes), every checksum recomputed after every step.  detect: one case = (object "
            "type: superblock, descriptor, block/inode bitmap, inode, directory leaf, htree node, extent block, xattr block, MMP) x (byte offset in "
            "the covered range: first, last, field boundaries, seeded) x (bit).  Non-trivial = at least 5 object types present; distinct = "
            "distinct (feature set, bs, writer chain) resp. (object type, offset class).")
    assumptions = ["descriptor / commit / revoke blocks of an unrecovered journal are verified by the 'written' clause and, as stored-byte faults, "
                   "by C03's rot configuration (replay is the code that reads them); e2fsck -fn does not read them and is not expected to",
                   "the CRC-primitive sentence of the statement is not a simulation target (pure function); see DESIGN.md"]
    reference_models = ["ref/refext4.py check() rules R5.* (every checksum of the format, own CRC tables)", "independent JBD2 checksum verifier (this file)"]

    def budget(self, tier):
        return {"runs": 1600, "wall_s": 80} if tier == "quick" else {"runs": 8000, "wall_s": 1500}

    def generate(self, rng, tier):
        cs = rng.weighted([("metadata_csum", 8), ("uninit_bg", 2)])
        cfg = gen_config(rng, want=[cs], avoid=("mmp",) if rng.chance(0.85) else ())
        if cs == "uninit_bg":
            cfg["features"] = [f for f in cfg["features"] if f not in ("metadata_csum", "metadata_csum_seed")] + ["uninit_bg"]
            cfg["features"] = sorted(set(cfg["features"]))
        mode = rng.weighted([("written", 5), ("detect", 5)])
        chain = []
        if mode == "written":
            for _ in range(rng.range(1, 4)):
                chain.append(rng.weighted([("debugfs", 4), ("tune", 4), ("resize", 4), ("fsckD", 2), ("journal", 3)]))
            if "resize" in chain or rng.chance(0.3):
                cfg["inode_ratio"] = rng.choice([32768, 65536])
                if "cluster" not in cfg:
                    cfg["bpg"] = {1024: rng.choice([256, 512]), 2048: rng.choice([512, 1024]), 4096: rng.choice([1024, 2048])}[cfg["bs"]]
            if "journal" in chain and "has_journal" not in cfg["features"]:
                cfg["features"] = sorted(set(cfg["features"]) | {"has_journal"})
                cfg["jsize"] = cfg["bs"] // 1024
                cfg["size_kib"] = max(cfg["size_kib"], 4 * cfg["bs"])
        return {"cfg": cfg, "world_seed": rng.u64(), "mode": mode, "chain": chain, "seed2": rng.u64(), "nflips": 10 if tier == "quick" else 40}

    # ------------------------------------------------------------------
    def execute(self, spec, wd):
        o = Outcome()
        rng = Rng(spec["world_seed"])
        cfg = spec["cfg"]
        spread = "inode_ratio" in cfg and cfg.get("inode_ratio", 0) >= 32768
        w = build_world(rng, wd, cfg=dict(cfg), scale=0.8, big_dir=rng.range(60, 260) if spread else rng.weighted([(0, 2), (rng.range(40, 250), 3)]),
                        deep_extents=rng.chance(0.4), special_xattrs=True, late_dirs=rng.range(1, 4) if spread else 0)
        if w["rejected"]:
            o.stats["world.rejected"] += 1
            o.trace = "rejected"
            return o
        img = w["img"]
        feats = ",".join(cfg["features"])
        self.traces = []
        if spec["mode"] == "written":
            self._written(o, spec, w, wd, feats)
        else:
            self._detect(o, spec, w, wd, feats)
        o.trace = hashlib.sha256("".join(self.traces).encode()).hexdigest()
        return o

    # ------------------------------------------------------------------ written
    def _verify(self, o, img, label, where, journal=False):
        o.evals += 1
        try:
            fs = refext4.RefFS(path=img)
            comp = fs.verify_checksums()
        except Exception as ex:
            o.observations.append("refext4 cannot read the image after %s: %r" % (label, ex))
            return None
        if comp:
            tool_ = label.split()[0]
            o.violate("written|%s|%s" % (comp[0].rule, tool_), "after %s the independent implementation computes a different checksum (%d object(s)): %s -- %s" %
                      (label, len(comp), "; ".join("%s %s" % (c.rule, c.detail) for c in comp[:3]), where), skey="written")
            return None
        o.stats["probe.images_fully_verified"] += 1
        if journal and fs.sb["s_journal_inum"]:
            try:
                jino = fs.read_inode(fs.sb["s_journal_inum"])
                ext, _t = fs.extents(jino) if fs.has_block_map(jino) else ((), ())
                jblocks = []
                for l, p, n, u in ext:
                    jblocks += list(range(p, p + n))
                bad, n = verify_journal(fs, jblocks)
                o.stats["probe.journal_blocks_verified"] += n
                if bad:
                    o.violate("written|journal|%s" % bad[0].split(" ")[0], "the journal written by %s carries checksums the jbd2 format does not define: %s -- %s" %
                              (label, "; ".join(bad[:3]), where), skey="written|journal")
                    return None
            except Exception as ex:
                o.observations.append("journal verifier failed after %s: %r" % (label, ex))
        return fs

    def _written(self, o, spec, w, wd, feats):
        img = w["img"]
        cfg = spec["cfg"]
        rng = Rng(spec["seed2"])
        where = "bs %d, features %s, chain %s" % (cfg["bs"], feats, "+".join(spec["chain"]))
        clock = 1500003000
        fs = self._verify(o, img, "mke2fs + debugfs population + e2fsck -fy", where)
        if fs is None:
            return
        o.distinct.add("%s|%d|%s" % (feats, cfg["bs"], "+".join(spec["chain"])))
        o.sample = {"mode": "written", "bs": cfg["bs"], "features": feats, "chain": spec["chain"]}
        names = [c.split('"')[3] for c in w["cmds"] if c.startswith("write ") and c.count('"') >= 4]
        for step, kind in enumerate(spec["chain"]):
            label = kind
            clock += 1000
            if kind == "debugfs":
                cmds = []
                # a directory with several blocks, whose later blocks are emptied again; xattrs; removals elsewhere
                d = "/c14d%d" % step
                cmds.append('mkdir "%s"' % d)
                longn = [("n%03d_" % k) + "x" * rng.range(90, 200) for k in range(rng.range(8, 40))]
                src = next((c.split('"')[1] for c in w["cmds"] if c.startswith("write ")), None)
                for nm in longn:
                    cmds.append('symlink "%s/%s" "t"' % (d, nm))
                for nm in longn[len(longn) // 2:]:
                    cmds.append('rm "%s/%s"' % (d, nm))
                for nm in rng.sample(names, min(len(names), rng.range(0, 12))):
                    cmds.append('rm "%s"' % nm)
                    names.remove(nm)
                r = debugfs_script(img, cmds, wd, tag="w%d" % step, clock=clock, rand_seed=rng.u64() >> 1, keep_log=True)
                label = "debugfs (mkdir, %d symlinks, %d removals)" % (len(longn), len(longn) // 2)
            elif kind == "tune":
                f = set(cfg["features"])
                args = rng.choice([["-U", "random"], ["-U", "time"], ["-O", "metadata_csum_seed"], ["-O", "^metadata_csum_seed"],
                                   ["-O", "metadata_csum"], ["-I", str(min(1024, cfg["inode_size"] * 2))], ["-O", "^dir_index"],
                                   ["-O", "extent"], ["-L", "c14"], ["-O", "^uninit_bg"] if "uninit_bg" in f else ["-O", "uninit_bg"]])
                r = run_sim([tool("tune2fs")] + args + [img], Plan([img], None, clock=clock, rand_seed=rng.u64() >> 1), wd, tag="w%d" % step, keep_log=True)
                label = "tune2fs %s (status %s%s)" % (" ".join(args), r.status, "" if r.status == 0 else ": " +
                                                      (r.err.decode("latin1").strip().splitlines() or [""])[-1][:160])
                if r.status != 0 or re.search(rb"(run e2fsck|e2fsck -f)", r.out + r.err):
                    # (a run that failed half-way is outside the statement: repair, then carry on with the chain)
                    e2fsck(img, ["-fy"], wd, tag="w%df" % step, clock=clock + 10, problems=False)
                    label += " + e2fsck -fy"
            elif kind == "resize":
                factor = rng.choice([0.3, 0.4, 0.5, 0.6, 0.75, 1.3, 2.0])
                kib = max(1024, int(cfg["size_kib"] * factor))
                if factor < 1 and rng.chance(0.7):
                    # free the low inodes again, so that a shrink has room to renumber the objects that live in high groups
                    fill = [nm for nm in names if nm.startswith("/bigdir/")]
                    if fill:
                        debugfs_script(img, ['rm "%s"' % nm for nm in fill], wd, tag="w%dthin" % step, clock=clock - 5, rand_seed=17)
                        names = [nm for nm in names if nm not in fill]
                        e2fsck(img, ["-fy"], wd, tag="w%dthinf" % step, clock=clock - 2, problems=False)
                r = run_sim([tool("resize2fs"), "-f", img, "%dK" % kib], Plan([img], None, clock=clock, rand_seed=rng.u64() >> 1), wd,
                            tag="w%d" % step, keep_log=True, cpu_s=40)
                label = "resize2fs %dK (status %s)" % (kib, r.status)
                if r.status != 0:
                    e2fsck(img, ["-fy"], wd, tag="w%df" % step, clock=clock + 10, problems=False)
                    label += " + e2fsck -fy"
            elif kind == "fsckD":
                r, _c = e2fsck(img, ["-fyD"], wd, tag="w%d" % step, clock=clock, problems=False, keep_log=True)
                label = "e2fsck -fyD (status %s)" % r.status
            else:   # the debugfs journal writer
                try:
                    fsx = refext4.RefFS(path=img)
                    nb = fsx.blocks_count
                    bs = fsx.block_size
                except Exception:
                    continue
                src = os.path.join(wd, "jsrc%d" % step)
                with open(src, "wb") as f:
                    for k in range(6):
                        blkdata = rng.bytes(bs)
                        if rng.chance(0.5):
                            blkdata = struct.pack(">I", MAGIC) + blkdata[4:]     # needs JBD2_FLAG_ESCAPE in the log
                        f.write(blkdata)
                cmds = []
                for t in range(rng.range(1, 3)):
                    blocks = sorted(set(rng.range(nb // 2, nb - 2) for _ in range(rng.range(1, 6))))
                    cmds += ["jo" + (" -c" if rng.chance(0.7) else ""), "jw -b %s %s" % (",".join(str(b) for b in blocks), src)]
                    if rng.chance(0.5):
                        cmds.append("jw -r %d" % rng.range(nb // 2, nb - 2))
                    cmds.append("jc")
                r = debugfs_script(img, cmds, wd, tag="w%d" % step, clock=clock, rand_seed=rng.u64() >> 1, keep_log=True)
                label = "debugfs journal writer (%d commands)" % len(cmds)
            self.traces.append(log_hash(r.events))
            o.sim_us += r.sim_us
            if r.san or r.signal or r.timeout:
                o.observations.append("%s ended abnormally (%s) -- judged under C06" % (label, r.brief()))
                return
            if self._verify(o, img, label, where, journal=(kind == "journal")) is None:
                return
            if kind == "journal":
                # replay it so that the chain can go on
                e2fsck(img, ["-fy"], wd, tag="w%dr" % step, clock=clock + 50, problems=False)
                if self._verify(o, img, "journal replay by e2fsck after " + label, where) is None:
                    return

    # ------------------------------------------------------------------ detect
    def _detect(self, o, spec, w, wd, feats):
        img = w["img"]
        cfg = spec["cfg"]
        rng = Rng(spec["seed2"])
        where = "bs %d, features %s" % (cfg["bs"], feats)
        if "dir_index" in cfg["features"]:
            e2fsck(img, ["-fyD"], wd, tag="idx", problems=False)
        r0, c0 = e2fsck(img, ["-fn"], wd, tag="pre", clock=1500003000)
        if r0.status != 0 or c0:
            o.stats["world.not_clean"] += 1
            return
        try:
            fs = refext4.RefFS(path=img)
            objs = objects(fs, rng)
        except Exception as ex:
            o.observations.append("object enumeration failed: %r" % ex)
            return
        types = sorted(set(t for t, _a, _o, _c in objs))
        o.sample = {"mode": "detect", "bs": cfg["bs"], "features": feats, "object_types": types}
        data = bytearray(open(img, "rb").read())
        todo = []
        for typ, hargs, base, cov in objs:
            offs = []
            for a, ln in cov:
                if ln <= 0:
                    continue
                offs += [a, a + ln - 1]
                offs += [a + rng.below(ln) for _ in range(2)]
            for off in offs:
                todo.append((typ, hargs, base, off))
        rng.shuffle(todo)
        for typ, hargs, base, off in todo[:spec["nflips"]]:
            bit = rng.below(8)
            pos = base + off
            if pos >= len(data):
                continue
            with open(img, "r+b") as f:
                f.seek(pos)
                f.write(bytes([data[pos] ^ (1 << bit)]))
            o.evals += 1
            ocls = "first" if off == 0 else "inner"
            if len(types) >= 5:
                o.distinct.add("%s|%s" % (typ, ocls if off < 8 else "o%d" % (off // 64)))
            o.stats["fault.bitflip.%s" % typ] += 1
            h = run_sim([tool("h_csum"), img] + hargs, Plan([img], None, clock=1500004000), wd, tag="hc", keep_log=True)
            self.traces.append(log_hash(h.events))
            rets = [int(x) for x in re.findall(rb"ret=(-?\d+)", h.out)]
            lib_err = next((x for x in rets if x != 0), 0)
            rn, cn = e2fsck(img, ["-fn"], wd, tag="fnx", clock=1500004500, keep_log=True)
            self.traces.append(log_hash(rn.events))
            with open(img, "r+b") as f:
                f.seek(pos)
                f.write(bytes([data[pos]]))
            desc = "bit %d of byte %d of a %s (device offset %d; h_csum %s)" % (bit, off, typ, pos, " ".join(hargs))
            if h.san or h.signal or h.timeout or rn.san or rn.signal or rn.timeout:
                o.observations.append("abnormal end while reading a flipped %s -- judged under C06" % typ)
                continue
            if lib_err in CSUM_ERRORS:
                o.stats["probe.library_reports_csum_error"] += 1
            if not lib_err and ((typ == "superblock" and off in (100, 101, 102, 103)) or (typ == "inode" and off in (128, 129))):
                # limits of the format, not of the tools: a flip in s_feature_ro_compat can switch metadata_csum itself off,
                # and an i_extra_isize below 4 leaves the inode with a 16-bit checksum (1 flip in 65536 goes unnoticed)
                o.stats["outside.flip_disables_or_shortens_checksum"] += 1
                continue
            if not lib_err:
                o.violate("detect|library_accepts|%s" % typ, "%s flipped: the library reads the object without any error (%s): %s" %
                          (desc, h.out.decode("latin1").strip().replace("\n", "; "), where), skey="detect|library")
                return
            if rn.status == 0:
                o.violate("detect|e2fsck_accepts|%s%s" % (typ, uninit_meta_suffix(fs, typ, base, off, bit)),
                          "%s flipped: e2fsck -fn exits 0 (problem codes %s): %s" %
                          (desc, ["%#x" % c for c in cn[:5]], where), skey="detect|e2fsck")
                return
            o.stats["probe.flip_detected"] += 1

    def shrink(self, spec, v):
        if spec["mode"] == "written" and len(spec["chain"]) > 1:
            for i in range(len(spec["chain"])):
                c = dict(spec)
                c["chain"] = spec["chain"][:i] + spec["chain"][i + 1:]
                yield c


if __name__ == "__main__":
    main(C14)
