#!/usr/bin/env python3
"""C03 — journal replay applies exactly the committed, unrevoked transactions.

The crashing party is an independent model JBD2 writer (ref/jbd2model.py): it lays down
transactions in every tag format, with escapes, revokes, several descriptor blocks, log wrap and
stale blocks of an older lap behind the head, and "loses power" after any block.  The real
recovery code then runs through both front-ends (e2fsck and debugfs `jr`), and the result is
compared block for block with the reference semantics.
"""
import hashlib
import os
import shutil
import struct

import jbd2model as J
from framework import Check, Outcome, main
from jworld import build_journal_world, check_replayed, crash_log, install_journal, jplan_kw, mask_volatile
from simcore import Plan, Rng, log_hash, run_sim, tool
from world import e2fsck


class C03(Check):
    pid = "C03"
    level = "exploration"
    rule = ("one case = (journal written by the model writer: 1-9 transactions, 1-90 blocks each, tag format 32/64-bit x "
            "none/v1/v2/v3 x async flag, escaped blocks, revokes of earlier/same/never-logged blocks, multi-descriptor "
            "transactions, start offset incl. wrap, sequence numbers incl. 32-bit wrap, stale older lap or zero behind the head) x "
            "(crash of the writer: all written / prefix / prefix with holes in the open transaction / torn block) x front-end; "
            "non-trivial = at least one transaction is expected to be replayed; distinct = distinct (format, #transactions "
            "replayed, wrap, stale mode, crash mode, revoke effective) tuples.  A separate 'rot' sub-mode flips one bit in the "
            "committed region and applies the envelope oracle only.")
    assumptions = ["sync-commit ordering for the crash model: a commit block is on the medium only if the whole transaction is",
                   "fast-commit journals are not generated (block-image replay only)",
                   "internal journals and external journal devices (found through the simulated blkid lookup)"]
    reference_models = ["ref/jbd2model.py: writer + expected_blocks() (last committed image unless revoked by an equal or later "
                        "committed sequence; stop at first incomplete transaction)"]

    def budget(self, tier):
        return {"runs": 500, "wall_s": 85} if tier == "quick" else {"runs": 6000, "wall_s": 1500}

    def generate(self, rng, tier):
        return {"world_seed": rng.u64(), "crash_seed": rng.u64(), "rot": rng.chance(0.15), "crash_mode": None,
                "frontends": ["e2fsck", "debugfs"]}

    def execute(self, spec, wd):
        o = Outcome()
        rng = Rng(spec["world_seed"])
        jw = build_journal_world(rng, wd)
        if jw is None:
            o.stats["world.rejected"] += 1
            o.trace = "rejected"
            return o
        crng = Rng(spec["crash_seed"])
        applied, complete, cdesc, torn = crash_log(crng, jw, mode="all" if spec["rot"] else spec["crash_mode"])
        install_journal(jw, applied, torn)
        exp, untouched, nreplayed = J.expected_blocks(jw["txns"], complete)
        bs = jw["bs"]
        rot = None
        if spec["rot"]:
            # one bit of one block of the committed region
            cand = [i for i, s in enumerate(jw["stream"])]
            i = crng.choice(cand)
            ti, pos, blk, role = jw["stream"][i]
            byte = crng.below(bs)
            bit = crng.below(8)
            with open(jw["jimg"], "r+b") as f:
                f.seek(jw["jblocks"][pos] * bs + byte)
                c = f.read(1)
                f.seek(jw["jblocks"][pos] * bs + byte)
                f.write(bytes([c[0] ^ (1 << bit)]))
            rot = {"txn": ti, "role": role, "byte": byte, "bit": bit}
        fmtname = jw["fmt"].name()
        o.sample = {"format": fmtname, "bs": bs, "transactions": [[len(t.blocks), len(t.revokes), t.committed] for t in jw["txns"]],
                    "seq0": jw["seq0"], "start": jw["start"], "maxlen": jw["jsb"]["maxlen"], "wrapped": jw["wrapped"],
                    "stale": jw["stale"], "crash": cdesc, "expected_replayed": nreplayed, "rot": rot,
                    "features": ",".join(jw["cfg"]["features"]), "external_journal": bool(jw["jdev"])}
        o.stats["format." + fmtname] += 1
        o.stats["journal." + ("external" if jw["jdev"] else "internal")] += 1
        o.stats["crash." + cdesc["mode"]] += 1
        if jw["wrapped"]:
            o.stats["probe.log_wrapped"] += 1
        if any(b in untouched for t in jw["txns"] for b in t.revokes) and nreplayed:
            o.stats["probe.revoke_effective"] += 1
        if any(d[:4] == struct.pack(">I", J.MAGIC) for t in jw["txns"] for _b, d in t.blocks):
            o.stats["probe.escaped_block"] += 1
        if jw["seq0"] > 0xFFFFFFF0:
            o.stats["probe.sequence_wrap"] += 1
        results = {}
        traces = []
        for fe in spec["frontends"]:
            work = os.path.join(wd, "work.img")
            shutil.copyfile(jw["img"], work)
            devs = [work]
            pkw = {}
            jwork = None
            if jw["jdev"]:
                jwork = os.path.join(wd, "work.jdev")
                shutil.copyfile(jw["jdev"], jwork)
                devs = [work, (jwork, "blk dz")]
                pkw = {"extjournal": jwork}
            if fe == "e2fsck":
                r, _codes = e2fsck(work, ["-fy", "-E", "journal_only"], wd, tag="rec", clock=1500020000, keep_log=True, problems=False,
                                   devices=devs, plan_kw=pkw)
            else:
                r = run_sim([tool("debugfs"), "-w", "-R", "jr", work], Plan(devs, None, clock=1500020000, rand_seed=3, **pkw), wd,
                            tag="rec", keep_log=True)
            jpost = open(jwork, "rb").read() if jwork else None
            traces.append(log_hash(r.events))
            o.sim_us += r.sim_us
            o.evals += 1
            post = open(work, "rb").read()
            results[fe] = (r, post)
            where = "%s, %s journal, format %s, bs %d, %d txn(s) (%d expected replayed), start %d/%d, seq0 %#x, stale=%s, crash=%s" % (
                fe, "external" if jw["jdev"] else "internal", fmtname, bs, len(jw["txns"]), nreplayed, jw["start"], jw["jsb"]["maxlen"], jw["seq0"], jw["stale"], cdesc)
            if r.san or r.signal or r.timeout:
                o.violate("%s|abnormal|%s" % (fe, r.san[0] if r.san else "signal"),
                          "recovery ended abnormally (%s): %s\n%s" % (r.brief(), where, r.san_text or r.err.decode("latin1")[-500:]))
                continue
            if rot is None:
                bad = check_replayed(post, jw, exp, untouched, jpost=jpost)
                for clause, detail in bad[:2]:
                    o.violate("%s|%s|%s" % (fe, fmtname, clause), "%s: %s\n(tool exit status %s, output tail: %s)" %
                              (where, detail, r.status, (r.out + r.err).decode("latin1")[-400:].replace("\n", " | ")), skey=clause)
                if fe == "e2fsck" and r.status not in (0, 1) and not bad:
                    o.observations.append("e2fsck -E journal_only exit status %s after a correct replay (%s)" % (r.status, fmtname))
            else:
                # envelope: every byte written to a target block is some logged image of that block
                images = {}
                for t in jw["txns"]:
                    for b, d in t.blocks:
                        images.setdefault(b, []).append(d)
                pre = jw["pre"]
                for b, imgs in images.items():
                    if jw["fmt"].csum == "none":
                        break     # a journal without checksums cannot notice a flipped bit: nothing is claimed
                    got = post[b * bs:(b + 1) * bs]
                    if got != pre[b * bs:(b + 1) * bs] and got not in imgs:
                        tid = (jw["seq0"] + rot["txn"]) & 0xFFFFFFFF
                        o.violate("%s|%s|rot.garbage%s" % (fe, fmtname, "|tid0" if tid == 0 else ""),
                                  "%s, one bit flipped in the %s block of txn %d: fs block %d holds bytes that were never logged for it" %
                                  (where, rot["role"], rot["txn"], b))
                        break
                o.stats["rot.%s.%s" % (rot["role"], "same_as_clean" if not check_replayed(post, jw, exp, untouched, jpost=jpost) else "differs")] += 1
        if nreplayed:
            o.distinct.add("%s|%d|%d|%s|%s|%s" % (fmtname, nreplayed, 1 if jw["wrapped"] else 0, jw["stale"], cdesc["mode"],
                                                  "rot" if rot else "crash"))
        # ---- front-end parity
        if len(results) == 2 and rot is None and all(not (r.san or r.signal or r.timeout) for r, _p in results.values()):
            a = mask_volatile(results["e2fsck"][1], jw)
            b = mask_volatile(results["debugfs"][1], jw)
            o.evals += 1
            if a != b:
                first = next(i for i in range(min(len(a), len(b))) if a[i] != b[i])
                o.violate("parity|%s" % fmtname, "e2fsck and debugfs jr leave different device contents; first difference at byte %d "
                          "(fs block %d, offset %d); format %s crash %s" % (first, first // bs, first % bs, fmtname, cdesc))
        o.trace = hashlib.sha256("".join(traces).encode()).hexdigest()
        return o

    def shrink(self, spec, v):
        fe = v["key"].split("|")[0]
        if fe in ("e2fsck", "debugfs") and spec["frontends"] != [fe]:
            c = dict(spec)
            c["frontends"] = [fe]
            yield c
        if spec["crash_mode"] != "all" and not spec["rot"]:
            c = dict(spec)
            c["crash_mode"] = "all"
            yield c


if __name__ == "__main__":
    main(C03)
