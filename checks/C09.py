#!/usr/bin/env python3
"""C09 — file data written through libext2fs reads back exactly.

A seeded history of writes, reads, truncations, hole punches and preallocations runs through the
real ext2fs_file_* / ext2fs_punch / ext2fs_fallocate code (driver sim/harness/h_fileio.c) on the
simulated disk, on files of every mapping type, and is compared step by step with a byte-array
model.  The device starts poisoned, so a block nobody wrote is visible if it becomes readable.
After the filesystem is closed the independent reader re-reads every file, and both the
independent checker and e2fsck -fn judge consistency.
"""
import hashlib
import os
import re

import refext4
from framework import Check, Outcome, main
from simcore import Plan, Rng, log_hash, make_device, run_sim, tool
from world import e2fsck, gen_config, mkfs_argv

FA_FLAGS = [0, 0x4, 0x3, 0x8, 0x8 | 0x4]
EXT2_ET_DIR_NO_SPACE = 2133571366


def boundary_offset(rng, bs, cluster, limit):
    per = bs // 4
    marks = [0, bs, 2 * bs, cluster, 12 * bs, (12 + per) * bs, 4 * bs, 11 * bs, 13 * bs, 60, 61, 59, 256, 1000, 64 * bs, 100 * bs]
    m = rng.choice(marks) + rng.choice([0, 0, 1, -1, 7, -7, 100, -100, bs // 2])
    if rng.chance(0.25):
        m = rng.below(limit)
    return max(0, min(m, limit))


class C09(Check):
    pid = "C09"
    level = "exploration"
    rule = ("one case = (block size, feature set, mapping types extent/block-mapped/bigalloc/inline of 1-4 files, empty or nearly "
            "full filesystem) x a history of 10-70 operations (write, read, set_size, get_size, punch, fallocate with the flag sets "
            "whose result is defined, flush, close/reopen file, close/reopen filesystem) with offsets biased to block, cluster, "
            "12-block, indirect-level and inline-capacity boundaries; non-trivial = at least one read overlaps an earlier write or "
            "punch; distinct = distinct (mapping type, bs, multiset of operation kinds, full?).")
    assumptions = ["a file handle is closed before punch/fallocate act on its inode and reopened afterwards (the handle caches the inode; "
                   "mixing both is outside the API's contract)",
                   "fallocate is driven only with flag sets whose read-back the statement defines: none, FORCE_UNINIT, "
                   "FORCE_INIT|ZERO_BLOCKS, INIT_BEYOND_EOF",
                   "a write that returns an error may have applied a prefix: its 'wrote' count is believed"]
    reference_models = ["byte-array file model (this file)", "ref/refext4.py read_file()/check()"]

    def budget(self, tier):
        return {"runs": 3000, "wall_s": 85} if tier == "quick" else {"runs": 40000, "wall_s": 1500}

    def generate(self, rng, tier):
        big = rng.chance(0.2)       # (gen_config never picks bigalloc for small filesystems)
        cfg = gen_config(rng, small=not big, want=["bigalloc", "extent"] if big else None,
                         avoid=["mmp", "quota", "project", "orphan_file", "has_journal"])
        cfg["features"] = [f for f in cfg["features"] if f not in ("quota", "project")]
        if "ext_attr" not in cfg["features"]:
            cfg["features"] = sorted(set(cfg["features"]) - {"inline_data"})
        cfg["size_kib"] = rng.choice([2048, 4096, 8192]) if "cluster" not in cfg else 16384
        types = []
        for _ in range(rng.range(1, 3)):
            cands = ["blk"]
            if "extent" in cfg["features"]:
                cands += ["ext", "ext"]
            if "inline_data" in cfg["features"]:
                cands += ["inline"]
            if "cluster" in cfg:
                cands = ["ext"]
            types.append(rng.choice(cands))
        bs = cfg["bs"]
        cluster = cfg.get("cluster", bs)
        limit = rng.choice([8 * bs, 40 * bs, 300 * bs, 1200 * bs])
        ops = []
        openst = [False] * len(types)
        # block numbers at which earlier preallocations and punches of a file begin and end: later writes, reads and
        # truncations are biased to land exactly there (first/last block of an extent, of a hole, of an uninit range)
        marks = [[] for _ in types]

        def at_mark(s):
            m = rng.choice(marks[s]) * bs + rng.choice([0, 0, 0, -1, 1, -bs, bs, bs // 2])
            return max(0, min(m, limit + 30 * bs))

        def motif(s):
            """preallocate, cut a hole out of the preallocation, preallocate the hole again, then touch the seams"""
            a = rng.below(max(1, limit // bs))
            n = rng.range(4, 24)
            k0 = rng.range(1, n - 2)
            m = rng.range(1, n - k0 - 1)
            fl = rng.choice([0x4, 0x4, 0x4, 0x8 | 0x4, 0, 0x8])
            seq = [["fa", s, fl, a, n]]
            if rng.chance(0.7):
                seq.append(["sz", s, (a + n) * bs - rng.choice([0, 0, 1, bs // 2])])
            seq.append(["pu", s, a + k0, a + k0 + m - 1])
            if rng.chance(0.8):
                seq.append(["fa", s, rng.choice([fl, fl, 0x4, 0x8 | 0x4]), a + k0, m])
            marks[s] += [a, a + k0, a + k0 + m, a + n]
            for _ in range(rng.range(1, 4)):
                seam = rng.choice([a, a + k0, a + k0 + m, a + k0 + m, a + n - 1, a + k0 - 1])
                if rng.chance(0.7):
                    seq.append(["wr", s, seam * bs + rng.choice([0, 0, 0, 1, bs // 2]), rng.choice([bs, 1, bs // 2, 2 * bs, 100])])
                else:
                    seq.append(["fl", s])
                if rng.chance(0.3):
                    seq.append(["fc", s])
            seq.append(["rd", s, max(0, (a - 1) * bs), (n + 2) * bs])
            return seq

        for _ in range(rng.range(10, 70)):
            s = rng.below(len(types))
            if types[s] == "ext" and rng.chance(0.04):
                ops += motif(s)
                continue
            k = rng.weighted([("wr", 30), ("rd", 28), ("sz", 8), ("gs", 3), ("pu", 8), ("fa", 6), ("fl", 4), ("fc", 4), ("reopenfs", 2)])
            use_mark = bool(marks[s]) and rng.chance(0.35)
            if k == "wr":
                ln = rng.weighted([(rng.range(1, 100), 3), (rng.range(100, 2 * bs), 3), (rng.range(2 * bs, 20 * bs), 3), (bs, 1), (cluster, 1)])
                ops.append(["wr", s, at_mark(s) if use_mark else boundary_offset(rng, bs, cluster, limit), ln])
            elif k == "rd":
                ln = rng.weighted([(rng.range(1, 200), 2), (rng.range(200, 4 * bs), 3), (rng.range(4 * bs, 40 * bs), 3), (limit + 4096, 2)])
                ops.append(["rd", s, at_mark(s) if use_mark else (boundary_offset(rng, bs, cluster, limit) if rng.chance(0.7) else 0), ln])
            elif k == "sz":
                ops.append(["sz", s, at_mark(s) if use_mark else boundary_offset(rng, bs, cluster, limit)])
            elif k == "pu":
                a = rng.choice(marks[s]) if use_mark else rng.below(limit // bs + 2)
                b = rng.choice([a, a + 1, a + rng.below(20), -1])
                ops.append(["pu", s, a, b])
                marks[s] += [a] + ([b + 1] if b >= 0 else [])
            elif k == "fa":
                if types[s] == "inline":
                    continue
                a = rng.choice(marks[s]) if use_mark else rng.below(limit // bs + 2)
                n = rng.range(1, 24)
                ops.append(["fa", s, rng.choice(FA_FLAGS), a, n])
                marks[s] += [a, a + n]
            else:
                ops.append([k, s])
        return {"cfg": cfg, "types": types, "ops": ops, "data_seed": rng.u64(), "fill": rng.chance(0.2), "initial": rng.choice(["poison", "poison", "zero"])}

    def execute(self, spec, wd):
        o = self.execute_inner(spec, wd)
        if "cluster" in spec["cfg"]:
            # bigalloc is its own body of code in the library's allocation and mapping paths
            for v in o.violations:
                v.key += "|bigalloc"
        if spec.get("fill"):
            # the filler file is written until the filesystem is full: what a write that ran into ENOSPC leaves behind
            for v in o.violations:
                if "|after_close|e2fsck:" in v.key:
                    v.key += "|fill"
        return o

    def execute_inner(self, spec, wd):
        o = Outcome()
        cfg = spec["cfg"]
        bs = cfg["bs"]
        img = os.path.join(wd, "img")
        make_device(img, cfg["size_kib"] * 1024, spec["initial"])
        c2 = dict(cfg)
        c2["extra_eopts"] = ["nodiscard"]
        r = run_sim(mkfs_argv(c2, img), Plan([img], None, rand_seed=5), wd, tag="mkfs")
        if r.status != 0:
            o.stats["world.rejected"] += 1
            o.trace = "rejected"
            return o
        rng = Rng(spec["data_seed"])
        data = bytearray()
        lines = ["data %s" % os.path.join(wd, "payload.bin"), "readout %s" % os.path.join(wd, "readout.bin"), "openfs img"]
        plan = []       # (kind, args...) aligned with result lines (excluding data/readout)
        plan.append(("openfs",))
        types = spec["types"]
        if spec["fill"]:
            # nearly full: one big file takes most of the free space
            fill = int(cfg["size_kib"] * 1024 * 0.82)
            lines += ["mk 15 filler blk" if "extent" not in cfg["features"] else "mk 15 filler ext", "fo 15 rw"]
            plan += [("mk", 15), ("fo", 15)]
            chunk = 256 * 1024
            off = 0
            d0 = len(data)
            data += rng.bytes(1024) * (chunk // 1024)
            while off < fill:
                lines.append("wr 15 %d %d %d" % (off, chunk, d0))
                plan.append(("fillwr", 15))
                off += chunk
            lines.append("fc 15")
            plan.append(("fc", 15))
        for i, t in enumerate(types):
            lines.append("mk %d file%d %s" % (i, i, t))
            plan.append(("mk", i))
            lines.append("fo %d rw" % i)
            plan.append(("fo", i))
        is_open = [True] * len(types)
        fa_used = []
        sizes = [0] * len(types)

        def ensure_open(s):
            if not is_open[s]:
                lines.append("fo %d rw" % s)
                plan.append(("fo", s))
                is_open[s] = True

        def ensure_closed(s):
            if is_open[s]:
                lines.append("fc %d" % s)
                plan.append(("fc", s))
                is_open[s] = False

        for op in spec["ops"]:
            k, s = op[0], op[1]
            if s >= len(types):
                continue
            if k == "wr":
                sizes[s] = max(sizes[s], op[2] + op[3])
                ensure_open(s)
                d0 = len(data)
                data += rng.bytes(97) * (op[3] // 97 + 1)
                del data[d0 + op[3]:]
                lines.append("wr %d %d %d %d" % (s, op[2], op[3], d0))
                plan.append(("wr", s, op[2], op[3], d0))
            elif k == "rd":
                ensure_open(s)
                lines.append("rd %d %d %d" % (s, op[2], op[3]))
                plan.append(("rd", s, op[2], op[3]))
            elif k == "sz":
                sizes[s] = op[2]
                ensure_open(s)
                lines.append("sz %d %d" % (s, op[2]))
                plan.append(("sz", s, op[2]))
            elif k == "gs":
                ensure_open(s)
                lines.append("gs %d" % s)
                plan.append(("gs", s))
            elif k == "fl":
                ensure_open(s)
                lines.append("fl %d" % s)
                plan.append(("fl", s))
            elif k == "fc":
                ensure_closed(s)
            elif k == "pu":
                ensure_closed(s)
                lines.append("pu %d %d %d" % (s, op[2], op[3]))
                plan.append(("pu", s, op[2], op[3]))
            elif k == "fa":
                fl, a, ln = op[2], op[3], op[4]
                if types[s] == "blk" or (fl & 0x2):
                    # initialised blocks must stay inside the file (see the model below): clip to the size the
                    # file will have if every earlier operation succeeds
                    ln = min(ln, sizes[s] // bs - a)
                    if ln <= 0:
                        continue
                    op = [k, s, fl, a, ln]
                ensure_closed(s)
                lines.append("fa %d %d %d %d" % (s, op[2], op[3], op[4]))
                plan.append(("fa", s, op[2], op[3], op[4]))
                fa_used.append((s, op[2], op[3], op[4]))
            elif k == "reopenfs":
                lines.append("reopenfs")
                plan.append(("closefs",))
                plan.append(("reopenfs",))
                is_open = [False] * len(types)
        # final full read of every file, then close
        for i in range(len(types)):
            ensure_open(i)
            lines.append("gs %d" % i)
            plan.append(("gs", i))
            lines.append("rd %d 0 %d" % (i, 6 << 20))
            plan.append(("rd", i, 0, 6 << 20))
        lines.append("closefs")
        plan.append(("closefs",))
        with open(os.path.join(wd, "payload.bin"), "wb") as f:
            f.write(data if data else b"\0")
        script = os.path.join(wd, "ops.script")
        with open(script, "w") as f:
            f.write("\n".join(lines) + "\n")
        r = run_sim([tool("h_fileio"), script], Plan([img], None, rand_seed=6, budget=2000000), wd, tag="fio", keep_log=True, cpu_s=60)
        o.trace = log_hash(r.events)
        o.sim_us += r.sim_us
        feats = ",".join(cfg["features"])
        where = "types %s, bs %d, features %s, %s device, %s" % (types, bs, feats, spec["initial"], "nearly full" if spec["fill"] else "mostly empty")
        if r.san or r.signal or r.timeout:
            o.violate("abnormal|%s|%s" % (r.san[0] if r.san else "signal", r.san[1] if r.san else ""),
                      "h_fileio ended abnormally (%s): %s\n%s" % (r.brief(), where, r.san_text or r.err.decode("latin1")[-500:]), skey="abnormal")
            return o
        res = []
        for ln in r.out.decode("latin1").splitlines():
            m = re.match(r"^(\d+) (\w+)(?:\([a-z ]+\))? ret=(-?\d+)(.*)$", ln)
            if m:
                res.append((m.group(2), int(m.group(3)), m.group(4)))
        if len(res) < len(plan):
            o.harness_error = "h_fileio produced %d results for %d operations; tail %r" % (len(res), len(plan), r.out[-300:])
            return o
        try:
            readout = open(os.path.join(wd, "readout.bin"), "rb").read()
        except FileNotFoundError:
            readout = b""
        model = [bytearray() for _ in types]
        created = [False] * len(types)
        rpos = 0
        overlap_reads = 0
        touched = [[] for _ in types]
        kinds = []
        enospc = 0
        init_beyond_eof = False
        for idx, p in enumerate(plan):
            kind, ret, tail = res[idx]
            k = p[0]
            if k in ("openfs", "reopenfs", "closefs"):
                if ret != 0:
                    o.violate("fs|%s_failed" % k, "%s returned %d: %s" % (k, ret, where), skey="fsop")
                    return o
                continue
            s = p[1]
            if k == "fillwr":
                m = re.search(r"wrote=(\d+)", tail)
                continue
            if s == 15:
                continue
            t = types[s]
            kinds.append(k)
            o.evals += 1
            if k == "mk":
                if ret != 0:
                    o.stats["outside.mk_failed"] += 1
                    return o
                created[s] = True
                continue
            M = model[s]
            if (spec["fill"] or ret in (2133571400, 28)) and ret != 0 and k != "pu":
                # (2133571400 = EXT2_ET_BLOCK_ALLOC_FAIL, 28 = ENOSPC: the small filesystem ran out of blocks by itself)
                # nearly full: allocation is deferred to the flush of the handle's buffer, so a failure surfaces at a
                # later operation and the bytes of the unflushed block are gone.  The failure was reported; what the
                # file holds afterwards is not defined by the statement.
                o.stats["outside.enospc_reported"] += 1
                o.stats["probe.operation_failed_nospace"] += 1
                return o
            if k == "wr":
                _k, _s, off, ln, d0 = p
                wrote = int(re.search(r"wrote=(\d+)", tail).group(1))
                if ret != 0:
                    enospc += 1
                if wrote > ln:
                    o.violate("%s|wr|wrote_too_much" % t, "write of %d bytes at %d reports wrote=%d: %s" % (ln, off, wrote, where), skey="wrote_too_much", op=idx)
                    return o
                if ret == 0 and wrote != ln:
                    o.violate("%s|wr|short_without_error" % t, "write of %d bytes at %d returned 0 but wrote=%d: %s" % (ln, off, wrote, where),
                              skey="short_without_error", op=idx)
                    return o
                if wrote:
                    if off > len(M):
                        M.extend(b"\0" * (off - len(M)))
                    M[off:off + wrote] = data[d0:d0 + wrote]
                    touched[s].append((off, off + wrote))
            elif k == "rd":
                _k, _s, off, ln = p
                got_n = int(re.search(r"got=(\d+)", tail).group(1))
                take = min(got_n, ln)
                got = readout[rpos:rpos + take]
                rpos += take
                exp = bytes(M[off:off + ln])
                if ret != 0:
                    o.violate("%s|rd|error" % t, "read(%d,%d) returned error %d (file size %d): %s" % (off, ln, ret, len(M), where), skey="rd_error", op=idx)
                    return o
                if any(a < off + ln and b > off for a, b in touched[s]):
                    overlap_reads += 1
                if got_n != len(exp) or got != exp:
                    if got_n != len(exp):
                        sym = "length"
                        det = "returned %d bytes, the model has %d (size %d)" % (got_n, len(exp), len(M))
                    else:
                        first = next(i for i in range(len(exp)) if got[i] != exp[i])
                        blk = (off + first) // bs
                        g = got[first:first + 8]
                        sym = "poison" if b"POISON" in got[max(0, first - 8):first + 16] else ("zeros_for_data" if g.strip(b"\0") == b"" else
                                                                                            ("data_for_zeros" if exp[first:first + 8].strip(b"\0") == b"" else "wrong_data"))
                        det = "byte %d of the file (logical block %d) is %r, the model has %r" % (off + first, blk, g, exp[first:first + 8])
                    lastops = [list(q) for q in plan[max(0, idx - 6):idx] if len(q) > 1 and q[1] == s]
                    o.violate("%s|rd|%s" % (t, sym), "read(off %d, len %d) of file%d (%s): %s; preceding operations on this file %s; %s" %
                              (off, ln, s, t, det, lastops, where), skey="rd|" + sym, op=idx)
                    return o
            elif k == "sz":
                if ret != 0:
                    enospc += 1
                    o.stats["outside.set_size_failed"] += 1
                    return o
                n = p[2]
                if n < len(M):
                    del M[n:]
                else:
                    M.extend(b"\0" * (n - len(M)))
                touched[s].append((0, 1 << 40))
            elif k == "gs":
                m = re.search(r"size=(\d+)", tail)
                if ret == 0 and int(m.group(1)) != len(M):
                    o.violate("%s|gs|size" % t, "get_lsize says %s, the model has %d: %s" % (m.group(1), len(M), where), skey="size", op=idx)
                    return o
            elif k == "pu":
                _k, _s, a, b = p
                if ret != 0:
                    if b != -1 and a > b:
                        continue       # EINVAL is the documented answer
                    o.stats["outside.punch_failed.%d" % ret] += 1
                    return o
                end = len(M) if b == -1 else min(len(M), (b + 1) * bs)
                start = min(len(M), a * bs)
                if t == "inline" and len(M) <= 60 + 200:
                    pass
                if end > start:
                    M[start:end] = b"\0" * (end - start)
                if b == -1 and start < len(M) + 1:
                    # punch to the end of the file truncates the mapping but not i_size
                    pass
                touched[s].append((start, max(start, end)))
            elif k == "fa":
                if ret != 0:
                    enospc += 1
                else:
                    _k, _s, fl, a, ln = p
                    # Initialised blocks beyond end of file are the caller's responsibility (mkjournal and ext2fs_link
                    # set i_size afterwards): block-mapped files cannot hold uninitialised blocks at all, and
                    # FORCE_INIT asks for initialised ones.  e2fsck rightly reports the size then.
                    if (a + ln) * bs > len(M) and (t == "blk" or (fl & 0x2) or (fl & 0x8)):
                        init_beyond_eof = True
            elif k in ("fo", "fl", "fc"):
                if ret != 0 and k == "fo":
                    o.violate("%s|fo|error" % t, "file_open returned %d: %s" % (ret, where), skey="fo", op=idx)
                    return o
                if ret != 0:
                    enospc += 1
        if enospc:
            o.stats["probe.operation_failed_nospace"] += enospc
        # ---- after close: independent re-read + consistency
        imgdata = open(img, "rb").read()
        try:
            fs = refext4.RefFS(data=imgdata)
            tree = fs.tree()
            for i, t in enumerate(types):
                e = tree.get(b"/file%d" % i)
                if e is None:
                    o.violate("%s|after_close|missing" % t, "file%d is not in the root directory after close: %s" % (i, where), skey="missing")
                    return o
                got = fs.read_file(e.inode)
                o.evals += 1
                if got != bytes(model[i]) and not enospc:
                    first = next((k2 for k2 in range(min(len(got), len(model[i]))) if got[k2] != model[i][k2]), min(len(got), len(model[i])))
                    o.violate("%s|after_close|content" % t, "independent re-read of file%d (%s) after close: %d bytes vs model %d, first difference at %d: %s" %
                              (i, t, len(got), len(model[i]), first, where), skey="after_close|content")
                    return o
            comp = fs.check()
        except Exception as ex:
            comp = [refext4.Complaint("R0.unparsable", repr(ex))]
        if comp:
            o.violate("%s|after_close|refext4:%s" % ("+".join(sorted(set(types))), comp[0].rule),
                      "independent checker after close: %s; %s" % ("; ".join("%s %s" % (c.rule, c.detail) for c in comp[:3]), where),
                      skey="after_close|refext4")
            return o
        rf, codes = e2fsck(img, ["-fn"], wd, tag="fn")
        o.evals += 1
        if init_beyond_eof and set(codes) <= {0x1000C, 0x1000D}:
            o.stats["outside.initialised_blocks_beyond_eof"] += 1
            codes = []
            rf.status = 0
        if (rf.status != 0 or codes) and not (rf.san or rf.signal or rf.timeout):
            tail = "\n".join(l for l in rf.out.decode("latin1").splitlines() if l.strip())[-700:]
            o.violate("%s|after_close|e2fsck:%s" % ("+".join(sorted(set(types))), ",".join("%x" % c for c in sorted(set(codes))[:4])),
                      "e2fsck -fn exits %s after close: %s\n%s" % (rf.status, where, tail), skey="after_close|e2fsck")
            return o
        if overlap_reads:
            o.distinct.add("%s|%d|%s|%s" % ("+".join(types), bs, ",".join("%s%d" % (k, kinds.count(k)) for k in sorted(set(kinds))), spec["fill"]))
            o.stats["probe.reads_over_written_ranges"] += overlap_reads
        for t in types:
            o.stats["type." + t] += 1
        o.sample = {"types": types, "bs": bs, "features": feats, "fill": spec["fill"], "ops": spec["ops"][:30]}
        return o

    def shrink(self, spec, v):
        ops = spec["ops"]
        n = len(ops)
        step = max(1, n // 3)
        while step >= 1:
            i = 0
            while i < len(ops):
                c = dict(spec)
                c["ops"] = ops[:i] + ops[i + step:]
                if len(c["ops"]) < len(ops):
                    yield c
                i += step
            step //= 2
        if len(spec["types"]) > 1:
            for i in range(len(spec["types"])):
                c = dict(spec)
                c["types"] = spec["types"][:i] + spec["types"][i + 1:]
                c["ops"] = [[o2[0], o2[1] - (1 if o2[1] > i else 0)] + o2[2:] for o2 in ops if o2[1] != i]
                yield c
        if spec["fill"]:
            c = dict(spec)
            c["fill"] = False
            yield c


if __name__ == "__main__":
    main(C09)
