#!/usr/bin/env python3
"""C10 — directory operations keep the namespace exact, at every directory size.

A seeded history of mkdir / write / symlink / mknod / ln / unlink / rm / rmdir runs through the real
debugfs (libext2fs ext2fs_link / ext2fs_unlink / ext2fs_mkdir / ext2fs_symlink, including the htree
insert and split code) on the simulated disk, in batches, interleaved with `e2fsck -fyD`.  A reference
model keeps, per object, its type, content, references and stored link count, applying to each command
exactly what debugfs documents it to do (`ln` and `unlink` are raw directory-entry operations; the
history issues the set_inode_field a user has to issue with them).

After every batch the independent reader lists the whole tree: the set of names, each name's type,
link count, content / target must equal the model, every name of an indexed directory must lie in the
hash range of its leaf (independent dirhash), and -- at the points where the model says references
and stored counts agree -- e2fsck -fn must exit 0 and the independent checker must agree.  At the end
everything the history created is removed again and the free inode and block counts must return to
what they were (conservation), except for blocks that directories which still exist keep.
"""
import hashlib
import os

import refext4
from framework import Check, Outcome, main
from simcore import Plan, Rng, log_hash, run_sim, tool
from world import NAME_CHARS, debugfs_script, e2fsck, gen_config, gen_content, mkfs

S_IFDIR, S_IFREG, S_IFLNK, S_IFIFO, S_IFCHR, S_IFBLK = 0o040000, 0o100000, 0o120000, 0o010000, 0o020000, 0o060000


def gen_name(rng, style):
    if style == "max":
        n = rng.range(236, 255)
    elif style == "long":
        n = rng.weighted([(rng.range(40, 120), 5), (rng.range(120, 255), 3), (255, 1)])
    elif style == "short":
        n = rng.range(1, 8)
    else:
        n = rng.weighted([(rng.range(1, 8), 4), (rng.range(9, 40), 4), (rng.range(100, 255), 1)])
    s = "".join(NAME_CHARS[rng.below(len(NAME_CHARS))] for _ in range(n))
    if s in (".", "..") or s.startswith("<"):
        s = "x" + s[1:] + "x"
    return s[:255]


class Model:
    """objects keyed by an id; names map to ids.  links = stored i_links_count, refs = directory references."""

    def __init__(self):
        self.obj = {0: {"type": S_IFDIR, "links": 3, "children": {}, "parent": 0}}     # root: '.', '..', lost+found/..
        self.nextid = 1

    def resolve(self, path):
        cur = 0
        for part in [p for p in path.split("/") if p]:
            o = self.obj[cur]
            if o["type"] != S_IFDIR or part not in o["children"]:
                return None
            cur = o["children"][part]
        return cur

    def paths(self):
        out = {}
        stack = [("", 0)]
        while stack:
            p, i = stack.pop()
            for n, c in self.obj[i]["children"].items():
                cp = p + "/" + n
                out[cp] = c
                if self.obj[c]["type"] == S_IFDIR:
                    stack.append((cp, c))
        return out

    def dirs(self):
        return [("/" if not p else p) for p, i in [("", 0)] + list(self.paths().items()) if self.obj[i]["type"] == S_IFDIR]

    def add(self, parent_id, name, o):
        i = self.nextid
        self.nextid += 1
        self.obj[i] = o
        self.obj[parent_id]["children"][name] = i
        return i


class C10(Check):
    pid = "C10"
    level = "exploration"
    rule = ("one case = (block size, dir_index/filetype/dir_nlink/metadata_csum/inline_data/large_dir mix) x a history of 40-900 "
            "namespace operations (mkdir, write, symlink, mknod, ln, unlink, rm, rmdir; legal ones and ones debugfs must refuse) in "
            "2-6 batches with `e2fsck -fyD` between some of them, concentrated on one or two directories that grow from empty through "
            "linear, one- and two-level index and shrink again; names of 1-255 characters.  Non-trivial = some directory reached an "
            "index (htree) or lost more than half of its entries; distinct = distinct (feature set, bs, max directory size class, "
            "index depth reached, number of batches).")
    assumptions = ["debugfs ln/unlink do not touch i_links_count (documented); the history pairs them with set_inode_field links_count, and "
                   "consistency is judged only when the model's references and stored counts agree",
                   "conservation allows directories that still exist (the root) to keep the blocks they grew into"]
    reference_models = ["namespace model in checks/C10.py", "ref/refext4.py tree_digest(), htree hash-range check (independent dirhash), check()"]

    def budget(self, tier):
        return {"runs": 1400, "wall_s": 80} if tier == "quick" else {"runs": 6000, "wall_s": 1500}

    def generate(self, rng, tier):
        cfg = gen_config(rng, small=True, avoid=("mmp", "bigalloc", "quota", "project", "has_journal", "orphan_file"))
        cfg["features"] = [f for f in cfg["features"] if f not in ("quota", "project")]
        if rng.chance(0.7):
            cfg["features"] = sorted(set(cfg["features"]) | {"dir_index"})
        if rng.chance(0.6):
            cfg["bs"] = 1024
            if cfg["inode_size"] > 1024:
                cfg["inode_size"] = 256
        cfg["size_kib"] = rng.choice([4096, 8192, 16384])
        cfg["inode_ratio"] = 4096
        nops = rng.weighted([(rng.range(40, 150), 3), (rng.range(150, 400), 3), (rng.range(400, 900), 2)])
        if tier == "thorough" and rng.chance(0.3):
            nops = rng.range(900, 2500)
        spec = {"cfg": cfg, "seed": rng.u64(), "nops": nops, "batches": rng.range(2, 6), "name_style": rng.choice(["long", "long", "mixed", "short"]),
                "fsck_D": [rng.chance(0.5) for _ in range(6)], "cleanup": rng.chance(0.7), "hot_dirs": rng.range(1, 2)}
        if rng.chance(0.04):
            spec.update({"grow": True, "name_style": "max", "nops": rng.range(600, 1100), "hot_dirs": 1, "batches": rng.range(3, 6),
                         "fsck_D": [True] + [rng.chance(0.3) for _ in range(5)]})
            cfg["bs"] = 1024
            cfg["inode_size"] = min(cfg["inode_size"], 256)
            cfg["features"] = sorted(set(cfg["features"]) | {"dir_index"})
            cfg["size_kib"] = 16384
        return spec

    # ------------------------------------------------------------------
    def _gen_batch(self, rng, M, spec, n, hosts, hot, indexed=()):
        """Extend the history by n operations; returns the debugfs commands.  Updates the model."""
        cmds = []
        style = spec["name_style"]
        for _ in range(n):
            dirs = M.dirs()
            pd = rng.choice(hot) if (hot and rng.chance(0.8)) else rng.choice(dirs)
            pid_ = M.resolve(pd)
            if pid_ is None or M.obj[pid_]["type"] != S_IFDIR:
                hot[:] = [h for h in hot if M.resolve(h) is not None] or ["/"]
                continue
            parent = M.obj[pid_]
            names = list(parent["children"])
            if spec.get("grow"):
                # one directory that only grows, with names as long as they get: on small blocks the index gains a second
                # level and its interior nodes fill up and split
                op = rng.weighted([("write", 80), ("mkdir", 6), ("ln", 6), ("rm", 4), ("bad", 2)])
            else:
                op = rng.weighted([("write", 30), ("mkdir", 10), ("symlink", 8), ("mknod", 4), ("ln", 8), ("rm", 22 if len(names) > 5 else 4),
                                   ("rmdir", 5), ("unlink", 4), ("bad", 3)])
            base = pd.rstrip("/")
            if op in ("write", "mkdir", "symlink", "mknod", "ln"):
                name = gen_name(rng, style)
                if name in parent["children"]:
                    continue
                path = base + "/" + name
                if len(path) > 3000:
                    continue
                if op == "write":
                    h = rng.below(len(hosts))
                    cmds.append('write "%s" "%s"' % (hosts[h][0], path))
                    M.add(pid_, name, {"type": S_IFREG, "links": 1, "refs": 1, "sha": hosts[h][1], "size": hosts[h][2]})
                elif op == "mkdir":
                    cmds.append('mkdir "%s"' % path)
                    M.add(pid_, name, {"type": S_IFDIR, "links": 2, "children": {}, "parent": pid_})
                    parent["links"] += 1
                    if rng.chance(0.15) and len(hot) < 3:
                        hot.append(path)
                elif op == "symlink":
                    t = "".join(NAME_CHARS[rng.below(len(NAME_CHARS))] for _ in range(rng.weighted([(rng.range(1, 59), 3), (rng.range(60, 300), 3)])))
                    cmds.append('symlink "%s" "%s"' % (path, t))
                    M.add(pid_, name, {"type": S_IFLNK, "links": 1, "refs": 1, "target": t.encode()})
                elif op == "mknod":
                    k = rng.choice(["p", "c", "b"])
                    cmds.append('cd "%s"' % (pd if pd else "/"))
                    if k == "p":
                        cmds.append('mknod "%s" p' % name)
                        M.add(pid_, name, {"type": S_IFIFO, "links": 1, "refs": 1})
                    else:
                        ma, mi = rng.below(256), rng.below(256)
                        cmds.append('mknod "%s" %s %d %d' % (name, k, ma, mi))
                        M.add(pid_, name, {"type": S_IFCHR if k == "c" else S_IFBLK, "links": 1, "refs": 1, "rdev": (ma, mi)})
                    cmds.append("cd /")
                else:   # ln: another name for an existing non-directory
                    allp = [(p, i) for p, i in M.paths().items() if M.obj[i]["type"] != S_IFDIR]
                    if not allp:
                        continue
                    sp, si = rng.choice(allp)
                    if M.obj[si]["links"] > 200:
                        continue
                    if (pd if pd else "/") not in indexed:
                        # debugfs ln does not grow a full *linear* directory itself (an indexed one grows inside ext2fs_link)
                        cmds.append('expand_dir "%s"' % (pd if pd else "/"))
                    cmds.append('ln "%s" "%s"' % (sp, path))
                    parent["children"][name] = si
                    M.obj[si]["refs"] += 1
                    M.obj[si]["links"] += 1
                    cmds.append('set_inode_field "%s" links_count %d' % (path, M.obj[si]["links"]))
            elif op == "rm":
                cand = [nm for nm in names if M.obj[parent["children"][nm]]["type"] != S_IFDIR]
                if not cand:
                    continue
                nm = rng.choice(cand)
                i = parent["children"].pop(nm)
                cmds.append('rm "%s/%s"' % (base, nm))
                M.obj[i]["refs"] -= 1
                M.obj[i]["links"] -= 1
            elif op == "unlink":
                # raw removal of one of several names of a file, plus the link-count fix through a remaining name
                cand = [nm for nm in names if M.obj[parent["children"][nm]]["type"] != S_IFDIR and M.obj[parent["children"][nm]]["refs"] > 1]
                if not cand:
                    continue
                nm = rng.choice(cand)
                i = parent["children"].pop(nm)
                cmds.append('unlink "%s/%s"' % (base, nm))
                M.obj[i]["refs"] -= 1
                M.obj[i]["links"] -= 1
                other = [p for p, j in M.paths().items() if j == i]
                cmds.append('set_inode_field "%s" links_count %d' % (other[0], M.obj[i]["links"]))
            elif op == "rmdir":
                cand = [nm for nm in names if M.obj[parent["children"][nm]]["type"] == S_IFDIR and not (pid_ == 0 and nm == "lost+found")]
                if not cand:
                    continue
                nm = rng.choice(cand)
                i = parent["children"][nm]
                cmds.append('rmdir "%s/%s"' % (base, nm))
                if not M.obj[i]["children"]:
                    del parent["children"][nm]
                    parent["links"] -= 1
                    hot[:] = [h for h in hot if h != base + "/" + nm and not h.startswith(base + "/" + nm + "/")] or ["/"]
                # else: debugfs must refuse ("directory not empty"), the model stays as it is
            else:
                # operations debugfs must refuse without changing anything
                if names:
                    nm = rng.choice(names)
                    i = parent["children"][nm]
                    k = rng.below(3)
                    if k == 0:
                        cmds.append('mkdir "%s/%s"' % (base, nm))                # name exists
                    elif k == 1 and M.obj[i]["type"] == S_IFDIR:
                        cmds.append('rm "%s/%s"' % (base, nm))                   # rm refuses directories
                    else:
                        cmds.append('write "%s" "%s/%s"' % (hosts[0][0], base, nm))   # name exists
        return cmds

    def execute(self, spec, wd):
        o = Outcome()
        cfg = spec["cfg"]
        rng = Rng(spec["seed"])
        self._depth = 0
        img = os.path.join(wd, "img")
        r = mkfs(cfg, img, wd, rand_seed=rng.u64() >> 1)
        if r.status != 0 or r.san:
            o.stats["world.rejected"] += 1
            o.trace = "rejected"
            return o
        hosts = []
        for i, size in enumerate([0, 17, 1500, 9000]):
            p = os.path.join(wd, "h%d" % i)
            data = gen_content(rng, size)
            with open(p, "wb") as f:
                f.write(data)
            hosts.append((p, hashlib.sha256(data).hexdigest(), len(data)))
        fs0 = refext4.RefFS(path=img)
        free_i0, free_b0 = fs0.sb["s_free_inodes_count"], fs0.sb["s_free_blocks_count"]
        root_blocks0 = fs0.read_inode(2).blocks + fs0.read_inode(11).blocks      # root and lost+found survive the cleanup
        M = Model()
        M.add(0, "lost+found", {"type": S_IFDIR, "links": 2, "children": {}, "parent": 0})
        hot = []
        hd = "/hot%d" % rng.below(1000)
        traces = []
        feats = ",".join(cfg["features"])
        clock = 1500001000
        nb = spec["batches"]
        per = max(1, spec["nops"] // nb)
        maxdir = 0
        depth_seen = 0
        where0 = "bs %d, features %s, names %s" % (cfg["bs"], feats, spec["name_style"])
        first = True
        for b in range(nb + (1 if spec["cleanup"] else 0)):
            if b < nb:
                pre_cmds = []
                if first:
                    pre_cmds.append('mkdir "%s"' % hd)
                    M.add(0, hd[1:], {"type": S_IFDIR, "links": 2, "children": {}, "parent": 0})
                    M.obj[0]["links"] += 1
                    hot.append(hd)
                    first = False
                indexed = set()
                try:
                    fsi = refext4.RefFS(path=img)
                    for pth, te in fsi.tree().items():
                        if te.inode.mode & 0o170000 == S_IFDIR and fsi.htree(te.inode):
                            indexed.add(pth.decode("latin1"))
                except Exception:
                    pass
                cmds = pre_cmds + self._gen_batch(rng, M, spec, per, hosts, hot, indexed)
                label = "batch %d/%d (%d commands)" % (b + 1, nb, len(cmds))
            else:
                # conservation: remove everything the history created (children before parents)
                cmds = []
                paths = sorted(M.paths().items(), key=lambda kv: -kv[0].count("/"))
                for p, i in paths:
                    if p == "/lost+found":
                        continue
                    ob = M.obj[i]
                    if ob["type"] == S_IFDIR:
                        cmds.append('rmdir "%s"' % p)
                        M.obj[ob["parent"]]["links"] -= 1
                    else:
                        cmds.append('rm "%s"' % p)
                        ob["refs"] -= 1
                        ob["links"] -= 1
                    par = M.resolve(p.rsplit("/", 1)[0] or "/")
                    del M.obj[par]["children"][p.rsplit("/", 1)[1]]
                label = "cleanup (%d commands)" % len(cmds)
            if not cmds:
                continue
            rr = debugfs_script(img, cmds, wd, tag="b%d" % b, clock=clock, rand_seed=rng.u64() >> 1, keep_log=True)
            traces.append(log_hash(rr.events))
            o.sim_us += rr.sim_us
            clock += 1000
            if rr.san or rr.signal or rr.timeout:
                o.violate("abnormal|debugfs|%s" % (rr.san[0] if rr.san else "signal"), "debugfs ended abnormally during %s (%s): %s\n%s" %
                          (label, rr.brief(), where0, rr.san_text or rr.err.decode("latin1")[-400:]), skey="abnormal")
                break
            if b"Could not allocate" in rr.out + rr.err:
                # the filesystem filled up: which of the remaining commands were refused is not modelled
                o.stats["outside.filesystem_full"] += 1
                o.trace = hashlib.sha256("".join(traces).encode()).hexdigest()
                return o
            if b < nb and spec["fsck_D"][b] and "dir_index" in cfg["features"]:
                rf, _c = e2fsck(img, ["-fyD"], wd, tag="D%d" % b, clock=clock, problems=False, keep_log=True)
                traces.append(log_hash(rf.events))
                clock += 1000
                label += " + e2fsck -fyD (status %s)" % rf.status
                o.stats["probe.fsck_D"] += 1
                if rf.status not in (0, 1) and not (rf.san or rf.signal or rf.timeout):
                    tail = "\n".join(l for l in rf.out.decode("latin1").splitlines() if l.strip())[-500:]
                    o.violate("fsckD|status%s" % rf.status, "e2fsck -fyD after %s exits %s: %s\n%s" % (label, rf.status, where0, tail), skey="fsckD")
                    break
            # ---- the oracle
            if not self._judge(o, spec, img, M, label, where0, wd, clock, hd):
                break
            sizes = [len(ob["children"]) for ob in M.obj.values() if ob["type"] == S_IFDIR]
            maxdir = max([maxdir] + sizes)
        # ---- conservation
        if spec["cleanup"] and not o.violations:
            fs1 = refext4.RefFS(path=img)
            fi, fb = fs1.sb["s_free_inodes_count"], fs1.sb["s_free_blocks_count"]
            # the superblock totals are only hints; add up the group descriptors (what e2fsck checks)
            gi = sum(fs1.group_desc(g)["bg_free_inodes_count"] for g in range(fs1.group_count))
            gb = sum(fs1.group_desc(g)["bg_free_blocks_count"] for g in range(fs1.group_count))
            gi0 = sum(fs0.group_desc(g)["bg_free_inodes_count"] for g in range(fs0.group_count))
            gb0 = sum(fs0.group_desc(g)["bg_free_blocks_count"] for g in range(fs0.group_count))
            root_grow = (fs1.read_inode(2).blocks + fs1.read_inode(11).blocks - root_blocks0) * 512 // fs1.block_size
            o.evals += 1
            if gi != gi0:
                o.violate("conservation|inodes", "after removing everything the history created %d inodes are free, %d were free at the start: %s" %
                          (gi, gi0, where0), skey="conservation")
            elif gb + root_grow != gb0:
                o.violate("conservation|blocks", "after removing everything the history created %d blocks are free (+%d / and /lost+found "
                          "grew by), %d were free at the start: %s" % (gb, root_grow, gb0, where0), skey="conservation")
            else:
                o.stats["probe.conserved"] += 1
        cls = "small" if maxdir < 30 else "medium" if maxdir < 150 else "large"
        if self._depth or maxdir >= 150:
            o.distinct.add("%s|%d|%s|depth%d|%d" % (feats, cfg["bs"], cls, self._depth, spec["batches"]))
        o.stats["dirsize." + cls] += 1
        o.stats["probe.htree_depth_%d" % self._depth] += 1
        o.sample = {"bs": cfg["bs"], "features": feats, "ops": spec["nops"], "batches": spec["batches"], "max_dir_entries": maxdir,
                    "index_depth_reached": self._depth}
        o.trace = hashlib.sha256("".join(traces).encode()).hexdigest()
        return o

    _depth = 0

    def _judge(self, o, spec, img, M, label, where0, wd, clock, hd):
        o.evals += 1
        where = "after %s: %s" % (label, where0)
        try:
            fs = refext4.RefFS(path=img)
            _d, recs = fs.tree_digest(include_mtime=False, skip=())
        except Exception as ex:
            o.violate("unreadable", "the independent reader cannot walk the tree (%r) %s" % (ex, where), skey="unreadable")
            return False
        if getattr(fs, "tree_problems", None):
            o.violate("tree|problem", "walking the tree: %s %s" % (fs.tree_problems[:3], where), skey="tree")
            return False
        want = M.paths()
        got = set(p.decode("latin1") for p in recs if p != b"/")
        wantset = set(want)
        if got != wantset:
            missing = sorted(wantset - got)[:4]
            extra = sorted(got - wantset)[:4]
            kind = "missing" if missing else "unexpected"
            o.violate("names|%s" % kind, "listing differs from the model: %d name(s) missing %s, %d unexpected %s %s" %
                      (len(wantset - got), [m[-60:] for m in missing], len(got - wantset), [e[-60:] for e in extra], where), skey="names")
            return False
        agree = True
        for p, i in want.items():
            ob = M.obj[i]
            rec = recs[p.encode("latin1")]
            if rec["type"] != ob["type"]:
                o.violate("type", "%s is %o on disk, the model says %o %s" % (p[-80:], rec["type"], ob["type"], where), skey="type")
                return False
            if rec.get("error"):
                o.violate("object|unreadable", "%s: %s %s" % (p[-80:], rec["error"], where), skey="object")
                return False
            links = ob["links"]
            if ob["type"] == S_IFDIR and links >= 65000:
                links = rec["links"]        # dir_nlink: the count saturates
            if rec["links"] != links:
                o.violate("links|%s" % ("dir" if ob["type"] == S_IFDIR else "nondir"), "%s has link count %d on disk, the model says %d %s" %
                          (p[-80:], rec["links"], links, where), skey="links")
                return False
            if ob["type"] != S_IFDIR and ob.get("refs") != ob["links"]:
                agree = False
            if ob["type"] == S_IFREG and (rec.get("sha256") != ob["sha"] or rec.get("size") != ob["size"]):
                o.violate("content", "%s holds %s bytes (sha %s...), the model says %d bytes %s" %
                          (p[-80:], rec.get("size"), str(rec.get("sha256"))[:12], ob["size"], where), skey="content")
                return False
            if ob["type"] == S_IFLNK and rec.get("target") != ob["target"]:
                o.violate("target", "symlink %s -> %r, the model says %r %s" % (p[-80:], rec.get("target", b"")[:60], ob["target"][:60], where),
                          skey="target")
                return False
            if ob["type"] in (S_IFCHR, S_IFBLK) and tuple(rec.get("rdev", ())) != tuple(ob["rdev"]):
                o.violate("rdev", "device node %s is %s, the model says %s %s" % (p[-80:], rec.get("rdev"), ob["rdev"], where), skey="rdev")
                return False
        # root link count
        if recs[b"/"]["links"] != M.obj[0]["links"]:
            o.violate("links|dir", "/ has link count %d on disk, the model says %d %s" % (recs[b"/"]["links"], M.obj[0]["links"], where), skey="links")
            return False
        # index depth reached (probe) -- and the hash-range / structure check of every indexed directory
        try:
            for p, i in list(want.items()) + [("/", 0)]:
                if M.obj[i]["type"] == S_IFDIR and len(M.obj[i]["children"]) > 8:
                    ino = recs[p.encode("latin1")]["ino"] if p != "/" else 2
                    ht = fs.htree(fs.read_inode(ino))
                    if ht:
                        self._depth = max(self._depth, ht["indirect_levels"] + 1)
        except Exception:
            pass
        if agree:
            rn, cn = e2fsck(img, ["-fn"], wd, tag="fn", clock=clock + 500)
            o.evals += 1
            if (rn.status != 0 or cn) and not (rn.san or rn.signal or rn.timeout):
                tail = "\n".join(l for l in rn.out.decode("latin1").splitlines() if l.strip())[-600:]
                o.violate("e2fsck|%s" % ",".join("%x" % c for c in sorted(set(cn))[:4]), "e2fsck -fn exits %s (problems %s) %s\n%s" %
                          (rn.status, ["%#x" % c for c in sorted(set(cn))[:8]], where, tail), skey="e2fsck")
                return False
        # the independent checker: directory blocks, htree structure and hash ranges (its other rules are C02's subject and
        # are reported there; here e2fsck -fn above is the judge of bitmaps, counts and reachability)
        comp = [c for c in fs.check() if c.rule.startswith(("R4", "R5")) or "htree" in c.rule.lower() or "dir" in c.rule.lower()]
        if comp:
            o.violate("refext4|%s" % comp[0].rule, "independent checker complains about directory structure (%d): %s %s" %
                      (len(comp), "; ".join("%s %s" % (c.rule, c.detail) for c in comp[:3]), where), skey="refext4")
            return False
        return True

    def shrink(self, spec, v):
        if spec["batches"] > 1:
            c = dict(spec)
            c["batches"] = 1
            yield c
        if spec["nops"] > 60:
            for f in (0.5, 0.75):
                c = dict(spec)
                c["nops"] = int(spec["nops"] * f)
                yield c
        if any(spec["fsck_D"]):
            c = dict(spec)
            c["fsck_D"] = [False] * 6
            yield c
        if spec["cleanup"] and not v["key"].startswith("conservation"):
            c = dict(spec)
            c["cleanup"] = False
            yield c
        feats = spec["cfg"]["features"]
        for f in feats:
            c = dict(spec)
            c["cfg"] = dict(spec["cfg"])
            c["cfg"]["features"] = [x for x in feats if x != f]
            yield c


if __name__ == "__main__":
    main(C10)
