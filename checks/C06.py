#!/usr/bin/env python3
"""C06 — no memory-safety violation, crash or hang on arbitrary input.

Decided as an invariant over simulated runs: every tool and mode of the statement is run, built
with ASan + UBSan(bounds), on the image states the simulator produces (media faults addressed by
structure, raw sector faults, truncated devices, crashed writers, unrecovered journals), on
fault-injected undo files and qcow2 images, with read faults while running.  Termination is
bounded by a simulated-step budget (device events) plus a CPU-time cap.
"""
import hashlib
import os
import re
import shutil
import struct

from battery import INVOCATIONS, ro_argv
from framework import Check, Outcome, main
import simcore
from simcore import Plan, Rng, derive_seed, log_hash, run_sim, tool
from states import make_state
import minifs

EXTRA = ["e2fsck-p", "e2fsck-y", "e2fsck-fy", "e2fsck-fyD", "e2undo", "e2undo-f", "qcow2raw", "e2fsck-n-extjournal"]
RO = [i for i in INVOCATIONS if i not in ("e2undo-n",)]

# qcow2 header fields (big-endian): offset, size
QCOW_FIELDS = [(0, 4), (4, 4), (8, 8), (16, 4), (20, 4), (24, 8), (32, 4), (36, 4), (40, 8), (48, 8), (56, 4), (60, 4), (64, 8)]
INTERESTING = [0, 1, 2, 7, 8, 9, 12, 16, 21, 31, 32, 63, 64, 0xFF, 0x200, 0xFFFF, 0x10000, 0x7FFFFFFF, 0x80000000, 0xFFFFFFFF,
               0x100000000, 0x7FFFFFFFFFFFFFFF, 0xFFFFFFFFFFFFFFFF]


def corrupt_file(rng, path, n, header_len, be_fields=None):
    """n seeded faults in a container file (undo / qcow2): header fields, words, sectors."""
    data = bytearray(open(path, "rb").read())
    what = []
    if not data:
        return what
    for _ in range(n):
        how = rng.below(5)
        if how == 0 and be_fields:
            off, size = rng.choice(be_fields)
            v = rng.choice(INTERESTING) & ((1 << 8 * size) - 1)
            data[off:off + size] = v.to_bytes(size, "big")
            what.append("hdr@%d=%#x" % (off, v))
        elif how == 1:
            off = rng.below(min(len(data), header_len))
            data[off] ^= 1 << rng.below(8)
            what.append("hdrbit@%d" % off)
        elif how == 2:
            off = rng.below(max(1, len(data) // 4)) * 4
            size = rng.choice([2, 4, 8])
            v = rng.choice(INTERESTING) & ((1 << 8 * size) - 1)
            data[off:off + size] = v.to_bytes(size, rng.choice(["big", "little"]))[:max(0, len(data) - off)]
            what.append("word@%d=%#x" % (off, v))
        elif how == 3:
            sec = rng.below(max(1, len(data) // 512))
            data[sec * 512:sec * 512 + 512] = rng.bytes(512)[:max(0, len(data) - sec * 512)]
            what.append("randsec@%d" % sec)
        else:
            cut = rng.below(len(data))
            del data[cut:]
            what.append("truncate@%d" % cut)
            if not data:
                data = bytearray(b"\0")
    with open(path, "wb") as f:
        f.write(data)
    return what


UNDO_HDR = [("num_keys", 8, 8), ("super_offset", 16, 8), ("key_offset", 24, 8), ("block_size", 32, 4), ("fs_block_size", 36, 4),
            ("state", 44, 4), ("f_compat", 48, 4), ("f_incompat", 52, 4), ("f_rocompat", 56, 4), ("fs_offset", 64, 8)]


def undo_struct_faults(rng, path, n):
    """Seeded faults addressed by the structure of an undo file (lib/ext2fs/undo_io.c): header fields and the
    fsblk / crc / size fields of keys set to boundary values, most of the time with the key-block and header
    checksums re-sealed so that the value gets past the integrity checks of a run without -f."""
    from refext4 import crc32c
    data = bytearray(open(path, "rb").read())
    what = []
    for _ in range(n):
        if len(data) < 512 or data[:8] != b"E2UNDO02":
            break
        num_keys, _so, key_off, bs, _fbs = struct.unpack_from("<QQQII", data, 8)
        seal = rng.chance(0.7)
        keyblocks = []
        if 1024 <= bs <= (1 << 20) and num_keys:
            kpb = bs // 16 - 1
            lblk, i = key_off, 0
            while i < num_keys and len(keyblocks) < 64:
                o = lblk * bs
                if o + bs > len(data) or struct.unpack_from("<I", data, o)[0] != 0xCADECADE:
                    break
                nk = min(kpb, num_keys - i)
                keyblocks.append((o, nk))
                lblk += 1
                for j in range(nk):
                    lblk += (struct.unpack_from("<I", data, o + 16 + 16 * j + 12)[0] + bs - 1) // bs
                i += kpb
        if keyblocks and rng.chance(0.6):
            o, nk = rng.choice(keyblocks)
            j = rng.below(nk)
            fo = o + 16 + 16 * j
            name, off, size = rng.choice([("fsblk", 0, 8), ("blk_crc", 8, 4), ("size", 12, 4), ("size", 12, 4)])
            cur = int.from_bytes(data[fo + off:fo + off + size], "little")
            if name == "size":
                v = rng.choice([0, 1, bs - 1, bs + 1, 512 * bs, 512 * bs + 1, 0x80000000, 0xFFFFFFFF, 0xFFFFFFFF - bs + 2,
                                0xFFFFFFFF - rng.below(bs), cur + bs, cur * 2])
            elif name == "fsblk":
                v = rng.choice([0, cur + 1, 0xFFFFFFFF, 1 << 32, (1 << 63) - 1, (1 << 64) - 1, (1 << 64) // max(1, _fbs), cur ^ (1 << rng.below(40))])
            else:
                v = rng.choice(INTERESTING)
            v &= (1 << 8 * size) - 1
            data[fo + off:fo + off + size] = v.to_bytes(size, "little")
            if seal:
                kb = bytes(data[o:o + 4]) + b"\0\0\0\0" + bytes(data[o + 8:o + bs])
                struct.pack_into("<I", data, o + 4, crc32c(0xFFFFFFFF, kb))
            what.append("key.%s=%#x%s" % (name, v, "~sealed" if seal else ""))
        else:
            name, off, size = rng.choice(UNDO_HDR)
            cur = int.from_bytes(data[off:off + size], "little")
            v = rng.choice(INTERESTING + [cur + 1, max(0, cur - 1), cur * 2, cur | (1 << 61), cur ^ (1 << rng.below(8 * size))])
            v &= (1 << 8 * size) - 1
            data[off:off + size] = v.to_bytes(size, "little")
            if seal:
                struct.pack_into("<I", data, 508, crc32c(0xFFFFFFFF, bytes(data[:508])))
            what.append("uhdr.%s=%#x%s" % (name, v, "~sealed" if seal else ""))
    with open(path, "wb") as f:
        f.write(data)
    return what


class C06(Check):
    pid = "C06"
    level = "exploration"
    rule = ("one case = (tool+mode, input kind, image/container state); inputs are fault-produced: structure-addressed and raw "
            "sector media faults, truncated device, power-loss crash of a writer, unrecovered journal, corrupted undo file, "
            "corrupted qcow2 image, plus read faults (EIO/short/bad sector) while the tool runs.  Non-trivial = the tool read "
            "the input (>=1 device read or container parsed); distinct = distinct (tool+mode, state kind, fault-class "
            "signature, exit status).")
    assumptions = ["ASan runs with allocator_may_return_null=1 and max_allocation_size_mb=1024: an absurd allocation request read "
                   "from the image gets ENOMEM, which is the environment's legitimate answer",
                   "bounded time = at most 300000 device events (simulated steps) and 10 s of CPU time per process",
                   "exit status is judged for e2fsck only (documented bit set 0,1,2,4,8,16,32,128); the other tools document no "
                   "status table, for them any normal exit is accepted and the histogram is reported"]
    reference_models = ["ASan/UBSan(bounds) reports, terminating signals, step budget"]

    def budget(self, tier):
        return {"runs": 1500, "wall_s": 100} if tier == "quick" else {"runs": 15000, "wall_s": 1500}

    def generate(self, rng, tier):
        kind = rng.weighted([("faults", 12), ("crashed_writer", 3), ("journal+faults", 3), ("journal", 1), ("orphan", 1), ("clean", 1),
                             ("fastcommit", 3)])
        invs = rng.sample(RO + EXTRA + ["e2fsck-y", "e2fsck-p", "e2fsck-n", "debugfs", "debugfs"], rng.range(4, 8))
        spec = {"world_seed": rng.u64(), "state": kind, "faults": None, "nfaults": rng.weighted([(1, 4), (2, 3), (3, 2), (5, 1)]),
                "invocations": invs, "dbg_seed": rng.u64(), "read_fault": None, "aux_seed": rng.u64(), "truncate": None}
        # a share of the fault states aims at the superblock's geometry fields (with the checksum re-sealed most of the
        # time): every size, count and divisor in the tools derives from them
        spec["geometry"] = kind in ("faults", "journal+faults") and rng.chance(0.25)
        if rng.chance(0.25):
            spec["read_fault"] = [rng.choice(["eio_r", "short_r", "bad_r", "eof_r"]), rng.range(1, 60), rng.range(0, 4000)]
        if rng.chance(0.08):
            spec["truncate"] = rng.range(1, 99)
        return spec

    def execute(self, spec, wd):
        o = Outcome()
        rng = Rng(spec["world_seed"])
        if spec.get("geometry"):
            st = make_state(rng, wd, spec["state"], nfaults=spec["nfaults"], faults=spec["faults"], fault_gen="struct",
                            fault_classes={"sb_geometry": 4, "gd": 1}, reseal_p=0.7)
        else:
            st = make_state(rng, wd, spec["state"], nfaults=spec["nfaults"], faults=spec["faults"])
        if st is None:
            o.stats["world.rejected"] += 1
            o.trace = "rejected"
            return o
        img = st["img"]
        if spec["truncate"]:
            sz = os.path.getsize(img)
            with open(img, "r+b") as f:
                f.truncate(max(2048, sz * spec["truncate"] // 100))
        feats = ",".join(st["cfg"]["features"])
        sig = "+".join(sorted(set(f["cls"] for f in st["faults"]))) or spec["state"]
        traces = []
        work = os.path.join(wd, "work.img")
        for inv in spec["invocations"]:
            # per-invocation streams: dropping other invocations while shrinking must not change this one
            irng = Rng(derive_seed(spec["dbg_seed"], inv))
            arng = Rng(derive_seed(spec["aux_seed"], inv))
            shutil.copyfile(img, work)
            st2 = dict(st)
            st2["img"] = work
            aux_what = []
            devices = [work]
            if inv.startswith("e2fsck-") and inv != "e2fsck-n-extjournal" and inv not in INVOCATIONS:
                argv = [tool("e2fsck"), "-" + inv.split("-", 1)[1], work]
            elif inv in ("e2undo", "e2undo-f"):
                undo = os.path.join(wd, "c06.e2undo")
                if os.path.exists(undo):
                    os.unlink(undo)
                writer = arng.choice([[tool("tune2fs"), "-z", undo, "-r", "13", "-L", "x", work],
                                      [tool("e2fsck"), "-fy", "-z", undo, work],
                                      [tool("debugfs"), "-w", "-z", undo, "-R", "mkdir /c06dir", work]])
                run_sim(writer, Plan([work], None, clock=1500003000), wd, tag="mkundo")
                if not os.path.exists(undo):
                    o.stats["skip." + inv] += 1
                    continue
                if arng.chance(0.5):
                    aux_what = undo_struct_faults(arng, undo, arng.range(1, 2))
                    if arng.chance(0.3):
                        aux_what += corrupt_file(arng, undo, 1, 4096)
                else:
                    aux_what = corrupt_file(arng, undo, arng.range(0, 3), 4096)
                argv = [tool("e2undo")] + (["-f"] if inv == "e2undo-f" else []) + [undo, work]
            elif inv == "qcow2raw":
                q = os.path.join(wd, "c06.qcow2")
                if os.path.exists(q):
                    os.unlink(q)
                run_sim([tool("e2image"), "-Q", work, q], Plan([work], None, clock=1500003000), wd, tag="mkq")
                if not os.path.exists(q) or os.path.getsize(q) == 0:
                    o.stats["skip." + inv] += 1
                    continue
                aux_what = corrupt_file(arng, q, arng.range(1, 3), 104, QCOW_FIELDS)
                argv = [tool("e2image"), "-r", q, os.path.join(wd, "out.raw")]
                devices = [work]
            elif inv == "e2fsck-n-extjournal":
                o.stats["skip." + inv] += 1
                continue
            else:
                argv = ro_argv(inv, st2, wd, irng)
                if argv is None:
                    continue
            faults = []
            if spec["read_fault"]:
                k, nth, a = spec["read_fault"]
                if k == "bad_r":
                    faults = [(k, 0, 0, a * 1024, 4096)]
                elif k == "eof_r":
                    faults = [(k, 0, 0, max(4096, os.path.getsize(work) - a * 1024), 0)]
                else:
                    faults = [(k, 0, nth, a if k == "short_r" else 1, 0)]
            pl = Plan(devices, None, clock=1500005000, rand_seed=spec["dbg_seed"] >> 1, faults=faults, budget=300000)
            r = run_sim(argv, pl, wd, tag="t", cpu_s=10)
            o.evals += 1
            o.sim_us += r.sim_us
            traces.append(log_hash(r.events))
            o.stats["status.%s.%s" % (inv, r.status)] += 1
            if spec["read_fault"] and any(e.fault for e in r.events if e.kind == "R"):
                o.stats["fault." + spec["read_fault"][0]] += 1
            if any(e.kind == "R" for e in r.events) or aux_what:
                o.distinct.add("%s|%s|%s|%s" % (inv, spec["state"], sig + "/" + ",".join(sorted(set(w.split("@")[0] for w in aux_what))), r.status))
            where = "%s on %s image [%s]%s, features %s bs %d, read_fault %s, argv %s" % (
                inv, spec["state"], "; ".join(f["what"] for f in st["faults"]) or str(st["details"])[:160],
                (" container faults %s" % aux_what) if aux_what else "", feats, st["cfg"]["bs"], spec["read_fault"],
                " ".join(os.path.basename(a) if a.startswith("/") else a for a in r.argv))
            extra = {"faults": st["faults"], "invocation": inv}
            if r.san:
                kind, frame = r.san
                o.violate("%s|%s|%s" % (inv.split("-")[0] if inv.startswith("e2fsck") else inv, kind, frame),
                          "sanitizer report %s in %s: %s\n%s" % (kind, frame, where, r.san_text), **extra)
            elif r.timeout or r.budget_hit:
                hk = "%s|hang|%s" % (inv, "events" if r.budget_hit else "cpu")
                extra["skey"] = hk
                if not r.budget_hit:
                    extra["trace_free"] = True
                o.violate("%s|%s%s" % (hk, sig, ("/" + ",".join(sorted(set(w.split("@")[0] for w in aux_what)))) if aux_what else ""),
                          "no termination within the bound (%s): %s" % ("device-event budget" if r.budget_hit else "10 s CPU", where), **extra)
            elif r.signal == 25:
                # SIGXFSZ: the tool produced more output than the simulation allows (e.g. `debugfs cat` of a
                # file whose damaged size is a terabyte); output volume proportional to a size field is not a hang
                o.stats["outside.output_limit"] += 1
            elif r.signal:
                o.violate("%s|signal%d" % (inv, r.signal), "killed by signal %d: %s\n%s" % (r.signal, where, r.err.decode("latin1")[-600:]), **extra)
            elif inv.startswith("e2fsck") and re.search(rb"^Signal \((\d+)\) SIG", r.out + b"\n" + r.err, re.M):
                # e2fsck installs a handler that prints the fatal signal and a backtrace and then exits 8
                m = re.search(rb"^Signal \((\d+)\) (SIG[A-Z]+)", r.out + b"\n" + r.err, re.M)
                o.violate("e2fsck|caught_signal%d" % int(m.group(1)), "fatal signal %s caught by e2fsck's own handler: %s\n%s" %
                          (m.group(2).decode(), where, (r.out + r.err).decode("latin1")[-900:]), **extra)
            elif inv.startswith("e2fsck") and r.status is not None and (r.status & ~0xBF):
                o.violate("%s|status%d" % (inv, r.status), "undocumented exit status %d: %s" % (r.status, where), **extra)
            for f in os.listdir(wd):
                if f.startswith("out."):
                    os.unlink(os.path.join(wd, f))
            simcore.rmtree(wd + "/rdump")
        o.stats["state." + spec["state"]] += 1
        o.trace = hashlib.sha256("".join(traces).encode()).hexdigest()
        o.sample = {"state": spec["state"], "features": feats, "faults": [f["what"] for f in st["faults"]],
                    "invocations": spec["invocations"], "read_fault": spec["read_fault"], "truncate_pct": spec["truncate"]}
        return o

    def shrink(self, spec, v):
        inv = v["extra"].get("invocation")
        if inv and spec["invocations"] != [inv]:
            c = dict(spec)
            c["invocations"] = [inv]
            yield c
        if spec.get("read_fault"):
            c = dict(spec)
            c["read_fault"] = None
            yield c
        if spec.get("truncate"):
            c = dict(spec)
            c["truncate"] = None
            yield c
        faults = spec["faults"] if spec["faults"] is not None else v["extra"].get("faults") or []
        if spec["state"] in ("faults", "journal+faults") and len(faults) > 1:
            for i in range(len(faults)):
                c = dict(spec)
                c["faults"] = faults[:i] + faults[i + 1:]
                yield c


if __name__ == "__main__":
    main(C06)
