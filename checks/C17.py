#!/usr/bin/env python3
"""C17 — block I/O layer: coherent, durable on flush, failures reported; threaded bitmap loading
equals single-threaded loading and is race-free.

Part 1 (iochan): a scripted history of channel operations runs through the real unix_io (cache,
bounce buffer, direct path, undo wrapper) on the simulated disk, with device faults injected at
seeded events, and is compared operation by operation with a flat byte-array model of the device.
Part 2 (threads): ext2fs_read_bitmaps with N simulated CPUs under the seeded scheduler (every
pthread call and every device read is a scheduling point) must load the same bitmaps and flags as
with one CPU; a ThreadSanitizer build runs the same schedules with the scheduler hand-off
invisible to TSan.
"""
import hashlib
import os
import re
import shutil
import subprocess

from framework import Check, Outcome, main
from simcore import BUILD, Plan, Rng, derive_seed, log_hash, make_device, run_sim, tool
from world import build_world, gen_config, mkfs

CONFIGS = ["default", "cacheoff", "writethrough", "bounce", "offset", "undo"]
EXT2_ET_UNIMPLEMENTED = 2133571399
EXT2_ET_SHORT_READ = 2133571364
EXT2_ET_SHORT_WRITE = 2133571365


def gen_ops(rng, nblocks_1k):
    ops = []
    bs = rng.choice([1024, 1024, 2048, 4096])
    ops.append(("setbs", bs))
    n = rng.range(8, 60)
    hot = rng.range(0, max(1, nblocks_1k * 1024 // bs - 40))
    for _ in range(n):
        limit = nblocks_1k * 1024 // bs
        k = rng.weighted([("r", 30), ("w", 30), ("wb", 8), ("z", 6), ("d", 4), ("ra", 4), ("f", 6), ("setbs", 3), ("reopen", 2)])
        blk = hot + rng.below(24) if rng.chance(0.8) else rng.below(limit - 13)
        blk = min(blk, limit - 13)
        if k in ("r", "w"):
            how = rng.below(10)
            if how < 6:
                cnt = rng.weighted([(1, 6), (2, 2), (rng.range(3, 5), 2), (rng.range(5, 12), 3)])
            elif how < 9:
                cnt = -rng.choice([1, 7, 100, 512, 513, bs - 1, bs + 1, 2 * bs + 17, 3 * bs])   # bytes
            else:
                cnt = -bs
            ops.append((k, blk, cnt))
        elif k == "wb":
            off = blk * bs + rng.below(bs)
            ops.append(("wb", off, rng.choice([1, 2, 4, 16, 100, bs, bs + 5])))
        elif k in ("z", "d", "ra"):
            ops.append((k, blk, rng.range(1, 8)))
        elif k == "f":
            ops.append(("f",))
        elif k == "setbs":
            bs = rng.choice([1024, 2048, 4096])
            ops.append(("setbs", bs))
        else:
            ops.append(("reopen",))
    ops.append(("c",))
    return ops


class C17(Check):
    pid = "C17"
    level = "exploration"
    flavours = ("asan", "tsan")
    rule = ("iochan: one case = (channel configuration default/cache off/write-through/bounce buffer/offset/undo-wrapped) x a history "
            "of 8-60 operations (read/write of 1-12 blocks or odd byte counts, write_byte, zeroout, discard, readahead, set_blksize, "
            "flush, close and reopen) x an optional device fault (EIO/short/ENOSPC on a write, failing fsync, EIO/short on a read); "
            "non-trivial = at least one read observes a block written earlier in the same history; distinct = distinct (config, "
            "fault kind, multiset of operation kinds).  threads: one case = (filesystem geometry, CPU count 2-16, schedule seed, "
            "bitmap backend, optional short/failed read in one thread); distinct = distinct (groups, flex size, threads, schedule digest).")
    assumptions = ["the device is a regular file, so discard and zeroout are fallocate(PUNCH_HOLE/ZERO_RANGE) and read back as zeros",
                   "after an injected write failure the model marks the failed range 'old or new'; equality is demanded everywhere else",
                   "TSan sees the mutexes (through its own interceptors) but not the futex hand-off of the scheduler, which is "
                   "compiled without instrumentation; a race ordered only by the scheduler is therefore still reported"]
    reference_models = ["flat byte-array device model with 'either' ranges after failed writes (this file)",
                        "single-CPU run of the same ext2fs_read_bitmaps call"]

    def budget(self, tier):
        return {"runs": 6000, "wall_s": 85} if tier == "quick" else {"runs": 100000, "wall_s": 1500}

    def generate(self, rng, tier):
        if rng.chance(0.22):
            return {"mode": "threads", "world_seed": rng.u64(), "ncpu": rng.choice([2, 3, 4, 5, 8, 16]), "sched": rng.u64() >> 1,
                    "backend": rng.choice(["rbtree", "rbtree", "bitarray"]), "read_fault": rng.choice([None, None, None, "short_r", "eio_r"]),
                    "fault_nth": rng.range(1, 40), "tsan": rng.chance(0.5), "tail_damage": rng.chance(0.45),
                    "tail_seed": rng.u64()}
        cfg = rng.choice(CONFIGS)
        fault = None
        if rng.chance(0.4):
            fault = [rng.choice(["eio_w", "short_w", "enospc", "fsync_fail", "eio_r", "short_r"]), rng.range(1, 25), rng.choice([0, 512, 1000, 1024])]
        return {"mode": "iochan", "config": cfg, "ops": gen_ops(rng, 512), "fault": fault, "data_seed": rng.u64(), "werr": rng.chance(0.3)}

    # ------------------------------------------------------------------ part 1
    def exec_iochan(self, spec, wd, o):
        NB = 512
        rng = Rng(spec["data_seed"])
        dev = os.path.join(wd, "dev.img")
        choff = 0
        size = NB * 1024
        if spec["config"] == "offset":
            choff = 7168
        init = rng.bytes(4096) * ((size + choff) // 4096 + 1)
        init = init[:size + choff + 8192]
        with open(dev, "wb") as f:
            f.write(init)
        model = bytearray(init)
        either = []          # (start, end, alternative bytes) ranges where old or new content is acceptable
        data = bytearray()
        lines = ["data %s" % os.path.join(wd, "payload.bin"), "readout %s" % os.path.join(wd, "readout.bin"),
                 "snap %s" % os.path.join(wd, "snap")]
        openline = "open dev.img rw"
        env = {}
        if spec["config"] == "cacheoff":
            openline += " cacheoff"
        elif spec["config"] == "writethrough":
            openline += " writethrough"
        elif spec["config"] == "bounce":
            env["UNIX_IO_FORCE_BOUNCE"] = "yes"
        elif spec["config"] == "offset":
            openline += " offset=%d" % choff
        elif spec["config"] == "undo":
            openline += " undo=%s" % os.path.join(wd, "dev.e2undo")
        if spec["werr"]:
            openline += " werr"
        lines.append(openline)
        script_ops = []
        for op in spec["ops"]:
            k = op[0]
            if k == "w":
                nbytes = None     # depends on the block size in force: resolved below
            script_ops.append(op)
        bs = 1024
        planned = []
        for op in script_ops:
            k = op[0]
            if k == "setbs":
                bs = op[1]
                lines.append("setbs %d" % bs)
                planned.append(("setbs", bs))
            elif k in ("r", "ra", "z", "d"):
                lines.append("%s %d %d" % (k, op[1], op[2]))
                planned.append((k, op[1], op[2], bs))
            elif k == "w":
                nbytes = -op[2] if op[2] < 0 else op[2] * bs
                off = len(data)
                data += rng.bytes(64) * (nbytes // 64 + 1)
                del data[off + nbytes:]
                lines.append("w %d %d %d" % (op[1], op[2], off))
                planned.append(("w", op[1], op[2], bs, off, nbytes))
            elif k == "wb":
                off = len(data)
                data += rng.bytes(op[2] + 1)[:op[2]]
                lines.append("wb %d %d %d" % (op[1], op[2], off))
                planned.append(("wb", op[1], op[2], off))
            elif k == "f":
                lines.append("f")
                planned.append(("f",))
            elif k == "reopen":
                if spec["config"] == "undo":
                    continue      # an undo file can be recorded to once per channel lifetime
                lines.append("c")
                planned.append(("c",))
                lines.append(openline)
                planned.append(("open",))
                lines.append("setbs %d" % bs)
                planned.append(("setbs", bs))
            elif k == "c":
                lines.append("c")
                planned.append(("c",))
        with open(os.path.join(wd, "payload.bin"), "wb") as f:
            f.write(data if data else b"\0")
        script = os.path.join(wd, "ops.script")
        with open(script, "w") as f:
            f.write("\n".join(lines) + "\n")
        faults = []
        if spec["fault"]:
            kind, nth, a = spec["fault"]
            # short transfers: a = bytes transferred; error kinds: a selects how long the condition lasts (a full disk stays full)
            faults = [(kind, 0, nth, a if kind in ("short_w", "short_r") else {1024: 1000, 1000: 3}.get(a, 1), 0)]
        pl = Plan([dev], None, rand_seed=1, faults=faults, budget=100000)
        r = run_sim([tool("h_iochan"), script], pl, wd, tag="io", env=env, keep_log=True)
        o.trace = log_hash(r.events)
        o.sim_us += r.sim_us
        cfgname = spec["config"] + ("+werr" if spec["werr"] else "")
        fk = spec["fault"][0] if spec["fault"] else "nofault"
        fired = [e for e in r.events if e.fault]
        if fired:
            o.stats["fault." + fk] += 1
        where = "config %s, fault %s%s" % (cfgname, spec["fault"], " (fired)" if fired else "")
        if r.san or r.signal or r.timeout:
            o.violate("iochan|%s|abnormal|%s" % (spec["config"], r.san[0] if r.san else "signal"),
                      "h_iochan ended abnormally (%s): %s\n%s" % (r.brief(), where, r.san_text or r.err.decode("latin1")[-600:]), skey="abnormal")
            return
        out = r.out.decode("latin1").splitlines()
        res = []
        for ln in out:
            m = re.match(r"^(\d+) (\w+)(?:\(final\))? ret=(-?\d+)(.*)$", ln)
            if m:
                res.append((m.group(2), int(m.group(3)), m.group(4), int(m.group(1))))
        werr_seen = any("WERR" in ln for ln in out)
        try:
            readout = open(os.path.join(wd, "readout.bin"), "rb").read()
        except FileNotFoundError:
            readout = b""
        # align results with planned ops (the first result is the initial open)
        if not res or res[0][0] != "open":
            o.harness_error = "unexpected h_iochan output: %r" % out[:5]
            return
        res = res[1:]
        if len(res) < len(planned) and res and res[-1][0] == "setbs" and res[-1][1] != 0:
            # set_blksize flushes first; when an injected write fault makes that fail the block size stays what it was and the
            # driver stops: the rest of the script was sized for the new block size
            planned = planned[:len(res)]
            o.stats["probe.setbs_failed_history_cut"] += 1
        if len(res) < len(planned):
            o.harness_error = "h_iochan produced %d results for %d operations: %r" % (len(res), len(planned), out[-3:])
            return
        if not any(e.kind in "RW" for e in r.events):
            o.harness_error = "no device event was logged: the channel did not go through the simulated disk"
            return
        rpos = 0
        error_reported = False
        write_failed_silently = []
        nreads_after_write = 0
        written = []
        opkinds = []
        injected_write_fault = any(e.fault and e.kind in "WL" for e in r.events) or any(e.fault and e.kind == "F" for e in r.events)

        def mark_either(start, new):
            either.append((start, start + len(new), bytes(model[start:start + len(new)]), bytes(new)))

        def acceptable(start, got):
            """is `got` an acceptable content for model[start:start+len]?  exact, or per 'either' range old/new"""
            exp = model[start:start + len(got)]
            if got == exp:
                return True
            if not either:
                return False
            # byte-wise: every differing byte must lie in an 'either' range and equal the alternative
            for i in range(len(got)):
                if got[i] != exp[i]:
                    pos = start + i
                    ok = False
                    for s, e, old, new in either:
                        if s <= pos < e and got[i] in (old[pos - s], new[pos - s]):
                            ok = True
                            break
                    if not ok:
                        return False
            return True

        for idx, p in enumerate(planned):
            if idx >= len(res):
                break
            kind, ret, tail, lineno = res[idx]
            k = p[0]
            opkinds.append(k)
            o.evals += 1
            if ret != 0 and k in ("w", "wb", "f", "c", "z", "d", "setbs"):      # (set_blksize flushes)
                error_reported = True
            if k == "r":
                _k, blk, cnt, bsz = p
                nbytes = -cnt if cnt < 0 else cnt * bsz
                got = readout[rpos:rpos + nbytes]
                rpos += nbytes
                start = choff + blk * bsz
                if ret != 0:
                    if not spec["fault"] or not fired:
                        o.violate("iochan|%s|read_error_without_fault" % spec["config"],
                                  "op %d read blk %d count %d (bs %d) returned error %d although no fault was injected; %s" %
                                  (idx, blk, cnt, bsz, ret, where), skey="read_error_without_fault", op=idx)
                        return
                    continue
                if any(s < start + nbytes and e > start for (s, e) in written):
                    nreads_after_write += 1
                if not acceptable(start, got):
                    first = next(i for i in range(nbytes) if got[i] != model[start + i])
                    stale = "the bytes the device held before an earlier write of this history" if got[first] == init[start + first] else "unexpected bytes"
                    last_mut = [q for q in planned[:idx] if q[0] in ("w", "wb", "z", "d")][-3:]
                    cause = "?"
                    for q in reversed(planned[:idx]):
                        if q[0] == "w":
                            qs = choff + q[1] * q[3]
                            if qs <= start + first < qs + q[5]:
                                cause = "w(count=%d)" % q[2]
                                break
                        elif q[0] == "wb":
                            if choff + q[1] <= start + first < choff + q[1] + q[2]:
                                cause = "write_byte"
                                break
                        elif q[0] in ("z", "d"):
                            qs = choff + q[1] * q[3]
                            if qs <= start + first < qs + q[2] * q[3]:
                                cause = {"z": "zeroout", "d": "discard"}[q[0]]
                                break
                    ckind = "direct_write" if cause.startswith("w(") else cause
                    o.violate("iochan|%s|stale_read|%s%s" % (spec["config"], ckind, "" if not fired else "|fault:" + fk),
                              "op %d: read of blk %d count %d (bs %d) returned %s at byte %d of the request (device offset %d); the last "
                              "operation that changed that byte was %s; recent mutations %s; %s" %
                              (idx, blk, cnt, bsz, stale, first, start + first, cause, last_mut, where), skey="stale_read", op=idx)
                    return
            elif k == "w":
                _k, blk, cnt, bsz, off, nbytes = p
                start = choff + blk * bsz
                new = data[off:off + nbytes]
                if ret == 0:
                    if fired and injected_write_fault:
                        mark_either(start, new)
                    model[start:start + nbytes] = new
                else:
                    mark_either(start, new)
                written.append((start, start + nbytes))
            elif k == "wb":
                _k, boff, sz, off = p
                start = choff + boff
                new = data[off:off + sz]
                if ret == 0:
                    if fired and injected_write_fault:
                        mark_either(start, new)
                    model[start:start + sz] = new
                else:
                    mark_either(start, new)
                written.append((start, start + sz))
            elif k in ("z", "d"):
                _k, blk, cnt, bsz = p
                start = choff + blk * bsz
                if ret == 0:
                    new = b"\0" * (cnt * bsz)
                    if fired and injected_write_fault:
                        mark_either(start, new)
                    model[start:start + cnt * bsz] = new
                    written.append((start, start + cnt * bsz))
                elif ret != EXT2_ET_UNIMPLEMENTED:
                    mark_either(start, b"\0" * (cnt * bsz))
            elif k in ("f", "c"):
                if k == "f" and ret == 0:
                    # after a flush that reports success the backing file holds exactly what the channel accepted
                    sp = os.path.join(wd, "snap.%d" % lineno)
                    if os.path.exists(sp):
                        snap = open(sp, "rb").read()
                        lim = min(len(snap), len(model))
                        o.stats["probe.flush_snapshots"] += 1
                        # (as long as no operation has reported an error, "either old or new" is no excuse: every write the
                        # channel accepted so far has to be there)
                        strict = not error_reported and not werr_seen
                        if (strict and snap[:lim] != bytes(model[:lim])) or not acceptable(0, snap[:lim]):
                            first = next(i for i in range(lim) if snap[i] != model[i] and (strict or
                                         not any(s_ <= i < e_ and snap[i] in (old_[i - s_], new_[i - s_]) for s_, e_, old_, new_ in either)))
                            o.violate("iochan|%s|flush_not_durable%s" % (spec["config"], "" if not fired else "|fault:" + fk),
                                      "op %d: flush returned 0 but the backing file differs from what the channel accepted at device offset %d "
                                      "(block %d at 1 KiB); %s" % (idx, first, (first - choff) // 1024, where), skey="flush_not_durable", op=idx)
                            return
        # ---- durability: after the final close the backing file holds the model
        final = open(dev, "rb").read()
        closes = [x for x in res if x[0] == "c"]
        last_close_ok = bool(closes) and closes[-1][1] == 0
        if last_close_ok or not injected_write_fault:
            lim = min(len(final), len(model))
            if not acceptable(0, final[:lim]):
                first = next(i for i in range(lim) if final[i] != model[i] and not any(s <= i < e and final[i] in (old[i - s], new[i - s]) for s, e, old, new in either))
                o.violate("iochan|%s|lost_after_close%s" % (spec["config"], "" if not fired else "|fault:" + fk),
                          "after close returned %s the backing file differs from the model at device offset %d (block %d at 1 KiB): %s" %
                          (closes[-1][1] if closes else None, first, (first - choff) // 1024, where), skey="lost_after_close")
                return
        # ---- a failed device write must be reported
        if injected_write_fault and not error_reported and not werr_seen:
            # nobody was told; then the device must hold everything the model holds
            lim = min(len(final), len(model))
            if final[:lim] != bytes(model[:lim]):
                first = next(i for i in range(lim) if final[i] != model[i])
                o.violate("iochan|%s|write_failure_not_reported|%s" % (spec["config"], fk),
                          "a %s was injected into a device write, no operation of the history (nor flush, nor close, nor the write_error "
                          "handler) reported an error, yet the device lacks data the channel accepted (first difference at device offset %d); %s" %
                          (fk, first, where), skey="write_failure_not_reported")
                return
            o.stats["probe.fault_harmless"] += 1
        # ---- barrier after the last write
        # (durability is promised for flush; a bare close only has to leave the bytes in the backing file)
        evs = [e for e in r.events if e.kind in "WF"]
        lastf = max((i for i, p in enumerate(planned) if p[0] == "f" and i < len(res) and res[i][1] == 0), default=-1)
        if evs and not fired and lastf >= 0 and not any(p[0] in ("w", "wb", "z", "d") for p in planned[lastf + 1:]):
            lastw = max((i for i, e in enumerate(evs) if e.kind == "W"), default=-1)
            if lastw >= 0 and not any(e.kind == "F" and e.res == 0 for e in evs[lastw + 1:]):
                o.violate("iochan|%s|no_barrier_after_last_write" % spec["config"],
                          "flush returned 0 and nothing was written afterwards, but no fsync follows the last device write; %s" % where,
                          skey="no_barrier")
                return
        if nreads_after_write:
            o.distinct.add("iochan|%s|%s|%s" % (cfgname, fk, ",".join("%s%d" % (k, opkinds.count(k)) for k in sorted(set(opkinds)))))
            o.stats["probe.read_after_write"] += nreads_after_write
        o.stats["config." + cfgname] += 1
        if any(e.kind == "W" and e.len > 4 * 1024 for e in r.events):
            o.stats["probe.direct_write_path"] += 1
        o.sample = {"mode": "iochan", "config": cfgname, "fault": spec["fault"], "ops": [list(p[:4]) for p in planned[:40]]}

    # ------------------------------------------------------------------ part 2
    def exec_threads(self, spec, wd, o):
        rng = Rng(spec["world_seed"])
        cfg = gen_config(rng, avoid=["mmp"])
        # geometry with enough groups for threads to start: small groups
        cfg["bpg"] = rng.choice([256, 512, 1024]) if cfg["bs"] == 1024 else rng.choice([512, 1024, 2048])
        cfg.pop("cluster", None)
        cfg["features"] = [f for f in cfg["features"] if f != "bigalloc"]
        cfg["size_kib"] = rng.choice([8192, 16384, 32768])
        if "flex_bg" in cfg["features"]:
            cfg["flex"] = rng.choice([1, 2, 4, 8, 16])
        if "has_journal" in cfg["features"]:
            cfg["features"] = [f for f in cfg["features"] if f not in ("has_journal", "orphan_file")]
            cfg.pop("jsize", None)
        img = os.path.join(wd, "img")
        r = mkfs(cfg, img, wd, rand_seed=rng.u64() >> 1)
        if r.status != 0:
            o.stats["world.rejected"] += 1
            o.trace = "rejected"
            return
        # use some blocks and inodes in many groups
        from world import gen_population, debugfs_script
        cmds, _d = gen_population(rng, cfg, wd, scale=1.0, big_dir=rng.choice([0, 150]))
        debugfs_script(img, cmds, wd, tag="pop", rand_seed=3)
        groups = (cfg["size_kib"] * 1024 // cfg["bs"]) // cfg["bpg"]
        # media fault in the padding behind the used part of a bitmap block (not covered by the bitmap checksum): the
        # loader must raise the *_TAIL_PROBLEM flags -- the same ones with any number of threads
        ntail = 0
        if spec.get("tail_damage"):
            try:
                import refext4
                trng = Rng(spec["tail_seed"])
                rfs = refext4.RefFS(path=img)
                bs_ = rfs.block_size
                with open(img, "r+b") as f:
                    for g in trng.sample(range(rfs.group_count), trng.range(1, 3)):
                        gd = rfs.group_desc(g)
                        fl = rfs.group_flags(g)
                        which = trng.choice(["block", "inode", "both"])
                        for kind, blk, nbits, uninit in (("block", gd["bg_block_bitmap"], rfs.clusters_per_group, fl & 2),
                                                         ("inode", gd["bg_inode_bitmap"], rfs.inodes_per_group, fl & 1)):
                            if which not in (kind, "both") or uninit or nbits // 8 >= bs_:
                                continue
                            off = blk * bs_ + trng.range((nbits + 7) // 8, bs_ - 1)
                            f.seek(off)
                            c = f.read(1)[0]
                            f.seek(off)
                            f.write(bytes([c & ~(1 << trng.below(8)) & 0xFF]))
                            ntail += 1
            except Exception as ex:
                o.observations.append("tail damage not applied: %r" % ex)
        if ntail:
            o.stats["fault.bitmap_tail_padding"] += ntail
        base = run_sim([tool("h_rwbitmaps"), img, spec["backend"]], Plan([img], None, ncpu=1), wd, tag="one")
        if base.status != 0 or b"bhash" not in base.out:
            o.observations.append("single-thread load failed: %r" % base.out[-200:])
            o.trace = "baseline-failed"
            return
        faults = []
        if spec["read_fault"]:
            faults = [(spec["read_fault"], 0, spec["fault_nth"], 512 if spec["read_fault"] == "short_r" else 1, 0)]
        pl = Plan([img], None, ncpu=spec["ncpu"], sched=spec["sched"], faults=faults)
        t = run_sim([tool("h_rwbitmaps"), img, spec["backend"]], pl, wd, tag="thr", keep_log=True)
        o.trace = log_hash(t.events)
        o.sim_us += t.sim_us
        o.evals += 1
        tids = set(e.tid for e in t.events)
        where = "%d groups (bpg %d, flex %s), %d CPUs, schedule seed %d, backend %s, features %s, read fault %s" % (
            groups, cfg["bpg"], cfg.get("flex"), spec["ncpu"], spec["sched"], spec["backend"], ",".join(cfg["features"]), spec["read_fault"])
        o.sample = {"mode": "threads", "groups": groups, "ncpu": spec["ncpu"], "threads_seen": len(tids), "backend": spec["backend"],
                    "read_fault": spec["read_fault"]}
        if len(tids) > 1:
            o.stats["probe.threads_started"] += 1
            o.distinct.add("threads|%d|%s|%d|%x" % (groups, cfg.get("flex"), len(tids), int(o.trace[:8], 16)))
        fired = any(e.fault for e in t.events)
        if fired:
            o.stats["fault." + spec["read_fault"]] += 1
        if t.san or t.signal or t.timeout or t.status == 99:
            o.violate("threads|abnormal|%s" % (t.san[0] if t.san else ("deadlock" if t.status == 99 else "signal")),
                      "threaded load ended abnormally (%s): %s\n%s" % (t.brief(), where, t.san_text or t.err.decode("latin1")[-500:]), skey="abnormal")
            return
        bl = [l for l in base.out.decode().splitlines() if l.startswith(("read_bitmaps", "blocks="))]
        tl = [l for l in t.out.decode().splitlines() if l.startswith(("read_bitmaps", "blocks="))]
        if fired and spec["read_fault"] == "eio_r":
            # an injected read error must surface as an error, never as different bitmaps with ret=0
            if tl and tl[0] == "read_bitmaps ret=0" and tl != bl:
                o.violate("threads|eio_swallowed", "a read failed in one thread, ext2fs_read_bitmaps returned 0 and the bitmaps differ from the "
                          "single-thread result: %s" % where, skey="eio_swallowed")
            return
        if ntail and b"flags=0x" in base.out and not base.out.rstrip().endswith(b"flags=0"):
            o.stats["probe.tail_problem_flagged"] += 1
        if tl != bl:
            o.violate("threads|result_differs", "threaded result %r != single-thread result %r: %s" % (tl, bl, where), skey="result_differs")
            return
        # ---- the race detector: same schedule, TSan build
        if spec["tsan"]:
            tt = os.path.join(BUILD, "tsan", "harness", "h_rwbitmaps")
            if not os.path.exists(tt):
                o.stats["skip.tsan_not_built"] += 1
                return
            pl2 = Plan([img], None, ncpu=spec["ncpu"], sched=spec["sched"], faults=faults)
            x = run_sim([tt, img, spec["backend"]], pl2, wd, tag="tsan", cpu_s=60)
            o.evals += 1
            o.stats["probe.tsan_runs"] += 1
            if x.san and x.san[0].startswith("tsan"):
                o.violate("threads|race|%s" % x.san[1], "ThreadSanitizer: %s in %s under %s\n%s" % (x.san[0], x.san[1], where, x.san_text),
                          skey="race")
            elif b"bhash" in x.out:
                xl = [l for l in x.out.decode().splitlines() if l.startswith(("read_bitmaps", "blocks="))]
                if xl != bl and not fired:
                    o.violate("threads|result_differs_tsan", "TSan-build result %r != single-thread result %r: %s" % (xl, bl, where),
                              skey="result_differs")

    def execute(self, spec, wd):
        o = Outcome()
        if spec["mode"] == "iochan":
            self.exec_iochan(spec, wd, o)
        else:
            self.exec_threads(spec, wd, o)
        return o

    def shrink(self, spec, v):
        if spec["mode"] != "iochan":
            if spec.get("read_fault"):
                c = dict(spec)
                c["read_fault"] = None
                yield c
            return
        ops = spec["ops"]
        opi = v["extra"].get("op")
        # drop chunks, then single operations (keep the leading setbs and the trailing close)
        n = len(ops)
        step = max(1, n // 4)
        while step >= 1:
            i = 1
            while i < len(ops) - 1:
                c = dict(spec)
                c["ops"] = ops[:i] + ops[i + step:] if i + step < len(ops) else ops[:i] + ops[-1:]
                if len(c["ops"]) < len(ops):
                    yield c
                i += step
            step //= 2
        if spec.get("fault"):
            c = dict(spec)
            c["fault"] = None
            yield c
        if spec.get("werr"):
            c = dict(spec)
            c["werr"] = False
            yield c


if __name__ == "__main__":
    main(C17)
