#!/usr/bin/env python3
"""C19 — e2image images preserve all metadata and never touch the source.

World: seeded populated filesystem (all mapping types, xattr blocks also on objects without data
blocks, optionally a pending journal / orphan / fault state, optionally a large many-group geometry
that overflows the qcow2 L2-table cache).  e2image runs under the simulator with the source as a
monitored device and the output as a second simulated device:

  raw (-r), qcow2 (-Q), qcow2 -> raw (-r on the qcow2 file), all-data raw (-ra).

Oracle: the source sees zero mutating events and stays byte-identical; every block of the metadata
set (computed by the independent reader: primary superblock and descriptors, MMP, initialised bitmaps
and inode-table blocks, xattr blocks, directory blocks, extent/indirect tree blocks, journal, quota and
orphan-file blocks) is byte-identical in the raw image; qcow2 -> raw equals the direct raw image byte for
byte; e2fsck -fn (status and problem codes) and dumpe2fs give the same result on the image as on the
source; the all-data image has the same tree digest and differs from the source only in blocks that no
file and no primary metadata owns.  Output faults (short write, ENOSPC) must end in a non-zero status.
"""
import hashlib
import os

import refext4
from digest import brief, diff_trees
from framework import Check, Outcome, main
from simcore import Plan, Rng, count_mutations, file_sha, log_hash, run_sim, tool
from world import build_world, e2fsck, gen_config

BG_INODE_UNINIT, BG_BLOCK_UNINIT = 1, 2


def metadata_set(fs):
    """Blocks that certainly belong to e2image's metadata set (a subset of what e2image copies)."""
    m = {}
    owners, _c = fs.owner_map()
    ipb = fs.block_size // fs.inode_size
    for blk, lst in owners.items():
        for ow in lst:
            if ow[0] == "meta":
                kind, g = ow[1], ow[2]
                if kind in ("sb", "gdt", "mmp"):
                    m[blk] = kind
                elif kind == "block_bitmap" and not (fs.group_flags(g) & BG_BLOCK_UNINIT):
                    m[blk] = kind
                elif kind == "inode_bitmap" and not (fs.group_flags(g) & BG_INODE_UNINIT):
                    m[blk] = kind
                elif kind == "inode_table" and not (fs.group_flags(g) & BG_INODE_UNINIT):
                    gd = fs.group_desc(g)
                    used = fs.inodes_per_group - (gd["bg_itable_unused"] if fs._uses_bg_flags() else 0)
                    if blk - gd["bg_inode_table"] < (used + ipb - 1) // ipb:
                        m[blk] = kind
            else:
                ino, kind = ow[1], ow[2]
                if kind in ("xattr", "dir", "extent_tree", "indirect", "journal", "quota", "orphan_file"):
                    if kind == "xattr":
                        try:
                            if fs.read_inode(ino).links_count == 0:
                                continue
                        except Exception:
                            continue
                    m[blk] = "%s(ino %d)" % (kind, ino)
    return m, owners


class C19(Check):
    pid = "C19"
    level = "exploration"
    rule = ("one case = (seeded populated filesystem incl. xattr blocks on device nodes / fifos / symlinks, deep extent trees, indexed "
            "directories; clean or with an unrecovered journal / orphan; ordinary or many-group geometry > 512 qcow2 L2 tables) x (e2image "
            "-r, -Q, -Q then -r, -ra) x (no fault | short write / ENOSPC on the output).  Non-trivial = the metadata set holds >= 30 blocks; "
            "distinct = distinct (feature set, bs, group count class, state, fault).")
    assumptions = ["the byte-identity clause is judged on a metadata set computed independently that is a subset of what e2image documents to "
                   "copy (backup superblocks/descriptors, reserved GDT blocks and symlink data blocks are not demanded)",
                   "dumpe2fs and e2fsck -fn are compared between source and image by standard output / status / problem codes"]
    reference_models = ["ref/refext4.py owner_map(), fixed_metadata(), tree_digest()"]

    def budget(self, tier):
        return {"runs": 1500, "wall_s": 80} if tier == "quick" else {"runs": 12000, "wall_s": 1500}

    def generate(self, rng, tier):
        cfg = gen_config(rng, avoid=("mmp",))
        big = rng.chance(0.06 if tier == "quick" else 0.1) and "cluster" not in cfg
        if big:
            # > 512 distinct 128-block ranges holding metadata: the qcow2 writer has to recycle L2 tables
            cfg["bs"] = 1024
            cfg["bpg"] = 256
            cfg["inode_size"] = min(cfg["inode_size"], 256)
            cfg["size_kib"] = rng.choice([600, 800, 1024]) * 256
            cfg["inode_ratio"] = 65536
            cfg["lazy"] = False
            cfg["features"] = [f for f in cfg["features"] if f not in ("flex_bg", "has_journal", "orphan_file", "bigalloc", "meta_bg", "quota", "project")]
            cfg.pop("jsize", None)
            cfg.pop("flex", None)
            cfg.pop("resize_max", None)
        return {"cfg": cfg, "world_seed": rng.u64(), "big": big, "state": rng.weighted([("clean", 6), ("journal", 2), ("orphan", 1)]),
                "fault": rng.weighted([(None, 7), ("short_w", 1), ("enospc", 1), ("eio_w", 1)]), "fault_nth": rng.weighted([(rng.range(1, 12), 3), (rng.range(12, 60), 2)]),
                "modes": ["raw", "qcow", "q2r", "rawa"], "scale": rng.choice([0.6, 1.0, 1.5]), "full": rng.chance(0.12)}

    def execute(self, spec, wd):
        o = Outcome()
        rng = Rng(spec["world_seed"])
        cfg = spec["cfg"]
        want = ["has_journal"] if spec["state"] == "journal" else []
        c2 = dict(cfg)
        if want and "has_journal" not in c2["features"] and not spec["big"]:
            c2["features"] = sorted(set(c2["features"]) | {"has_journal"})
            c2["jsize"] = c2["bs"] // 1024
            c2["size_kib"] = max(c2["size_kib"], 4 * c2["bs"])
        w = build_world(rng, wd, cfg=c2, scale=spec["scale"] if not spec["big"] else 0.5,
                        big_dir=rng.weighted([(0, 3), (rng.range(40, 250), 2)]), deep_extents=rng.chance(0.3), special_xattrs=True)
        if w["rejected"]:
            o.stats["world.rejected"] += 1
            o.trace = "rejected"
            return o
        img = w["img"]
        if spec.get("full") and not spec["big"]:
            # a full filesystem: the last blocks of the device hold file data, so an all-data image reaches the very end
            from world import debugfs_script
            filler = os.path.join(wd, "filler.host")
            with open(filler, "wb") as f:
                f.write(Rng(spec["world_seed"] ^ 0xF177).bytes(65536) * (cfg["size_kib"] // 64 + 1))
            debugfs_script(img, ['write "%s" /filler.bin' % filler], wd, tag="fillup", rand_seed=12)
            e2fsck(img, ["-fy"], wd, tag="settlefull", problems=False)
            o.stats["probe.full_filesystem"] += 1
        import states
        if spec["state"] == "journal":
            states.add_pending_journal(rng, w, wd)
        elif spec["state"] == "orphan":
            states.add_orphan(rng, w, wd)
        src = open(img, "rb").read()
        src_sha = hashlib.sha256(src).hexdigest()
        try:
            fs = refext4.RefFS(data=src)
            mset, owners = metadata_set(fs)
            d0, recs0 = fs.tree_digest(include_mtime=False)
        except Exception as ex:
            o.observations.append("refext4 cannot read the world: %r" % ex)
            o.trace = "unreadable"
            return o
        bs = fs.block_size
        feats = ",".join(c2["features"])
        gclass = "g<8" if fs.group_count < 8 else "g<64" if fs.group_count < 64 else "g<512" if fs.group_count < 512 else "g>=512"
        where = "bs %d, %d groups, state %s, features %s, %d metadata blocks" % (bs, fs.group_count, spec["state"], feats, len(mset))
        if len(mset) >= 30:
            o.distinct.add("%s|%d|%s|%s|%s" % (feats, bs, gclass, spec["state"], spec["fault"]))
        o.sample = {"bs": bs, "groups": fs.group_count, "state": spec["state"], "features": feats, "metadata_blocks": len(mset),
                    "fault": spec["fault"], "objects": len(recs0)}
        traces = []
        outs = {}

        def run_e2image(mode, args, source, out, faults=()):
            if os.path.exists(out):
                os.unlink(out)
            r = run_sim([tool("e2image")] + args + [source, out], Plan([source, out], None, clock=1500007000, rand_seed=21, faults=faults),
                        wd, tag="e2i_" + mode, keep_log=True, cpu_s=60)
            traces.append(log_hash(r.events))
            o.sim_us += r.sim_us
            o.evals += 1
            o.stats["e2image.%s.status%s" % (mode, r.status)] += 1
            return r

        def source_untouched(r, mode):
            nm = count_mutations(r.events, 0)
            if nm or file_sha(img) != src_sha:
                o.violate("source|modified|%s" % mode, "e2image %s issued %d mutating event(s) on its source %s (or changed its bytes): %s" %
                          (mode, nm, [e.brief() for e in r.events if e.dev == 0 and e.kind in "WTZPDA"][:5], where), skey="source")
                return False
            return True

        # ---- output faults: must be reported
        if spec["fault"]:
            out = os.path.join(wd, "fault.out")
            mode = rng.choice(["raw", "qcow"])
            f = [(spec["fault"], 1, spec["fault_nth"], 512 if spec["fault"] == "short_w" else 0, 0)]
            r = run_e2image("fault_" + mode, ["-r"] if mode == "raw" else ["-Q"], img, out, faults=f)
            fired = any(e.fault for e in r.events if e.kind in "WwTZPAF")
            if fired:
                o.stats["fault." + spec["fault"]] += 1
            source_untouched(r, "with an output fault")
            if r.san or r.signal or r.timeout:
                o.observations.append("e2image ended abnormally under an output fault (%s) -- judged under C06" % r.brief())
            elif fired and r.status == 0 and spec["fault"] != "short_w":
                o.violate("outfault|%s|success_claimed" % spec["fault"], "an output write failed with %s (event %d of the output) and e2image %s "
                          "exits 0: %s" % (spec["fault"], spec["fault_nth"], mode, where), skey="outfault")
            elif fired and r.status == 0 and spec["fault"] == "short_w":
                # a short write is legal for write(2): either e2image carries on correctly, or it reports the problem
                other = os.path.join(wd, "fault.ref")
                r2 = run_e2image("faultref_" + mode, ["-r"] if mode == "raw" else ["-Q"], img, other)
                if r2.status == 0 and open(other, "rb").read() != open(out, "rb").read():
                    o.violate("outfault|short_w|wrong_image", "a short write(2) on the output was neither retried nor reported: e2image %s exits 0 "
                              "and the image differs from the one written without the fault: %s" % (mode, where), skey="outfault")
            o.trace = hashlib.sha256("".join(traces).encode()).hexdigest()
            return o

        # ---- the images
        raw = os.path.join(wd, "out.raw")
        qcow = os.path.join(wd, "out.qcow")
        q2r = os.path.join(wd, "out.q2r")
        rawa = os.path.join(wd, "out.rawa")
        ok = {}
        qcowa = os.path.join(wd, "out.qcowa")
        qa2r = os.path.join(wd, "out.qa2r")
        for mode, args, source, out in (("raw", ["-r"], img, raw), ("qcow", ["-Q"], img, qcow), ("q2r", ["-r"], qcow, q2r), ("rawa", ["-ra"], img, rawa),
                                        ("qcowa", ["-Qa"], img, qcowa), ("qa2r", ["-r"], qcowa, qa2r)):
            if mode in ("qcowa", "qa2r"):
                # the all-data flavour of the qcow2 round trip rides along with the all-data raw image
                if "rawa" not in spec["modes"] or not ok.get("rawa") or (mode == "qa2r" and not ok.get("qcowa")):
                    continue
            elif mode not in spec["modes"] or (mode == "q2r" and not ok.get("qcow")):
                continue
            if spec["big"] and mode in ("rawa", "qcowa", "qa2r"):
                continue
            r = run_e2image(mode, args, source, out)
            if r.san or r.signal or r.timeout:
                o.observations.append("e2image %s ended abnormally (%s) -- judged under C06: %s" % (mode, r.brief(), where))
                continue
            if source is img and not source_untouched(r, mode):
                break
            if r.status != 0:
                o.violate("%s|status%s" % (mode, r.status), "e2image %s exits %s: %s\n%s" % (" ".join(args), r.status, where,
                                                                                        (r.out + r.err).decode("latin1")[-300:]), skey="status")
                continue
            ok[mode] = True
        if ok.get("raw"):
            rawd = open(raw, "rb").read()
            bad = [b for b in sorted(mset) if rawd[b * bs:(b + 1) * bs] != src[b * bs:(b + 1) * bs]]
            o.evals += 1
            if bad:
                kinds = sorted(set(mset[b].split("(")[0] for b in bad))
                o.violate("raw|metadata_differs|%s" % ",".join(kinds[:3]), "%d metadata block(s) differ between the source and the raw image, e.g. "
                          "block %d (%s): %s" % (len(bad), bad[0], mset[bad[0]], where), skey="raw|metadata")
            else:
                o.stats["probe.metadata_blocks_identical"] += len(mset)
            # e2fsck and dumpe2fs see the same
            rs, cs = e2fsck(img, ["-fn"], wd, tag="fn_src", clock=1500008000)
            ri, ci = e2fsck(raw, ["-fn"], wd, tag="fn_img", clock=1500008000)
            o.evals += 1
            if (rs.status, sorted(cs)) != (ri.status, sorted(ci)) and not (ri.san or ri.signal or ri.timeout or rs.san or rs.signal):
                tail = "\n".join(l for l in ri.out.decode("latin1").splitlines() if l.strip())[-500:]
                o.violate("raw|e2fsck_differs", "e2fsck -fn: source exits %s with problems %s, the raw image exits %s with %s: %s\n%s" %
                          (rs.status, ["%#x" % c for c in sorted(set(cs))[:6]], ri.status, ["%#x" % c for c in sorted(set(ci))[:6]], where, tail),
                          skey="raw|e2fsck")
            ds = run_sim([tool("dumpe2fs"), img], Plan([img], None, clock=1500008500), wd, tag="d_src")
            di = run_sim([tool("dumpe2fs"), raw], Plan([raw], None, clock=1500008500), wd, tag="d_img")
            o.evals += 1
            if ds.out != di.out and not (ds.san or di.san):
                a, b = ds.out.decode("latin1").splitlines(), di.out.decode("latin1").splitlines()
                first = next((i for i in range(min(len(a), len(b))) if a[i] != b[i]), min(len(a), len(b)))
                o.violate("raw|dumpe2fs_differs", "dumpe2fs output differs at line %d: source %r, image %r: %s" %
                          (first + 1, a[first][:100] if first < len(a) else None, b[first][:100] if first < len(b) else None, where),
                          skey="raw|dumpe2fs")
        if ok.get("raw") and ok.get("q2r"):
            o.evals += 1
            a, b = open(raw, "rb").read(), open(q2r, "rb").read()
            if a != b:
                L = min(len(a), len(b))
                nd = [k // bs for k in range(0, L, bs) if a[k:k + bs] != b[k:k + bs]]
                o.violate("qcow|roundtrip_differs", "qcow2 -> raw differs from the directly produced raw image in %d block(s)%s, first fs block "
                          "%s (%s): %s" % (len(nd), " and in length" if len(a) != len(b) else "", nd[0] if nd else None,
                                           mset.get(nd[0], "not in the metadata set") if nd else "", where), skey="qcow|roundtrip")
            else:
                o.stats["probe.qcow_roundtrip_identical"] += 1
                if spec["big"]:
                    o.stats["probe.qcow_l2_cache_overflow_geometry"] += 1
        if ok.get("rawa") and ok.get("qa2r"):
            o.evals += 1
            a, b = open(rawa, "rb").read(), open(qa2r, "rb").read()
            if a != b:
                L = min(len(a), len(b))
                nd = [k // bs for k in range(0, L, bs) if a[k:k + bs] != b[k:k + bs]]
                o.violate("qcowa|roundtrip_differs", "all-data qcow2 -> raw differs from the directly produced all-data raw image in %d block(s)%s, "
                          "first fs block %s of %d: %s" % (len(nd), " and in length (%d vs %d)" % (len(b), len(a)) if len(a) != len(b) else "",
                                                           nd[0] if nd else None, len(a) // bs, where), skey="qcowa|roundtrip")
            else:
                o.stats["probe.qcowa_roundtrip_identical"] += 1
        if ok.get("rawa"):
            o.evals += 1
            ad = open(rawa, "rb").read()
            try:
                fsa = refext4.RefFS(data=ad)
                d1, recs1 = fsa.tree_digest(include_mtime=False)
                if d1 != d0:
                    df = diff_trees(recs0, recs1)
                    if df:
                        o.violate("rawa|digest", "the all-data image holds different files: %s -- %s" % (brief(df), where), skey="rawa|digest")
            except Exception as ex:
                o.violate("rawa|unreadable", "the independent reader cannot read the all-data image (%r): %s" % (ex, where), skey="rawa|unreadable")
            L = min(len(ad), len(src))
            for k in range(0, L, bs):
                if ad[k:k + bs] != src[k:k + bs]:
                    b = k // bs
                    ow = owners.get(b)
                    if ow and not all(x[0] == "meta" and (x[1].startswith("backup_") or x[1] in ("reserved_gdt", "pad")) or
                                      (x[0] == "inode" and x[2] in ("reserved_gdt", "badblock")) for x in ow):
                        o.violate("rawa|owned_block_differs", "fs block %d (%s) differs between the source and the all-data image: %s" %
                                  (b, ow[:2], where), skey="rawa|owned")
                        break
        o.trace = hashlib.sha256("".join(traces).encode()).hexdigest()
        return o

    def shrink(self, spec, v):
        mode = v["key"].split("|")[0]
        keep = {"raw": ["raw"], "qcow": ["raw", "qcow", "q2r"], "rawa": ["rawa"]}.get(mode)
        if keep and spec["modes"] != keep:
            c = dict(spec)
            c["modes"] = keep
            yield c
        if spec["state"] != "clean":
            c = dict(spec)
            c["state"] = "clean"
            yield c
        if spec["scale"] > 0.6:
            c = dict(spec)
            c["scale"] = 0.6
            yield c
        if not spec["big"]:
            feats = spec["cfg"]["features"]
            for f in feats:
                c = dict(spec)
                c["cfg"] = dict(spec["cfg"])
                c["cfg"]["features"] = [x for x in feats if x != f]
                yield c


if __name__ == "__main__":
    main(C19)
