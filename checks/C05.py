#!/usr/bin/env python3
"""C05 — e2fsck never alters healthy files.

Healthy clause: every repairing mode on a consistent, well-populated filesystem exits 0 or 1 and
leaves the tree digest (taken by the independent reader) unchanged.
Damage clause: with faults confined to allocation summaries and checksum fields (bitmap bits, free
and used counts, descriptor flags, bg_itable_unused, checksum fields of intact objects) -- applied
as at-rest faults and as writes lost while the last writer ran -- repair restores consistency and
changes no file.
"""
import hashlib
import os
import shutil

import refext4
import reffaults
from digest import brief, diff_trees
from framework import Check, Outcome, main
from simcore import Plan, Rng, log_hash, run_sim, tool
from world import build_world, e2fsck
import minifs

MODES = {"fp": ["-fp"], "fy": ["-fy"], "fyD": ["-fyD"], "bmap2extent": ["-fy", "-E", "bmap2extent"],
         "fixes_only": ["-fy", "-E", "fixes_only"]}


class C05(Check):
    pid = "C05"
    level = "exploration"
    rule = ("one case = (seeded populated filesystem incl. large/indexed directories, all mapping types, xattr placements) x "
            "(repair mode -fp/-fy/-fyD/-fy -E bmap2extent/-fy -E fixes_only) x (healthy | 1-3 allocation-summary faults: bitmap "
            "bits/bytes, descriptor and superblock free/used counts, descriptor flags, bg_itable_unused, checksum fields of "
            "superblock/descriptor/bitmap/inode/dir leaf/extent block/xattr block).  Non-trivial = the filesystem holds >= 10 "
            "objects; distinct = distinct (mode, fault-class signature, feature set).")
    assumptions = ["tree digest = path, type, permission bits, uid, gid, link count, size, sha256 of content, symlink target, device "
                   "numbers, xattrs (lost+found excluded; directory sizes and all timestamps are not part of it)",
                   "for the damage clause only -fy modes are judged for the exit status (preen may legitimately refuse)"]
    reference_models = ["ref/refext4.py tree_digest() and check()"]

    def budget(self, tier):
        return {"runs": 1500, "wall_s": 90} if tier == "quick" else {"runs": 15000, "wall_s": 1500}

    def generate(self, rng, tier):
        damage = rng.chance(0.55)
        mode = rng.choice(["fy", "fyD", "fy", "fyD", "bmap2extent", "fixes_only"]) if damage else rng.choice(list(MODES))
        return {"world_seed": rng.u64(), "mode": mode, "damage": damage, "faults": None, "casefold": rng.chance(0.12),
                "nfaults": rng.weighted([(1, 6), (2, 3), (3, 1)]), "fault_seed": rng.u64()}

    def execute(self, spec, wd):
        o = Outcome()
        rng = Rng(spec["world_seed"])
        cfg = None
        if spec.get("casefold"):
            from world import gen_config
            cfg = gen_config(rng, want=["casefold", "filetype", "extent"], avoid=("mmp",))
        w = build_world(rng, wd, cfg=cfg, scale=1.6, big_dir=rng.weighted([(0, 2), (rng.range(40, 200), 3), (rng.range(300, 900), 2)]),
                        special_xattrs=rng.chance(0.4))
        if not w["rejected"] and spec.get("casefold"):
            # names that differ only in case, in an ordinary directory (without the +F flag they are different names)
            from world import debugfs_script
            hp = os.path.join(wd, "cfh")
            with open(hp, "wb") as f:
                f.write(b"casefold\n")
            cmds = ['mkdir /cfdir'] + ['write "%s" "/cfdir/%s"' % (hp, n) for n in
                                      ("Makefile", "makefile", "README", "ReadMe", "readme", "Docs", "docs", "a", "A")]
            debugfs_script(w["img"], cmds, wd, tag="cf", rand_seed=9)
            e2fsck(w["img"], ["-fy"], wd, tag="cfsettle", problems=False)
            o.stats["probe.casefold_world"] += 1
        if w["rejected"]:
            o.stats["world.rejected"] += 1
            o.trace = "rejected"
            return o
        img = w["img"]
        feats = ",".join(w["cfg"]["features"])
        r0, c0 = e2fsck(img, ["-fn"], wd, tag="pre", clock=1500005000)
        if r0.status != 0 or c0:
            o.stats["world.not_clean"] += 1
            o.trace = "notclean"
            return o
        data0 = open(img, "rb").read()
        try:
            fs0 = refext4.RefFS(data=data0)
            d0, recs0 = fs0.tree_digest(include_mtime=False)
        except Exception as ex:
            o.observations.append("refext4 cannot read a clean world: %r" % ex)
            o.trace = "unreadable"
            return o
        faults = []
        if spec["damage"]:
            faults = spec["faults"] if spec["faults"] is not None else \
                reffaults.gen_summary_faults(Rng(spec["fault_seed"]), data0, spec["nfaults"])
            minifs.apply_faults(img, faults)
        sig = "+".join(sorted(set(f["cls"] for f in faults))) or "healthy"
        r, codes = e2fsck(img, MODES[spec["mode"]], wd, tag="rep", clock=1500010000, keep_log=True)
        o.trace = log_hash(r.events)
        o.sim_us += r.sim_us
        o.evals += 1
        o.stats["status.%s.%s" % (spec["mode"], r.status)] += 1
        o.stats["mode." + spec["mode"]] += 1
        o.sample = {"mode": spec["mode"], "features": feats, "bs": w["cfg"]["bs"], "objects": len(recs0), "desc": w["desc"],
                    "faults": sorted(set(f["what"] for f in faults)), "status": r.status}
        if len(recs0) >= 10:
            o.distinct.add("%s|%s|%s" % (spec["mode"], sig, feats))
        if any(p.count(b"/") == 1 and False for p in recs0):
            pass
        try:
            ht = sum(1 for p, rec in recs0.items() if rec["type"] == 0o040000 and fs0.htree(fs0.read_inode(rec["ino"])))
            if ht:
                o.stats["probe.indexed_dirs"] += ht
        except Exception:
            pass
        where = "e2fsck %s on a %s filesystem [%s]; features %s bs %d; %d objects" % (
            " ".join(MODES[spec["mode"]]), "damaged" if faults else "healthy", "; ".join(sorted(set(f["what"] for f in faults))), feats,
            w["cfg"]["bs"], len(recs0))
        extra = {"faults": faults}
        if r.san or r.signal or r.timeout:
            o.observations.append("e2fsck ended abnormally (%s) -- judged under C06: %s" % (r.brief(), where))
            return o
        judge_status = (not faults) or spec["mode"] != "fp"
        if faults and r.status == 8 and b"Superblock checksum does not match" in r.err + r.out:
            # The primary superblock no longer verifies.  e2fsck then looks for a backup at the default
            # locations only (8193/16384/32768 ...); with a non-default group size, a single group or bigalloc
            # there is nothing there and the documented answer is "use -b".  That case is C20's subject.
            cfg = w["cfg"]
            groups = (cfg["size_kib"] * 1024 // cfg["bs"]) // (cfg["bs"] * 8) if "bpg" not in cfg else 0
            if "bpg" in cfg or "cluster" in cfg or groups < 2:
                o.stats["outside.no_default_backup_sb"] += 1
                return o
        if judge_status and r.status not in (0, 1):
            tail = "\n".join(l for l in r.out.decode("latin1").splitlines() if l.strip())[-700:]
            o.violate("%s|status%s|%s" % (spec["mode"], r.status, sig), "exit status %s: %s\n%s" % (r.status, where, tail),
                      skey="status", **extra)
            return o
        if r.status not in (0, 1):
            o.stats["outside.preen_refused"] += 1
            return o
        data1 = open(img, "rb").read()
        try:
            fs1 = refext4.RefFS(data=data1)
            d1, recs1 = fs1.tree_digest(include_mtime=False)
        except Exception as ex:
            o.violate("%s|unreadable_after|%s" % (spec["mode"], sig), "the independent reader cannot read the result (%r): %s" % (ex, where),
                      skey="unreadable", **extra)
            return o
        if d1 != d0:
            df = diff_trees(recs0, recs1)
            if df:
                fields = sorted(set(f for _p, f, _a, _b in df))
                o.violate("%s|digest:%s|%s" % (spec["mode"], ",".join(fields[:3]), sig),
                          "files changed: %s -- %s (problem codes fixed: %s)" % (brief(df), where, ["%#x" % c for c in sorted(set(codes))[:10]]),
                          skey="digest:" + ",".join(fields[:3]), **extra)
        if faults:
            rn, cn = e2fsck(img, ["-fn"], wd, tag="post", clock=1500010600)
            o.evals += 1
            if (rn.status != 0 or cn) and not (rn.san or rn.signal or rn.timeout):
                tail = "\n".join(l for l in rn.out.decode("latin1").splitlines() if l.strip())[-600:]
                o.violate("%s|not_consistent_after|%s|fn:%s" % (spec["mode"], sig, ",".join("%x" % c for c in sorted(set(cn))[:5])),
                          "after the repair e2fsck -fn exits %s (problems %s): %s\n%s" % (rn.status, ["%#x" % c for c in sorted(set(cn))[:8]],
                                                                                            where, tail),
                          skey="not_consistent_after", **extra)
            if codes:
                o.stats["probe.damage_repaired"] += 1
        return o

    def shrink(self, spec, v):
        if not spec["damage"]:
            return
        faults = spec["faults"] if spec["faults"] is not None else v["extra"].get("faults") or []
        if len(faults) <= 1:
            return
        for i in range(len(faults)):
            c = dict(spec)
            c["faults"] = faults[:i] + faults[i + 1:]
            yield c


if __name__ == "__main__":
    main(C05)
