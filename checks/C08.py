#!/usr/bin/env python3
"""C08 — resize2fs preserves every file and leaves a consistent filesystem; the 'has errors' flag
covers every intermediate point of a run.

World: seeded populated filesystem, settled and clean.  One resize2fs request (grow, shrink, -M, -b,
-s) runs under the simulated disk with its complete event log kept.

Data clauses (fault-free):  success => reported size == superblock size, e2fsck -fn clean, independent
checker clean, tree digest unchanged.  Refusal (non-zero status without the "aborted resize" notice) =>
every byte of the filesystem unchanged.

Flag clause (crash space): the event log is turned into crash states of the device -- every prefix of
the device events under the kill model, and, between two completed fsyncs, seeded subsets of the
in-flight writes under the power-loss model (none / all / drop-one / keep-one / keep-last / random).
For every crash state S: outside the 1024 bytes of the primary superblock S equals the pre-image, or S
equals the final image, or the primary superblock of S carries EXT2_ERROR_FS.
"""
import hashlib
import os
import re

import refext4
from digest import brief, diff_trees
from framework import Check, Outcome, main
from simcore import Plan, Rng, log_hash, run_sim, tool
from world import build_world, e2fsck, gen_config

SECT = 512
SB_LO, SB_HI = 1024, 2048


class SectorDiff:
    """Incrementally maintained number of 512-byte sectors (outside the primary superblock) in which
    a mutable image differs from reference images; reference i is compared below limits[i] only."""

    def __init__(self, cur, refs, limits):
        self.cur = cur
        self.refs = refs
        self.limits = limits
        self.n = [0 for _ in refs]
        step = 1 << 20
        for i, r in enumerate(refs):
            lim = limits[i]
            for a in range(0, lim, step):
                b = min(a + step, lim)
                if cur[a:b] != r[a:b]:
                    for s in range(a, b, SECT):
                        if s == SB_LO or s == SB_LO + SECT:
                            continue
                        if cur[s:s + SECT] != r[s:s + SECT]:
                            self.n[i] += 1

    def _count(self, i, s0, s1):
        """sectors in [s0, s1) below the limit of reference i in which cur differs from it (superblock excluded)"""
        r = self.refs[i]
        s1 = min(s1, self.limits[i])
        if s1 <= s0:
            return 0
        if s0 >= SB_HI or s1 <= SB_LO:
            if self.cur[s0:s1] == r[s0:s1]:
                return 0
        n = 0
        cur = self.cur
        for s in range(s0, s1, SECT):
            if s == SB_LO or s == SB_LO + SECT:
                continue
            if cur[s:s + SECT] != r[s:s + SECT]:
                n += 1
        return n

    def write(self, off, data):
        if not data:
            return
        end = off + len(data)
        s0 = off - off % SECT
        s1 = min(len(self.cur), (end + SECT - 1) // SECT * SECT)
        before = [self._count(i, s0, s1) for i in range(len(self.refs))]
        self.cur[off:end] = data
        for i in range(len(self.refs)):
            self.n[i] += self._count(i, s0, s1) - before[i]

    def flag(self):
        return bool(int.from_bytes(self.cur[SB_LO + 58:SB_LO + 60], "little") & 2)


def event_bytes(e, size):
    """(offset, data) that a logged mutating event puts on the medium, or None."""
    if e.kind == "W" and (e.res or 0) > 0 and e.payload:
        return e.off, e.payload[:e.res]
    if e.kind in "ZP" and e.res == 0:
        n = max(0, min(e.len, size - e.off))
        return e.off, b"\0" * n
    return None


class C08(Check):
    pid = "C08"
    level = "exploration"
    rule = ("one case = (seeded populated filesystem: flex_bg/meta_bg/resize_inode/bigalloc/32-64bit/1k-4k mix) x (resize2fs grow | "
            "shrink | -M | -b | -s) x (every kill-model prefix of the run's device events + seeded power-loss subsets per fsync "
            "epoch).  Non-trivial = resize2fs modified the filesystem; distinct = distinct (direction, feature set, block size, "
            "group geometry).")
    assumptions = ["a crash state is judged outside the 1024 bytes of the primary superblock, whose final word-by-word rewrite is 'the "
                   "final rewrite of the primary superblock' of the statement",
                   "a non-zero exit with the 'aborted resize operation' notice is an aborted run, not a refusal; it is counted and its "
                   "crash states are still judged by the flag clause",
                   "tree digest as in C05"]
    reference_models = ["ref/refext4.py tree_digest() and check()", "byte images of the device before and after the run (crash-state oracle)"]

    def budget(self, tier):
        return {"runs": 1500, "wall_s": 80} if tier == "quick" else {"runs": 12000, "wall_s": 1500}

    def generate(self, rng, tier):
        cfg = gen_config(rng, avoid=("mmp",))
        kind = rng.weighted([("grow", 5), ("shrink", 5), ("min", 2), ("to64", 1), ("to32", 1), ("same", 1)])
        if kind == "to64":
            cfg["features"] = sorted(set(cfg["features"]) - {"64bit"} | {"extent"})
        if kind == "to32":
            cfg["features"] = sorted(set(cfg["features"]) | {"64bit", "extent"})
        if cfg["size_kib"] > 8192 and kind == "grow":
            cfg["size_kib"] = 8192
        factor = {"grow": rng.choice([1.02, 1.1, 1.3, 1.7, 2.0, 3.1, 4.0]), "shrink": rng.choice([0.5, 0.6, 0.75, 0.9, 0.97]),
                  "same": 1.0}.get(kind, 1.0)
        spread = rng.chance(0.4)
        if spread:
            # few inodes per group and many objects: inodes (and directories created late) spill into every group, so a
            # shrink has inodes to relocate
            cfg["inode_ratio"] = rng.choice([32768, 65536])
            if "cluster" not in cfg:
                cfg["bpg"] = {1024: rng.choice([256, 512]), 2048: rng.choice([512, 1024]), 4096: rng.choice([1024, 2048])}[cfg["bs"]]
            if kind == "shrink":
                factor = rng.choice([0.3, 0.4, 0.5, 0.6, 0.75])
        tight = kind == "shrink" and rng.chance(0.3)
        if rng.chance(0.12) and "cluster" not in cfg:
            # a few bad blocks, most of them in the part a shrink cuts off
            nblk = cfg["size_kib"] * 1024 // cfg["bs"]
            keep = max(1024, int(cfg["size_kib"] * factor)) * 1024 // cfg["bs"]
            lo = min(keep, nblk - 2) if kind in ("shrink", "min") else nblk * 6 // 10
            cfg["badblocks"] = [rng.range(lo, nblk - 1) for _ in range(rng.range(1, 5))] + \
                ([rng.range(nblk * 6 // 10, nblk - 1)] if rng.chance(0.5) else [])
        return {"cfg": cfg, "world_seed": rng.u64(), "kind": kind, "kib": max(1024, int(cfg["size_kib"] * factor)),
                "spread": spread, "tight": tight, "tight_delta": rng.choice([0, 0, 1, 2, 3, 8, 30]), "fill": rng.chance(0.25),
                "flags": rng.choice([[], [], ["-p"], ["-f"]]), "subset_seed": rng.u64(), "subsets": 6 if tier == "quick" else 24,
                "scale": rng.choice([0.6, 1.0, 1.6])}

    def execute(self, spec, wd):
        o = Outcome()
        rng = Rng(spec["world_seed"])
        cfg = spec["cfg"]
        w = build_world(rng, wd, cfg=dict(cfg), scale=spec["scale"],
                        big_dir=rng.weighted([(0, 3), (rng.range(30, 200), 2)]) if not spec.get("spread") else rng.range(60, 300),
                        late_dirs=rng.range(2, 8) if spec.get("spread") else 0)
        if w["rejected"]:
            o.stats["world.rejected"] += 1
            o.trace = "rejected"
            return o
        img = w["img"]
        if spec.get("spread"):
            # delete the filler files again: what stays are few objects whose inodes sit in high groups
            names = [c.split('"')[3] for c in w["cmds"] if c.startswith("write ") and c.count('"') >= 4 and c.split('"')[3].startswith("/bigdir/")]
            if names:
                from world import debugfs_script
                keep_every = rng.choice([0, 0, 7, 20])
                rmcmds = ['rm "%s"' % n for k, n in enumerate(names) if not (keep_every and k % keep_every == 0)]
                debugfs_script(img, rmcmds, wd, tag="thin", rand_seed=6)
                e2fsck(img, ["-fy"], wd, tag="settle3", problems=False)
                o.stats["probe.thinned"] += 1
        if spec.get("fill"):
            # a nearly full filesystem: a shrink must squeeze data into the last free blocks
            try:
                fsx = refext4.RefFS(path=img)
                free = fsx.sb["s_free_blocks_count"] * fsx.block_size * fsx.cluster_ratio
                big = os.path.join(wd, "fill.host")
                with open(big, "wb") as f:
                    f.write(Rng(spec["world_seed"] ^ 0xF111).bytes(4096) * (int(free * rng.choice([0.5, 0.7, 0.8])) // 4096))
                from world import debugfs_script
                debugfs_script(img, ['write "%s" /fill.bin' % big], wd, tag="fill", rand_seed=8)
                e2fsck(img, ["-fy"], wd, tag="settle2", problems=False)
                os.unlink(big)
                o.stats["probe.filled"] += 1
            except Exception as ex:
                o.observations.append("fill failed: %r" % ex)
        r0, c0 = e2fsck(img, ["-fn"], wd, tag="pre", clock=1500002000)
        if r0.status != 0 or c0:
            o.stats["world.not_clean"] += 1
            o.trace = "notclean"
            return o
        pre = open(img, "rb").read()
        try:
            fs0 = refext4.RefFS(data=pre)
            d0, recs0 = fs0.tree_digest(include_mtime=False)
        except Exception as ex:
            o.observations.append("refext4 cannot read a clean world: %r" % ex)
            o.trace = "unreadable"
            return o
        kind = spec["kind"]
        argv = [tool("resize2fs")] + spec["flags"]
        if spec.get("tight"):
            # a shrink to (just below) the minimum resize2fs itself estimates, forced: the block mover has to use every
            # free block of the remaining groups
            rp = run_sim([tool("resize2fs"), "-P", img], Plan([img], None, clock=1500002500, rand_seed=9), wd, tag="rsP")
            mm = re.search(rb"minimum size of the filesystem: (\d+)", rp.out + rp.err)
            if mm:
                minblk = int(mm.group(1))
                spec = dict(spec)
                spec["kib"] = max(64, (minblk - spec["tight_delta"]) * cfg["bs"] // 1024)
                argv = [tool("resize2fs"), "-f"]
                o.stats["probe.tight_shrink"] += 1
        if kind == "min":
            argv += ["-M", img]
        elif kind == "to64":
            argv += ["-b", img]
        elif kind == "to32":
            argv += ["-s", img]
        else:
            argv += [img, "%dK" % spec["kib"]]
        r = run_sim(argv, Plan([img], None, clock=1500003000, rand_seed=9), wd, tag="rs", keep_log=True, cpu_s=40)
        o.trace = log_hash(r.events)
        o.sim_us += r.sim_us
        o.evals += 1
        feats = ",".join(cfg["features"])
        where = "resize2fs %s on %d KiB, bs %d%s%s, features %s; %d objects" % (
            " ".join(a for a in r.argv[1:]), cfg["size_kib"], cfg["bs"], (", bpg %s" % cfg["bpg"]) if "bpg" in cfg else "",
            (", flex %s" % cfg["flex"]) if "flex" in cfg else "", feats, len(recs0))
        o.sample = {"argv": " ".join(r.argv[1:]), "size_kib": cfg["size_kib"], "bs": cfg["bs"], "features": feats, "status": r.status,
                    "objects": len(recs0)}
        o.stats["status.%s.%s" % (kind, r.status)] += 1
        if r.san or r.signal or r.timeout:
            o.observations.append("resize2fs ended abnormally (%s) -- judged under C06: %s" % (r.brief(), where))
            return o
        post = open(img, "rb").read()
        out = (r.out + r.err).decode("latin1")
        fssize0 = fs0.blocks_count * fs0.block_size
        ck = "%s|%s" % (kind, "+".join(f for f in ("bigalloc", "meta_bg", "flex_bg", "resize_inode", "64bit", "quota", "metadata_csum", "sparse_super2")
                                       if f in cfg["features"]))
        # ---------------- reach probes: did the run have inodes to relocate?
        if r.status == 0 and len(post) >= 2048:
            try:
                fsq = refext4.RefFS(data=post)
                if fsq.group_count < fs0.group_count:
                    cut = fsq.group_count * fs0.inodes_per_group
                    moved = [rec for rec in recs0.values() if rec.get("ino", 0) > cut]
                    if moved:
                        o.stats["probe.shrink_relocated_inodes"] += 1
                    if any(rec["type"] == 0o040000 for rec in moved):
                        o.stats["probe.shrink_relocated_dirs"] += 1
                        if "inline_data" in cfg["features"]:
                            o.stats["probe.shrink_relocated_dirs_inline_fs"] += 1
            except Exception as ex:
                o.observations.append("reach probe failed: %r" % ex)
        # ---------------- data clauses
        if r.status == 0:
            m = re.search(r"is now (\d+) \((\d+)k\) blocks long", out)
            nothing = "Nothing to do" in out
            try:
                fs1 = refext4.RefFS(data=post)
            except Exception as ex:
                o.violate("success|unreadable|" + ck, "the independent reader cannot read the result (%r): %s" % (ex, where), skey="success|unreadable")
                fs1 = None
            if fs1 is not None:
                if m and int(m.group(1)) != fs1.blocks_count:
                    o.violate("success|size_mismatch|" + ck, "resize2fs reports %s blocks, the superblock says %d: %s" %
                              (m.group(1), fs1.blocks_count, where), skey="success|size")
                if not m and not nothing:
                    o.observations.append("status 0 without a size report: %s ... %s" % (out[-200:], where))
                if kind in ("grow", "shrink") and m and fs1.block_size * fs1.blocks_count > spec["kib"] * 1024:
                    o.violate("success|larger_than_asked|" + ck, "asked for %d KiB, filesystem is %d blocks of %d: %s" %
                              (spec["kib"], fs1.blocks_count, fs1.block_size, where), skey="success|size")
                if post != pre:
                    o.distinct.add("%s|%s|%d|%s|%s" % (kind, feats, cfg["bs"], cfg.get("bpg"), cfg.get("flex")))
                    o.stats["probe.modified.%s" % kind] += 1
                rn, cn = e2fsck(img, ["-fn"], wd, tag="post", clock=1500006000)
                o.evals += 1
                if (rn.status != 0 or cn) and not (rn.san or rn.signal or rn.timeout):
                    tail = "\n".join(l for l in rn.out.decode("latin1").splitlines() if l.strip())[-700:]
                    o.violate("success|not_consistent|%s|fn:%s" % (ck, ",".join("%x" % c for c in sorted(set(cn))[:5])),
                              "after a successful run e2fsck -fn exits %s (problems %s): %s\n%s" %
                              (rn.status, ["%#x" % c for c in sorted(set(cn))[:8]], where, tail), skey="success|not_consistent")
                else:
                    try:
                        comp = fs1.check()
                        # (what the independent checker already said about the filesystem before the resize is not the
                        # resize's doing: compare by rule and by the inode the complaint names)
                        try:
                            before = set((c.rule, re.sub(r"\d+", "#", c.detail.split(" is ")[0])) for c in fs0.check())
                        except Exception:
                            before = set()
                        comp = [c for c in comp if (c.rule, re.sub(r"\d+", "#", c.detail.split(" is ")[0])) not in before]
                        if comp:
                            o.violate("success|refext4|%s|%s" % (ck, comp[0].rule), "independent checker complains (%d): %s -- %s" %
                                      (len(comp), "; ".join("%s %s" % (c.rule, c.detail) for c in comp[:3]), where), skey="success|refext4")
                    except Exception as ex:
                        o.observations.append("refext4.check failed on a resized filesystem: %r" % ex)
                try:
                    d1, recs1 = fs1.tree_digest(include_mtime=False)
                    if d1 != d0:
                        df = diff_trees(recs0, recs1)
                        if df:
                            fields = sorted(set(f for _p, f, _a, _b in df))
                            o.violate("success|digest:%s|%s" % (",".join(fields[:3]), ck), "files changed: %s -- %s" % (brief(df), where),
                                      skey="success|digest")
                except Exception as ex:
                    o.violate("success|unreadable_tree|" + ck, "the independent reader cannot walk the result (%r): %s" % (ex, where),
                              skey="success|unreadable")
        else:
            aborted = "aborted resize" in out
            o.stats["refused" if not aborted else "aborted"] += 1
            if not aborted and post[:fssize0] != pre[:fssize0]:
                nd = [k for k in range(0, fssize0, SECT) if post[k:k + SECT] != pre[k:k + SECT]]
                o.violate("refusal|modified|" + ck, "resize2fs refused (status %s: %s) but changed %d sector(s) inside the filesystem, first at "
                          "byte %d: %s" % (r.status, out.strip().splitlines()[-1][:120] if out.strip() else "", len(nd), nd[0], where),
                          skey="refusal|modified")
        # ---------------- flag clause over crash states
        self._flag_clause(o, spec, r, pre, post, where, ck)
        return o

    def _flag_clause(self, o, spec, r, pre, post, where, ck):
        size = max(len(pre), len(post))
        pre_x = bytearray(pre) + bytearray(size - len(pre))
        post_x = bytes(post) + bytes(size - len(post))
        evs = [e for e in r.events if e.dev == 0 and e.kind in "WZPFT"]
        if any(e.kind == "T" and e.res == 0 and e.len < len(pre) for e in evs):
            # the image file is cut at the end of a successful shrink, after the filesystem was closed
            pass
        refs = (bytes(pre_x), post_x)
        # the pre-image is compared over the old length only: what resize2fs puts behind the old end (the byte that extends
        # an image file, new groups) lies outside the filesystem the on-disk superblock describes until that is rewritten;
        # the final image is compared over its own length only: a successful shrink cuts the image file after the
        # filesystem has been closed, and what lies behind the new end is not part of the filesystem any more
        limits = (len(pre), len(post))
        durable = SectorDiff(bytearray(pre_x), refs, limits)     # on the medium after the last completed barrier
        cur = SectorDiff(bytearray(pre_x), refs, limits)         # kill model: everything issued so far
        srng = Rng(spec["subset_seed"])
        epoch = []                                       # mutating events since the last completed barrier
        nstates = 0
        nflagged = 0
        first_bad = None

        def judge(sd, label):
            nonlocal nstates, nflagged, first_bad
            nstates += 1
            if sd.n[0] == 0 or sd.n[1] == 0:
                return
            if sd.flag():
                nflagged += 1
                return
            if first_bad is None:
                first_bad = (label, sd.n[0], sd.n[1])

        idx = 0
        for e in evs:
            idx += 1
            if e.kind == "F":
                if e.res == 0 and epoch:
                    # power model: subsets of this epoch's writes on top of the durable image
                    k = len(epoch)
                    subsets = []
                    if k > 1:
                        subsets.append(("none", [False] * k))
                        for _ in range(min(spec["subsets"], k)):
                            i = srng.below(k)
                            s = [True] * k
                            s[i] = False
                            subsets.append(("drop%d" % i, s))
                            j = srng.below(k)
                            s = [False] * k
                            s[j] = True
                            subsets.append(("keep%d" % j, s))
                        s = [False] * k
                        s[-1] = True
                        subsets.append(("keeplast", s))
                        for _ in range(spec["subsets"] // 2):
                            subsets.append(("rand", [srng.chance(0.5) for _ in range(k)]))
                    for name, keep in subsets:
                        # apply, judge, roll back
                        undo = []
                        for (off, data), kp in zip(epoch, keep):
                            if kp:
                                undo.append((off, bytes(durable.cur[off:off + len(data)])))
                                durable.write(off, data)
                        judge(durable, "power-loss before event %d (fsync), in-flight subset %s of %d" % (idx, name, k))
                        for off, old in reversed(undo):
                            durable.write(off, old)
                    o.stats["probe.power_subsets"] += len(subsets)
                    for off, data in epoch:
                        durable.write(off, data)
                    epoch = []
                continue
            if e.kind == "T":
                continue
            b = event_bytes(e, size)
            if b is None:
                continue
            off, data = b
            if off + len(data) > size:
                data = data[:max(0, size - off)]
            cur.write(off, data)
            epoch.append((off, data))
            judge(cur, "kill after event %d (%s)" % (idx, e.brief()))
        o.evals += nstates
        o.stats["probe.crash_states"] += nstates
        o.stats["probe.crash_states_needing_flag"] += nflagged
        if first_bad:
            label, n0, n1 = first_bad
            o.violate("flag|unflagged_intermediate_state|" + ck,
                      "crash state '%s': the device differs from the pre-image in %d sector(s) and from the final image in %d sector(s) "
                      "outside the primary superblock, yet the on-disk primary superblock does not carry the 'has errors' flag: %s" %
                      (label, n0, n1, where), skey="flag")

    def shrink(self, spec, v):
        if spec["flags"]:
            c = dict(spec)
            c["flags"] = []
            yield c
        if spec["scale"] > 0.6:
            c = dict(spec)
            c["scale"] = 0.6
            yield c
        feats = spec["cfg"]["features"]
        for f in feats:
            c = dict(spec)
            c["cfg"] = dict(spec["cfg"])
            c["cfg"]["features"] = [x for x in feats if x != f]
            yield c
        for k in ("bpg", "flex", "inode_ratio", "resize_max"):
            if k in spec["cfg"]:
                c = dict(spec)
                c["cfg"] = {a: b for a, b in spec["cfg"].items() if a != k}
                yield c


if __name__ == "__main__":
    main(C08)
